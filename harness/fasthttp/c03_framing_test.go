//go:build verif

package fasthttp

// C03 — server responses are framed exactly as the handler built them.
//
// Driver: the real Server.ServeConn on a scripted vnet.Conn that carries two requests. Each request is answered by a
// handler *program* (a sequence of response-building calls). A small reference model (c03Model) interprets the same
// program; the captured wire bytes are split by the independent splitter of c03_wire_test.go, cross-checked with
// net/http.ReadResponse, and compared with the model.

import (
	"bufio"
	"bytes"
	"compress/gzip"
	"compress/zlib"
	"encoding/json"
	"fmt"
	"io"
	"net"
	"sort"
	"strings"
	"sync"
	"testing"
	"time"

	"github.com/andybalholm/brotli"
	"github.com/klauspost/compress/zstd"
	"github.com/valyala/fasthttp/internal/verif/seqx"
	"github.com/valyala/fasthttp/internal/verif/vnet"
	"github.com/valyala/fasthttp/internal/verif/vrt"
)

// ---------------------------------------------------------------------------------------------------------------
// case description

type c03Case struct {
	P1, P2 []string // handler programs (op names) of request 1 and 2
	M1, M2 string   // GET / HEAD / POST
	V1, V2 string   // "1.1", "1.0ka" (HTTP/1.0 + Connection: keep-alive), "1.0"
	Buf    int      // Server.WriteBufferSize
	Gzip   bool     // handlers wrapped in CompressHandlerBrotliLevel, requests carry an Accept-Encoding field ...
	AE     string   `json:",omitempty"` // ... with this value ("" = "gzip")
	Pipe   bool     // both requests delivered by one Read (pipelined) instead of one Read each
	L      int      // number of bytes a body stream / stream writer yields
	RK     string   // stream reader flavour: "plain" (io.Reader only) or "bytes" (*bytes.Reader, has WriteTo)
	// BufRel k = 1|2: Server.WriteBufferSize is not Buf but (length of the header block of response k) + Buf, so that
	// the write buffer runs full - and is flushed to the connection - Buf bytes after that header block.
	BufRel int `json:",omitempty"`
	// Intr: name of the concurrent pool user (c03Intruders) that is served on the same Server, on a connection of its
	// own, in the middle of every call the server makes to this connection's Write. "" = nobody else is active.
	// (The body stream's Read is not used as a second call-out point: under CompressHandler it runs on a goroutine of
	// its own, and the harness stays single-threaded.)
	Intr string `json:",omitempty"`
	// Shift: body streams / stream writers yield c03Pattern[Shift:Shift+L]. 0 in every enumerated case; the concurrent
	// pool users have their own, so that their payload differs from the payload of the connection under test at every
	// offset of a shared buffer (the pattern has period 36).
	Shift int `json:",omitempty"`
}

func (c c03Case) key() string { b, _ := json.Marshal(c); return string(b) }

func (c *c03Case) hash() uint64 {
	h := uint64(14695981039346656037)
	mix := func(s string) {
		for i := 0; i < len(s); i++ {
			h = (h ^ uint64(s[i])) * 1099511628211
		}
		h = (h ^ 0xff) * 1099511628211
	}
	for _, o := range c.P1 {
		mix(o)
	}
	mix("|")
	for _, o := range c.P2 {
		mix(o)
	}
	mix(c.M1 + c.M2 + c.V1 + c.V2 + c.RK)
	h = (h ^ uint64(c.Buf)) * 1099511628211
	h = (h ^ uint64(c.L)) * 1099511628211
	h = (h ^ uint64(c.BufRel)) * 1099511628211
	mix(c.Intr)
	if c.Gzip {
		h = (h ^ 1) * 1099511628211
		mix(c.AE)
	}
	if c.Pipe {
		h = (h ^ 2) * 1099511628211
	}
	return h
}

const c03LongBody = 300   // > minCompressLen
const c03LongAppend = 250 // > minCompressLen

type c03Reader struct {
	data []byte
	pos  int
}

func (r *c03Reader) Read(p []byte) (int, error) {
	if r.pos >= len(r.data) {
		return 0, io.EOF
	}
	n := copy(p, r.data[r.pos:])
	r.pos += n
	return n, nil
}

func c03MakeReader(c *c03Case) io.Reader {
	if c.RK == "bytes" {
		return bytes.NewReader(c03Pattern[c.Shift : c.Shift+c.L])
	}
	return &c03Reader{data: c03Pattern[c.Shift : c.Shift+c.L]}
}

// ---------------------------------------------------------------------------------------------------------------
// reference model of the response a program builds

type c03Model struct {
	status   int
	msg      string
	hdr      []c03KV // handler-set ordinary fields, in order
	cookies  []c03KV // key -> "key=value"
	ctype    string  // handler-set Content-Type ("" = automatic)
	kind     int     // 0 bytes, 1 stream with declared size, 2 stream writer
	body     []byte
	yield    int
	declared int // -1: unknown size (chunked)
	skip     bool
	trailer  string // value of trailer field X-T ("" = none)
	close    bool   // Connection: close set by hand
	// underBodyless: the current body stream was installed while the status was 204/304 (only used to name the
	// violation class of programs that later switch to a body-carrying status)
	underBodyless bool
}

// set follows the documented header semantics (see C29): Set replaces the first value stored under the name and
// leaves later ones (added with Add) alone.
func (m *c03Model) set(k, v string) {
	for i := range m.hdr {
		if m.hdr[i].K == k {
			m.hdr[i].V = v
			return
		}
	}
	m.hdr = append(m.hdr, c03KV{k, v})
}

func (m *c03Model) cookie(k, v string) {
	for i := range m.cookies {
		if m.cookies[i].K == k {
			m.cookies[i].V = k + "=" + v
			return
		}
	}
	m.cookies = append(m.cookies, c03KV{k, k + "=" + v})
}

func (m *c03Model) stream(c *c03Case, declared int) {
	m.kind, m.body, m.yield, m.declared = 1, nil, c.L, declared
	m.underBodyless = m.status == 204 || m.status == 304
}

type c03Op struct {
	name  string
	apply func(ctx *RequestCtx, c *c03Case)
	model func(m *c03Model, c *c03Case)
}

func c03Status(code int) c03Op {
	return c03Op{fmt.Sprintf("status-%d", code), func(ctx *RequestCtx, _ *c03Case) { ctx.SetStatusCode(code) },
		func(m *c03Model, _ *c03Case) { m.status = code }}
}

func c03Short(L int) int { return L + 7 } // declared size of the "short" stream (it yields 7 bytes less)
const c03LongDeclared = 3                 // declared size of the "long" stream (it yields L > 3 bytes)

var c03Ops = []c03Op{
	c03Status(200), c03Status(204), c03Status(304), c03Status(404), c03Status(999),
	{"status-msg", func(ctx *RequestCtx, _ *c03Case) { ctx.Response.Header.SetStatusMessage([]byte("Custom Msg")) },
		func(m *c03Model, _ *c03Case) { m.msg = "Custom Msg" }},
	{"set-xa-1", func(ctx *RequestCtx, _ *c03Case) { ctx.Response.Header.Set("X-A", "1") }, func(m *c03Model, _ *c03Case) { m.set("X-A", "1") }},
	{"set-xa-2", func(ctx *RequestCtx, _ *c03Case) { ctx.Response.Header.Set("x-a", "2") }, func(m *c03Model, _ *c03Case) { m.set("X-A", "2") }},
	{"add-xa-3", func(ctx *RequestCtx, _ *c03Case) { ctx.Response.Header.Add("X-A", "3") }, func(m *c03Model, _ *c03Case) { m.hdr = append(m.hdr, c03KV{"X-A", "3"}) }},
	{"set-xb", func(ctx *RequestCtx, _ *c03Case) { ctx.Response.Header.Set("X-B", "b b") }, func(m *c03Model, _ *c03Case) { m.set("X-B", "b b") }},
	{"hand-cl-3", func(ctx *RequestCtx, _ *c03Case) { ctx.Response.Header.Set("Content-Length", "3") },
		func(m *c03Model, _ *c03Case) {
			// a size declared by hand for a body stream is the stream's declared size (the last declaration counts);
			// for byte bodies the length is computed by the server
			if m.kind != 0 {
				m.declared = 3
			}
		}},
	{"hand-te", func(ctx *RequestCtx, _ *c03Case) { ctx.Response.Header.Set("Transfer-Encoding", "chunked") }, func(m *c03Model, _ *c03Case) {}},
	{"hand-close", func(ctx *RequestCtx, _ *c03Case) { ctx.Response.Header.Set("Connection", "close") }, func(m *c03Model, _ *c03Case) { m.close = true }},
	{"hand-keepalive", func(ctx *RequestCtx, _ *c03Case) { ctx.Response.Header.Set("Connection", "keep-alive") }, func(m *c03Model, _ *c03Case) { m.close = false }},
	{"cookie-a", func(ctx *RequestCtx, _ *c03Case) {
		var ck Cookie
		ck.SetKey("a")
		ck.SetValue("1")
		ctx.Response.Header.SetCookie(&ck)
	}, func(m *c03Model, _ *c03Case) { m.cookie("a", "1") }},
	{"cookie-a2", func(ctx *RequestCtx, _ *c03Case) {
		var ck Cookie
		ck.SetKey("a")
		ck.SetValue("two")
		ctx.Response.Header.SetCookie(&ck)
	}, func(m *c03Model, _ *c03Case) { m.cookie("a", "two") }},
	{"cookie-b", func(ctx *RequestCtx, _ *c03Case) {
		var ck Cookie
		ck.SetKey("b")
		ck.SetValue("2")
		ctx.Response.Header.SetCookie(&ck)
	}, func(m *c03Model, _ *c03Case) { m.cookie("b", "2") }},
	{"ctype", func(ctx *RequestCtx, _ *c03Case) { ctx.SetContentType("application/json") }, func(m *c03Model, _ *c03Case) { m.ctype = "application/json" }},
	{"body-set", func(ctx *RequestCtx, _ *c03Case) { ctx.SetBody([]byte("hello")) }, func(m *c03Model, _ *c03Case) { m.kind, m.body = 0, []byte("hello") }},
	{"body-set-long", func(ctx *RequestCtx, _ *c03Case) { ctx.SetBody(c03Pattern[:c03LongBody]) },
		func(m *c03Model, _ *c03Case) { m.kind, m.body = 0, append([]byte(nil), c03Pattern[:c03LongBody]...) }},
	{"body-append-long", func(ctx *RequestCtx, _ *c03Case) { ctx.Response.AppendBody(c03Pattern[1000 : 1000+c03LongAppend]) },
		func(m *c03Model, _ *c03Case) {
			if m.kind != 0 {
				m.kind, m.body = 0, nil
			}
			m.body = append(append([]byte(nil), m.body...), c03Pattern[1000:1000+c03LongAppend]...)
		}},
	{"body-raw-long", func(ctx *RequestCtx, _ *c03Case) { ctx.Response.SetBodyRaw(c03Pattern[500 : 500+c03LongBody]) },
		func(m *c03Model, _ *c03Case) { m.kind, m.body = 0, append([]byte(nil), c03Pattern[500:500+c03LongBody]...) }},
	{"body-append", func(ctx *RequestCtx, _ *c03Case) { ctx.Response.AppendBody([]byte("+more")) },
		func(m *c03Model, _ *c03Case) {
			if m.kind != 0 { // a stream cannot be appended to: it is replaced
				m.kind, m.body = 0, nil
			}
			m.body = append(append([]byte(nil), m.body...), "+more"...)
		}},
	{"body-raw", func(ctx *RequestCtx, _ *c03Case) { ctx.Response.SetBodyRaw([]byte("rawbody")) }, func(m *c03Model, _ *c03Case) { m.kind, m.body = 0, []byte("rawbody") }},
	{"body-reset", func(ctx *RequestCtx, _ *c03Case) { ctx.Response.ResetBody() }, func(m *c03Model, _ *c03Case) { m.kind, m.body = 0, nil }},
	{"stream-exact", func(ctx *RequestCtx, c *c03Case) { ctx.Response.SetBodyStream(c03MakeReader(c), c.L) }, func(m *c03Model, c *c03Case) { m.stream(c, c.L) }},
	{"stream-short", func(ctx *RequestCtx, c *c03Case) { ctx.Response.SetBodyStream(c03MakeReader(c), c03Short(c.L)) }, func(m *c03Model, c *c03Case) { m.stream(c, c03Short(c.L)) }},
	{"stream-long", func(ctx *RequestCtx, c *c03Case) { ctx.Response.SetBodyStream(c03MakeReader(c), c03LongDeclared) }, func(m *c03Model, c *c03Case) { m.stream(c, c03LongDeclared) }},
	{"stream-chunked", func(ctx *RequestCtx, c *c03Case) { ctx.Response.SetBodyStream(c03MakeReader(c), -1) }, func(m *c03Model, c *c03Case) { m.stream(c, -1) }},
	{"writer-1", func(ctx *RequestCtx, c *c03Case) { ctx.Response.SetBodyStreamWriter(c03Writer(c.L, 1, c.Shift)) }, func(m *c03Model, c *c03Case) { m.stream(c, -1); m.kind = 2 }},
	{"writer-3", func(ctx *RequestCtx, c *c03Case) { ctx.Response.SetBodyStreamWriter(c03Writer(c.L, 3, c.Shift)) }, func(m *c03Model, c *c03Case) { m.stream(c, -1); m.kind = 2 }},
	{"skipbody", func(ctx *RequestCtx, _ *c03Case) { ctx.Response.SkipBody = true }, func(m *c03Model, _ *c03Case) { m.skip = true }},
	{"trailer", func(ctx *RequestCtx, _ *c03Case) {
		ctx.Response.Header.SetTrailer("X-T") //nolint:errcheck
		ctx.Response.Header.Set("X-T", "tv")
	}, func(m *c03Model, _ *c03Case) { m.trailer = "tv" }},
	// The timeout path: the server abandons this ctx and answers from a copy of the timeout response; these ops end
	// the program (nothing the handler did before or does afterwards reaches the wire).
	{"timeout-error", func(ctx *RequestCtx, _ *c03Case) { ctx.TimeoutError("timeout message") },
		func(m *c03Model, _ *c03Case) { *m = c03Model{status: 408, body: []byte("timeout message"), declared: -1} }},
	{"timeout-error-with-code", func(ctx *RequestCtx, _ *c03Case) { ctx.TimeoutErrorWithCode("timeout with code", 504) },
		func(m *c03Model, _ *c03Case) { *m = c03Model{status: 504, body: []byte("timeout with code"), declared: -1} }},
	{"timeout-error-with-response", func(ctx *RequestCtx, _ *c03Case) {
		var resp Response
		resp.SetStatusCode(429)
		resp.Header.Set("X-B", "from timeout response")
		resp.SetBody([]byte("timeout response body"))
		ctx.TimeoutErrorWithResponse(&resp)
	}, func(m *c03Model, _ *c03Case) {
		*m = c03Model{status: 429, body: []byte("timeout response body"), declared: -1, hdr: []c03KV{{"X-B", "from timeout response"}}}
	}},
	{"error-500", func(ctx *RequestCtx, _ *c03Case) { ctx.Error("oops", 500) },
		func(m *c03Model, _ *c03Case) {
			*m = c03Model{status: 500, ctype: "text/plain; charset=utf-8", body: []byte("oops"), declared: -1}
		}},
}

var c03OpIdx = func() map[string]int {
	m := map[string]int{}
	for i, o := range c03Ops {
		m[o.name] = i
	}
	return m
}()

func c03IsStreamOp(name string) bool {
	return strings.HasPrefix(name, "stream-") || strings.HasPrefix(name, "writer-")
}

// c03Writer writes L pattern bytes in n pieces, flushing after each.
func c03Writer(L, n, shift int) StreamWriter {
	return func(w *bufio.Writer) {
		for i := 0; i < n; i++ {
			lo, hi := L*i/n, L*(i+1)/n
			if _, err := w.Write(c03Pattern[shift+lo : shift+hi]); err != nil {
				return
			}
			if err := w.Flush(); err != nil {
				return
			}
		}
	}
}

func c03IsTimeoutOp(name string) bool { return strings.HasPrefix(name, "timeout-") }

func c03Interpret(prog []string, c *c03Case) *c03Model {
	m := &c03Model{status: 200, declared: -1}
	for _, name := range prog {
		c03Ops[c03OpIdx[name]].model(m, c)
		if c03IsTimeoutOp(name) {
			break // the handler returns after declaring the timeout
		}
	}
	return m
}

// ---------------------------------------------------------------------------------------------------------------
// running one case against the real server

type c03Servers struct {
	mu   sync.Mutex
	srv  map[int]*Server
	cur  *c03Run
	hlen map[string][2]int // header block lengths of both responses of a case (key: the case with canonical buffer, alone)
	iref map[string]*c03IntrRef
}

// c03IntrRef: what a concurrent user's connection looks like when it is served alone on the same Server (judged once
// by the full oracle); the bytes of every later run are compared with it (Date values masked) and only a run that
// differs goes through the oracle again.
type c03IntrRef struct {
	out   []byte
	finds []c03Finding
	terr  string
}

func c03MaskDate(b []byte) []byte {
	out := append([]byte(nil), b...)
	for off := 0; ; {
		i := bytes.Index(out[off:], []byte("\r\nDate: "))
		if i < 0 {
			return out
		}
		j := off + i + 8
		for j < len(out) && out[j] != '\r' {
			out[j] = 'D'
			j++
		}
		off = j
	}
}

// c03EqualMasked: is b, with its Date values masked, equal to the masked reference?
func c03EqualMasked(b, ref []byte) bool {
	if len(b) != len(ref) {
		return false
	}
	for off := 0; ; {
		i := bytes.Index(b[off:], []byte("\r\nDate: "))
		if i < 0 {
			return bytes.Equal(b[off:], ref[off:])
		}
		j := off + i + 8
		if !bytes.Equal(b[off:j], ref[off:j]) {
			return false
		}
		for j < len(b) && b[j] != '\r' {
			if ref[j] != 'D' {
				return false
			}
			j++
		}
		off = j
	}
}

func c03ServeIntruder(ss *c03Servers, srv *Server, name string, buf int) (*c03Case, *c03Run) {
	ic := c03Intruders[name]
	ic.Buf = buf
	ae := c03AcceptEncoding(&ic)
	iconn := vnet.NewConn(c03Request(ic.M1, ic.V1, ae), c03Request(ic.M2, ic.V2, ae))
	irun := &c03Run{c: &ic, conn: iconn}
	saved := ss.cur
	ss.cur = irun
	srv.ServeConn(iconn) //nolint:errcheck
	ss.cur = saved
	return &ic, irun
}

func (ss *c03Servers) intrRef(srv *Server, name string, buf int) *c03IntrRef {
	key := fmt.Sprintf("%s/%d", name, buf)
	if ref := ss.iref[key]; ref != nil {
		return ref
	}
	ref := &c03IntrRef{}
	if _, ok := c03Intruders[name]; !ok {
		ref.terr = fmt.Sprintf("unknown concurrent user %q", name)
	} else {
		ic, irun := c03ServeIntruder(ss, srv, name, buf)
		ires := &c03Result{}
		c03Oracle(ic, irun, ires)
		ref.out, ref.finds, ref.terr = c03MaskDate(irun.conn.Output()), ires.finds, ires.toolErr
	}
	if ss.iref == nil {
		ss.iref = map[string]*c03IntrRef{}
	}
	ss.iref[key] = ref
	return ref
}

type c03Run struct {
	c       *c03Case
	conn    *vnet.Conn
	calls   int
	evMark  [2]int // number of connection events when handler k was entered
	outMark [2]int // bytes written to the connection when handler k was entered
	// abandoned: contexts the server left behind on the timeout path; the harness resets their responses afterwards so
	// that stream writers installed before the timeout do not pile up as blocked goroutines
	abandoned []*RequestCtx
	// re-entrancy (c.Intr != ""): what the concurrent pool user's own responses looked like, how often it ran
	intrFinds   []c03Finding
	intrToolErr string
	intrusions  int
	inIntr      bool
}

// c03HookConn is the scripted connection with a hook in front of every Write: the hook runs while the server is inside
// its call to the connection, *before* the bytes handed over are recorded - the position of a peer that is slow to take
// them. Whatever the hook does (serve somebody else on the same Server) is something any other goroutine may do at that
// moment, so nothing of it may show in this connection's bytes.
type c03HookConn struct {
	*vnet.Conn
	hook func()
}

func (c *c03HookConn) Write(p []byte) (int, error) {
	c.hook()
	return c.Conn.Write(p)
}

// c03Intruders: the concurrent users of the pooled objects of the response writer (chunk-size scratch buffers, copy
// buffers, bufio writers, contexts, compressors, byte buffers). Each is a complete connection of its own (one request,
// answered with Connection: close), judged by the same oracle. The two chunked ones use stream sizes whose hex digits differ from each other in every
// position, so whichever digits somebody else's scratch buffer holds, at least one of them changes them.
var c03Intruders = map[string]c03Case{
	"chunked-abc": {P1: []string{"stream-chunked", "trailer", "hand-close"}, P2: []string{"body-set"}, M1: "GET", M2: "GET", V1: "1.1", V2: "1.1", L: 0xabc, RK: "plain", Shift: 17},
	"chunked-543": {P1: []string{"cookie-a", "stream-chunked", "hand-close"}, P2: []string{"body-set"}, M1: "POST", M2: "GET", V1: "1.1", V2: "1.1", L: 0x543, RK: "bytes", Shift: 29},
	"mixed": {P1: []string{"status-404", "cookie-b", "body-set-long", "hand-close"}, P2: []string{"body-set"}, M1: "GET", M2: "GET", V1: "1.1", V2: "1.1",
		L: 300, RK: "plain", Gzip: true, Shift: 7},
}

var c03IntruderNames = []string{"chunked-abc", "chunked-543", "mixed"}

// c03Intrude serves the intruder's connection on srv, from inside a call-out of the connection of run.
func c03Intrude(ss *c03Servers, srv *Server, run *c03Run, buf int, ref *c03IntrRef) {
	if run.inIntr || ref.terr != "" {
		return
	}
	run.inIntr = true
	ic, irun := c03ServeIntruder(ss, srv, run.c.Intr, buf)
	run.inIntr = false
	run.intrusions++
	if c03EqualMasked(irun.conn.Out.Bytes(), ref.out) && irun.conn.Closed > 0 {
		return // fast path: byte for byte what it is when served alone
	}
	ires := &c03Result{}
	c03Oracle(ic, irun, ires)
	if ires.toolErr != "" && run.intrToolErr == "" {
		run.intrToolErr = "concurrent connection: " + ires.toolErr
	}
	run.addIntrFinds(ires.finds) // (none: a different but equally valid serialisation, e.g. other chunk boundaries of a compressed stream)
}

func (run *c03Run) addIntrFinds(finds []c03Finding) {
next:
	for _, f := range finds {
		sym := "concurrent-connection:" + f.sym
		for _, g := range run.intrFinds {
			if g.sym == sym {
				continue next
			}
		}
		run.intrFinds = append(run.intrFinds, c03Finding{sym, fmt.Sprintf("the connection served concurrently (%s, during call-out %d of this connection): %s", run.c.Intr, run.intrusions, f.what)})
	}
}

type c03NullLogger struct{}

func (c03NullLogger) Printf(string, ...any) {}

func (ss *c03Servers) get(buf int) *Server {
	if s := ss.srv[buf]; s != nil {
		return s
	}
	if ss.srv == nil {
		ss.srv = map[int]*Server{}
	}
	h := func(ctx *RequestCtx) {
		run := ss.cur
		k := run.calls
		run.calls++
		if k < 2 {
			run.evMark[k] = len(run.conn.Events)
			run.outMark[k] = run.conn.Out.Len()
		}
		prog := run.c.P1
		if k >= 1 {
			prog = run.c.P2
		}
		for _, name := range prog {
			c03Ops[c03OpIdx[name]].apply(ctx, run.c)
			if c03IsTimeoutOp(name) {
				run.abandoned = append(run.abandoned, ctx)
				break
			}
		}
	}
	gz := CompressHandlerBrotliLevel(h, CompressBrotliBestSpeed, CompressBestSpeed) // the level is irrelevant to framing
	s := &Server{WriteBufferSize: buf, Logger: c03NullLogger{}, Name: "verif",
		Handler: func(ctx *RequestCtx) {
			if ss.cur.c.Gzip {
				gz(ctx)
			} else {
				h(ctx)
			}
		}}
	ss.srv[buf] = s
	return s
}

func c03AcceptEncoding(c *c03Case) string {
	if !c.Gzip {
		return ""
	}
	if c.AE == "" {
		return "gzip"
	}
	return c.AE
}

var (
	c03ZstdOnce sync.Once
	c03ZstdDec  *zstd.Decoder
	c03ZstdErr  error
)

// c03Decode undoes the content coding a response declares, with decoders that are not fasthttp's own code.
func c03Decode(enc string, b []byte) ([]byte, error) {
	var rd io.Reader
	switch enc {
	case "gzip":
		zr, err := gzip.NewReader(bytes.NewReader(b))
		if err != nil {
			return nil, err
		}
		rd = zr
	case "deflate": // fasthttp's "deflate" is the zlib format of RFC 9110
		zr, err := zlib.NewReader(bytes.NewReader(b))
		if err != nil {
			return nil, err
		}
		rd = zr
	case "br":
		rd = brotli.NewReader(bytes.NewReader(b))
	case "zstd":
		// one shared klauspost decoder, whole-buffer interface (a stream decoder per response costs a goroutine and a
		// window allocation each time)
		c03ZstdOnce.Do(func() { c03ZstdDec, c03ZstdErr = zstd.NewReader(nil) })
		if c03ZstdErr != nil {
			return nil, c03ZstdErr
		}
		return c03ZstdDec.DecodeAll(b, nil)
	default:
		return nil, fmt.Errorf("unknown content coding %q", enc)
	}
	return io.ReadAll(rd)
}

func c03Request(method, ver string, ae string) []byte {
	var b bytes.Buffer
	proto := "HTTP/1.1"
	if ver != "1.1" {
		proto = "HTTP/1.0"
	}
	fmt.Fprintf(&b, "%s /p HTTP/%s\r\nHost: h\r\n", method, proto[5:])
	if ver == "1.0ka" {
		b.WriteString("Connection: keep-alive\r\n")
	}
	if ae != "" {
		b.WriteString("Accept-Encoding: " + ae + "\r\n")
	}
	if method == "POST" {
		b.WriteString("Content-Length: 3\r\n\r\nabc")
	} else {
		b.WriteString("\r\n")
	}
	return b.Bytes()
}

// c03Finding is one oracle failure: a symptom class plus a human readable description.
type c03Finding struct{ sym, what string }

// c03Result carries what the oracle saw (for samples and anti-vacuity counters).
type c03Result struct {
	finds                                     []c03Finding
	nresp                                     int
	mismatch, chunked, nobody, gzipped, close bool
	toolErr                                   string
	intrusions                                int  // how often the concurrent pool user was served inside this connection's call-outs
	straddle                                  bool // a flush to the connection happened between two digits of a chunk-size line
}

// c03Exec runs one case; a panic escaping from the server or a handler call is a finding of its own class (the
// servers are rebuilt afterwards because their pools may hold half-written state).
func c03Exec(ss *c03Servers, c *c03Case) (res *c03Result) {
	defer func() {
		if p := recover(); p != nil {
			class, detail := c03PanicClass(p)
			res = &c03Result{finds: []c03Finding{{class, "the library panicked while serving the case: " + detail}}}
			ss.srv, ss.iref = nil, nil
		}
	}()
	return c03ExecInner(ss, c)
}

func c03ExecInner(ss *c03Servers, c *c03Case) *c03Result {
	r1, r2 := c03Request(c.M1, c.V1, c03AcceptEncoding(c)), c03Request(c.M2, c.V2, c03AcceptEncoding(c))
	var conn *vnet.Conn
	if c.Pipe {
		conn = vnet.NewConn(append(append([]byte(nil), r1...), r2...))
	} else {
		conn = vnet.NewConn(r1, r2)
	}
	buf := c.Buf
	if c.BufRel != 0 {
		buf = max(1, c03HeaderLen(ss, c)+c.Buf)
	}
	run := &c03Run{c: c, conn: conn}
	ss.cur = run
	srv := ss.get(buf)
	var nc net.Conn = conn
	if c.Intr != "" {
		ref := ss.intrRef(srv, c.Intr, buf)
		ss.cur = run
		run.intrToolErr = ref.terr
		run.addIntrFinds(ref.finds)
		nc = &c03HookConn{Conn: conn, hook: func() { c03Intrude(ss, srv, run, buf, ref) }}
	}
	srv.ServeConn(nc) //nolint:errcheck
	for _, ctx := range run.abandoned {
		ctx.Response.Reset()
	}
	res := &c03Result{intrusions: run.intrusions}
	c03Oracle(c, run, res)
	res.finds = append(res.finds, run.intrFinds...)
	if res.toolErr == "" {
		res.toolErr = run.intrToolErr
	}
	return res
}

// c03HeaderLen measures the header block of response c.BufRel: the same case is served alone, one Read per request,
// with the canonical write buffer, and the block is delimited on the wire (the position where handler k was entered
// up to the first empty line). 0 if that response does not exist.
func c03HeaderLen(ss *c03Servers, c *c03Case) int {
	probe := *c
	probe.Buf, probe.BufRel, probe.Intr, probe.Pipe = c03Canonical().Buf, 0, "", false
	key := probe.key()
	if v, ok := ss.hlen[key]; ok {
		return v[c.BufRel-1]
	}
	conn := vnet.NewConn(c03Request(c.M1, c.V1, c03AcceptEncoding(c)), c03Request(c.M2, c.V2, c03AcceptEncoding(c)))
	run := &c03Run{c: &probe, conn: conn}
	ss.cur = run
	ss.get(probe.Buf).ServeConn(conn) //nolint:errcheck
	for _, ctx := range run.abandoned {
		ctx.Response.Reset()
	}
	out := conn.Output()
	var v [2]int
	for k := 0; k < 2 && k < run.calls; k++ {
		if start := run.outMark[k]; start <= len(out) {
			if i := bytes.Index(out[start:], []byte("\r\n\r\n")); i >= 0 {
				v[k] = i + 4
			}
		}
	}
	if ss.hlen == nil || len(ss.hlen) > 4096 {
		ss.hlen = map[string][2]int{}
	}
	ss.hlen[key] = v
	return v[c.BufRel-1]
}

// c03FlushInsideChunkSize: did the server hand bytes to the connection between two digits of a chunk-size line of the
// chunked body out[from:to]? (anti-vacuity counter of the re-entrant cases)
func c03FlushInsideChunkSize(out []byte, from, to int, events []vnet.Event) bool {
	p := from
	for p < to {
		q := p
		size := 0
		for q < to && (out[q] >= '0' && out[q] <= '9' || out[q] >= 'a' && out[q] <= 'f' || out[q] >= 'A' && out[q] <= 'F') {
			d := int(out[q] | 0x20)
			if d >= 'a' {
				d -= 'a' - 10
			} else {
				d -= '0'
			}
			size = size<<4 | d
			q++
		}
		if q == p {
			return false
		}
		for _, e := range events {
			if e.Op == "write" && e.Out > p && e.Out < q {
				return true
			}
		}
		if size == 0 {
			return false
		}
		eol := bytes.Index(out[q:to], []byte("\r\n"))
		if eol < 0 {
			return false
		}
		p = q + eol + 2 + size + 2
	}
	return false
}

var c03Automatic = map[string]bool{"Date": true, "Server": true, "Content-Type": true, "Content-Length": true,
	"Transfer-Encoding": true, "Connection": true, "Content-Encoding": true, "Vary": true, "Trailer": true}

func c03Oracle(c *c03Case, run *c03Run, res *c03Result) {
	out := run.conn.Output()
	add := func(sym, format string, a ...any) {
		res.finds = append(res.finds, c03Finding{sym, fmt.Sprintf(format, a...)})
	}
	if run.conn.Closed == 0 {
		add("conn-not-closed-on-return", "ServeConn returned without closing the connection")
	}
	progs := [2][]string{c.P1, c.P2}
	methods := [2]string{c.M1, c.M2}
	off := 0
	for k := 0; k < 2; k++ {
		if run.calls <= k {
			// the request was not handled: legitimate only if the previous response closed the connection (checked below)
			if off != len(out) {
				add("bytes-after-last-response", "%d bytes follow response %d although request %d was never handled", len(out)-off, k, k+1)
			}
			return
		}
		m := c03Interpret(progs[k], c)
		if m.kind != 0 && m.underBodyless && m.status != 204 && m.status != 304 {
			// one shape, one class: whatever goes wrong with this response is filed under the shape
			plain := add
			add = func(sym, format string, a ...any) {
				plain("stream-installed-under-bodyless-status-misframed", "[%s] "+format, append([]any{sym}, a...)...)
			}
		}
		head := methods[k] == "HEAD"
		sendBody := !(head || m.skip || m.status == 204 || m.status == 304)
		res.nobody = res.nobody || !sendBody
		if n, sym := c03Stray(out[off:]); n > 0 && k > 0 {
			// an empty line / a trailer section between two responses: name it precisely and read on behind it
			add(sym, "response %d is followed by %s before the next response starts", k, vrt.Q(out[off:off+n]))
			off += n
		}
		if off != run.outMark[k] && !c.Pipe {
			// without pipelining every earlier response is flushed before the next request is read
			add("response-start-not-at-previous-end", "response %d starts at %d but %d bytes were on the wire when its handler ran", k+1, off, run.outMark[k])
		}
		isStream := m.kind != 0
		mismatch := isStream && sendBody && m.declared >= 0 && m.declared != m.yield
		if mismatch && c.Gzip {
			// CompressHandler re-frames a stream as unknown-size by design, which hides the declared size; the
			// statement's mismatch clause has no observable meaning here, so only the boundary rules below apply.
			mismatch = false
			isStream = true
			m.declared = -1
		}
		if mismatch {
			res.mismatch = true
			c03OracleMismatch(c, run, k, m, out, off, add)
			return
		}
		// ---- a complete response is expected at out[off:]
		if off >= len(out) {
			add("response-missing", "request %d was handled but no response bytes are on the wire (output %d bytes)", k+1, len(out))
			return
		}
		headStyle := head || m.skip // SkipBody is documented as "use it for writing HEAD responses": read it as one
		w, err := c03Split(out[off:], true, headStyle)
		n, err2 := c03NetHTTP(out[off:], true, headStyle)
		if err != nil || err2 != nil {
			if (err == nil) != (err2 == nil) {
				res.toolErr = fmt.Sprintf("references disagree on parseability: own=%v net/http=%v wire=%s", err, err2, vrt.Q(c03Clip(out[off:])))
				return
			}
			add("response-unparseable", "response %d does not parse: own splitter: %v; net/http: %v; wire=%s", k+1, err, err2, vrt.Q(c03Clip(out[off:])))
			return
		}
		if d := c03CrossCheck(w, n); d != "" {
			res.toolErr = fmt.Sprintf("references disagree (%s) on wire=%s", d, vrt.Q(c03Clip(out[off:])))
			return
		}
		res.nresp++
		res.chunked = res.chunked || w.Chunked
		if w.Chunked && w.End > w.HeadEnd && (c.Intr != "" || c.BufRel != 0) && !res.straddle {
			res.straddle = c03FlushInsideChunkSize(out, off+w.HeadEnd, off+w.End, run.conn.Events)
		}
		// status and message
		if w.Status != m.status {
			add("status-differs", "response %d: status %d on the wire, handler set %d", k+1, w.Status, m.status)
		}
		if m.msg != "" && w.Reason != m.msg {
			add("status-message-differs", "response %d: reason %q on the wire, handler set %q", k+1, w.Reason, m.msg)
		}
		// handler-set fields, as a multiset per name
		want := map[string][]string{}
		for _, kv := range m.hdr {
			want[kv.K] = append(want[kv.K], kv.V)
		}
		for _, kv := range m.cookies {
			want["Set-Cookie"] = append(want["Set-Cookie"], kv.V)
		}
		for name, vals := range want {
			got := append([]string(nil), w.Get(name)...)
			exp := append([]string(nil), vals...)
			sort.Strings(got)
			sort.Strings(exp)
			if strings.Join(got, "\x00") != strings.Join(exp, "\x00") {
				add("header-field-differs:"+name, "response %d: field %s is %q on the wire, handler built %q", k+1, name, got, exp)
			}
		}
		if m.ctype != "" {
			if got := w.Get("Content-Type"); len(got) != 1 || got[0] != m.ctype {
				add("header-field-differs:Content-Type", "response %d: Content-Type %q on the wire, handler set %q", k+1, got, m.ctype)
			}
		}
		for _, kv := range w.Hdr {
			if !c03Automatic[kv.K] && want[kv.K] == nil && !(kv.K == "X-T" && m.trailer != "") {
				add("unexpected-header-field:"+kv.K, "response %d carries %s: %q which the handler never set", k+1, kv.K, kv.V)
			}
		}
		if m.trailer != "" && w.Chunked && sendBody {
			// trailers exist only with chunked framing; elsewhere the field is outside the comparison
			found := false
			for _, kv := range w.Trailer {
				if kv.K == "X-T" && kv.V == m.trailer {
					found = true
				}
			}
			if !found {
				add("trailer-field-missing", "response %d is chunked but trailer X-T=%q is not in its trailer section %v", k+1, m.trailer, w.Trailer)
			}
		}
		if m.close && !w.HasToken("Connection", "close") {
			add("hand-set-connection-close-lost", "response %d: handler set Connection: close, wire has Connection %q", k+1, w.Get("Connection"))
		}
		// body
		var wantBody []byte
		if sendBody {
			if isStream {
				wantBody = c03Pattern[c.Shift : c.Shift+m.yield]
			} else {
				wantBody = m.body
			}
		}
		gotBody := w.Body
		if ce := w.Get("Content-Encoding"); c.Gzip && len(ce) > 0 && len(gotBody) > 0 {
			// no op sets Content-Encoding, so a declared coding is the compression wrapper's and must be transparent
			res.gzipped = true
			dec, derr := c03Decode(ce[0], gotBody)
			if derr != nil || len(ce) != 1 {
				add("content-coding-undecodable:"+strings.Join(ce, "+"), "response %d declares Content-Encoding %q but its %d body bytes do not decode: %v; body starts %s",
					k+1, ce, len(gotBody), derr, vrt.Q(c03Clip(gotBody)))
				gotBody = nil
			} else {
				gotBody = dec
			}
		}
		if !sendBody && len(w.Body) != 0 {
			add("body-on-bodyless-response", "response %d must not have a body (HEAD/204/304/SkipBody) but carries %d bytes", k+1, len(w.Body))
		} else if !bytes.Equal(gotBody, wantBody) {
			add("body-differs", "response %d: body on the wire %s (%d bytes), handler built %s (%d bytes)", k+1,
				vrt.Q(c03Clip(gotBody)), len(gotBody), vrt.Q(c03Clip(wantBody)), len(wantBody))
		}
		off += w.End
		// persistence as the wire itself declares it
		closing := w.ToClose || w.HasToken("Connection", "close")
		res.close = res.close || closing
		if closing {
			if n, sym := c03Stray(out[off:]); n > 0 && off+n == len(out) {
				add(sym, "response %d is followed by %s", k+1, vrt.Q(out[off:]))
			} else if off != len(out) {
				add("bytes-after-closing-response", "response %d announces close but %d more bytes follow", k+1, len(out)-off)
			}
			if run.calls > k+1 {
				add("request-handled-after-closing-response", "response %d announces close but request %d was handled", k+1, k+2)
			}
			for _, e := range run.conn.Events[run.evMark[k]:] {
				if e.Op == "read" {
					add("read-after-closing-response", "response %d announces close but the server read from the connection again", k+1)
					break
				}
			}
			return
		}
		if k == 0 && run.calls < 2 {
			add("request-not-answered", "response 1 keeps the connection open but request 2 was never handled")
			return
		}
	}
	if n, sym := c03Stray(out[off:]); n > 0 && off+n == len(out) {
		add(sym, "response 2 is followed by %s", vrt.Q(out[off:]))
	} else if off != len(out) {
		add("stray-bytes-after-last-response", "%d bytes follow the last response: %s", len(out)-off, vrt.Q(c03Clip(out[off:])))
	}
}

// c03Stray classifies bytes that sit between the end of one response and the start of the next ("HTTP/1." at the
// beginning of a line) or the end of the output: a lone CRLF, or a complete trailer section (field lines + CRLF).
func c03Stray(rest []byte) (n int, sym string) {
	if len(rest) == 0 || bytes.HasPrefix(rest, []byte("HTTP/1.")) {
		return 0, ""
	}
	stray := rest
	if i := bytes.Index(rest, []byte("\r\nHTTP/1.")); i >= 0 {
		stray = rest[:i+2]
	}
	if string(stray) == "\r\n" {
		return 2, "stray-crlf-after-response"
	}
	if kvs, end, err := c03FieldLines(stray, 0); err == nil && end == len(stray) && len(kvs) > 0 {
		return len(stray), "stray-trailer-section-after-response"
	}
	return 0, ""
}

// c03OracleMismatch: the stream of response k yields a different number of bytes than declared: at most `declared`
// body bytes may be on the wire and the connection must be closed right after.
func c03OracleMismatch(c *c03Case, run *c03Run, k int, m *c03Model, out []byte, off int, add func(string, string, ...any)) {
	rest := out[off:]
	kind := "short"
	if m.yield > m.declared {
		kind = "long"
	}
	if i := bytes.Index(rest, []byte("\r\n\r\n")); i >= 0 {
		bodyBytes := len(rest) - (i + 4)
		if bodyBytes > m.declared {
			add("mismatched-stream-"+kind+"-exceeds-declared-size", "response %d: stream declared %d bytes, yields %d; %d body bytes reached the wire",
				k+1, m.declared, m.yield, bodyBytes)
		}
		if !bytes.HasPrefix(c03Pattern[c.Shift:c.Shift+m.yield], rest[i+4:]) && bodyBytes <= m.yield {
			add("mismatched-stream-body-not-a-prefix", "response %d: body bytes on the wire are not a prefix of what the stream produced", k+1)
		}
	}
	if run.calls > k+1 {
		add("mismatched-stream-"+kind+"-connection-kept", "response %d: stream size mismatch but request %d was still handled", k+1, k+2)
	}
	for _, e := range run.conn.Events[run.evMark[k]:] {
		if e.Op == "read" {
			add("mismatched-stream-"+kind+"-read-after", "response %d: stream size mismatch but the server read from the connection again", k+1)
			break
		}
	}
	if k == 1 && off < run.outMark[1] {
		_ = c // response 1 was complete before; nothing else to check here
	}
}

// ---------------------------------------------------------------------------------------------------------------
// violation classes: the failing case is shrunk (ops removed, environment slots put back to canonical) while the same
// symptom persists; the class is the symptom plus what is left.

func c03Canonical() c03Case {
	return c03Case{M1: "GET", M2: "GET", V1: "1.1", V2: "1.1", Buf: 4096, L: 100, RK: "plain", P2: []string{"body-set"}}
}

func c03Has(res *c03Result, sym string) bool {
	for _, f := range res.finds {
		if f.sym == sym {
			return true
		}
	}
	return false
}

// c03Simpler lists ops that may stand in for an op while shrinking (towards one canonical representative per family).
var c03Simpler = map[string][]string{
	"writer-1": {"stream-chunked"}, "writer-3": {"stream-chunked", "writer-1"},
	"stream-exact": {"stream-chunked"}, "stream-short": {"stream-chunked", "stream-exact"}, "stream-long": {"stream-chunked", "stream-exact", "stream-short"},
	"status-304": {"status-204"}, "status-999": {"status-404"}, "status-200": {"status-404"},
	"skipbody": {"status-204"}, "body-set-long": {"body-set"}, "body-raw-long": {"body-raw"}, "body-append-long": {"body-append"}, "cookie-a2": {"cookie-a"}, "cookie-b": {"cookie-a"},
	"set-xa-2": {"set-xa-1"}, "set-xb": {"set-xa-1"},
}

func c03Shrink(ss *c03Servers, c c03Case, sym string) c03Case {
	canon := c03Canonical()
	try := func(cand c03Case) bool {
		if cand.key() == c.key() {
			return false
		}
		if c03Has(c03Exec(ss, &cand), sym) {
			c = cand
			return true
		}
		return false
	}
	same := func(a, b []string) bool { return strings.Join(a, ",") == strings.Join(b, ",") }
	for changed := true; changed; {
		changed = false
		// the program under test in first position, the plain handler second
		if same(c.P1, c.P2) {
			cand := c
			cand.P2 = canon.P2
			changed = try(cand) || changed
		}
		if !same(c.P2, canon.P2) {
			cand := c
			cand.P1, cand.P2 = c.P2, canon.P2
			cand.M1, cand.M2, cand.V1, cand.V2 = c.M2, c.M1, c.V2, c.V1
			if cand.BufRel != 0 {
				cand.BufRel = 3 - cand.BufRel
			}
			changed = try(cand) || changed
		}
		for _, pp := range []*[]string{&c.P1, &c.P2} {
			if pp == &c.P2 && same(c.P2, canon.P2) {
				continue // the plain second handler stays as it is
			}
			for i := 0; i < len(*pp); i++ {
				saved := *pp
				cut := append(append([]string(nil), saved[:i]...), saved[i+1:]...)
				cand := c
				if pp == &c.P1 {
					cand.P1 = cut
				} else {
					cand.P2 = cut
				}
				if try(cand) {
					changed = true
					i--
				}
			}
		}
		for _, f := range []func(*c03Case){
			func(x *c03Case) { x.M1 = canon.M1 }, func(x *c03Case) { x.M2 = canon.M2 },
			func(x *c03Case) { x.V1 = canon.V1 }, func(x *c03Case) { x.V2 = canon.V2 },
			func(x *c03Case) { x.Buf, x.BufRel = canon.Buf, 0 }, func(x *c03Case) { x.Intr = "" },
			func(x *c03Case) { // one representative per family: the first concurrent user, the buffer boundary one byte behind the header / a one-byte buffer
				if x.Intr != "" {
					x.Intr = c03IntruderNames[0]
				}
			},
			func(x *c03Case) {
				if x.BufRel != 0 || x.Buf < 64 {
					x.Buf = 1
				}
			},
			func(x *c03Case) { x.Gzip, x.AE = false, "" }, func(x *c03Case) { x.AE = "" }, func(x *c03Case) { x.Pipe = false },
			func(x *c03Case) { x.L = canon.L }, func(x *c03Case) { x.RK = canon.RK },
			func(x *c03Case) { // HEAD and a bodyless status are the same family: prefer the op
				if x.M1 == "HEAD" {
					x.M1 = canon.M1
					x.P1 = append(append([]string(nil), x.P1...), "status-204")
				}
			},
		} {
			cand := c
			f(&cand)
			changed = try(cand) || changed
		}
		// family representatives (possibly together with dropping gzip, which turns a sized stream into an unsized one)
		for which := 0; which < 2; which++ {
			prog := c.P1
			if which == 1 {
				prog = c.P2
			}
			for i, name := range prog {
				for _, alt := range c03Simpler[name] {
					for _, dropGzip := range []bool{true, false} {
						if dropGzip && !c.Gzip {
							continue
						}
						cand := c
						np := append([]string(nil), prog...)
						np[i] = alt
						if which == 0 {
							cand.P1 = np
						} else {
							cand.P2 = np
						}
						if dropGzip {
							cand.Gzip, cand.AE = false, ""
						}
						if try(cand) {
							changed = true
							prog = np
						}
					}
				}
			}
		}
	}
	return c
}

// c03Sig names the class: the symptom plus the (sorted, de-duplicated) ops and environment deviations that are left
// after shrinking.
func c03Sig(sym string, c c03Case) string {
	canon := c03Canonical()
	var parts []string
	set := func(prefix string, prog []string) {
		seen := map[string]bool{}
		var u []string
		for _, o := range prog {
			if !seen[o] {
				seen[o] = true
				u = append(u, o)
			}
		}
		sort.Strings(u)
		if len(u) > 0 {
			parts = append(parts, prefix+strings.Join(u, ","))
		}
	}
	set("", c.P1)
	if strings.Join(c.P2, ",") != strings.Join(canon.P2, ",") {
		set("second:", c.P2)
	}
	if c.M1 != canon.M1 {
		parts = append(parts, "m1="+c.M1)
	}
	if c.M2 != canon.M2 {
		parts = append(parts, "m2="+c.M2)
	}
	if c.V1 != canon.V1 {
		parts = append(parts, "v1="+c.V1)
	}
	if c.V2 != canon.V2 {
		parts = append(parts, "v2="+c.V2)
	}
	if c.BufRel != 0 {
		parts = append(parts, fmt.Sprintf("wbuf=header%d%+d", c.BufRel, c.Buf))
	} else if c.Buf != canon.Buf {
		parts = append(parts, fmt.Sprintf("wbuf=%d", c.Buf))
	}
	if c.Intr != "" {
		parts = append(parts, "concurrent="+c.Intr)
	}
	if c.Gzip {
		if c.AE == "" {
			parts = append(parts, "gzip")
		} else {
			parts = append(parts, "accept-encoding="+strings.ReplaceAll(c.AE, " ", ""))
		}
	}
	if c.Pipe {
		parts = append(parts, "pipelined")
	}
	if c.L != canon.L {
		parts = append(parts, fmt.Sprintf("L=%d", c.L))
	}
	if c.RK != canon.RK {
		parts = append(parts, "reader="+c.RK)
	}
	return sym + "[" + strings.Join(parts, ";") + "]"
}

// c03MinFeatures lists what a shrunk case consists of; c03CaseFeatures lists everything a case contains (in either
// handler position). A case that contains all features of an already known shrunk case with the same symptom is put
// into that class without being shrunk again.
func c03MinFeatures(c c03Case) []string {
	canon := c03Canonical()
	var f []string
	for _, o := range c.P1 {
		f = append(f, "op:"+o)
	}
	if strings.Join(c.P2, ",") != strings.Join(canon.P2, ",") {
		for _, o := range c.P2 {
			f = append(f, "op2:"+o)
		}
	}
	if c.M1 != canon.M1 {
		f = append(f, "m:"+c.M1)
	}
	if c.M2 != canon.M2 {
		f = append(f, "m2:"+c.M2)
	}
	if c.V1 != canon.V1 {
		f = append(f, "v:"+c.V1)
	}
	if c.V2 != canon.V2 {
		f = append(f, "v2:"+c.V2)
	}
	if c.Buf != canon.Buf || c.BufRel != 0 {
		f = append(f, "wbuf")
	}
	if c.Intr != "" {
		f = append(f, "intr")
	}
	if c.Gzip {
		f = append(f, "gzip")
		if c.AE != "" {
			f = append(f, "ae:"+c.AE)
		}
	}
	if c.Pipe {
		f = append(f, "pipe")
	}
	if c.L != canon.L {
		f = append(f, fmt.Sprintf("L:%d", c.L))
	}
	if c.RK != canon.RK {
		f = append(f, "rk:"+c.RK)
	}
	return f
}

// c03Src says where in a case a feature comes from.
type c03Src struct {
	where int // 1: P1[idx], 2: P2[idx], 3: environment slot env
	idx   int
	env   string
}

// c03Family: the op itself plus everything c03Shrink may replace it with (transitively).
func c03Family(op string) []string {
	out := []string{op}
	for i := 0; i < len(out); i++ {
		for _, alt := range c03Simpler[out[i]] {
			dup := false
			for _, o := range out {
				dup = dup || o == alt
			}
			if !dup {
				out = append(out, alt)
			}
		}
	}
	return out
}

func c03CaseFeatures(c c03Case) map[string][]c03Src {
	f := map[string][]c03Src{}
	add := func(k string, s c03Src) { f[k] = append(f[k], s) }
	for i, o := range c.P1 {
		for _, x := range c03Family(o) {
			add("op:"+x, c03Src{1, i, ""})
		}
	}
	for i, o := range c.P2 {
		for _, x := range c03Family(o) {
			add("op:"+x, c03Src{2, i, ""})
			add("op2:"+x, c03Src{2, i, ""})
		}
	}
	add("m:"+c.M1, c03Src{3, 0, "M1"})
	add("m:"+c.M2, c03Src{3, 0, "M2"})
	add("m2:"+c.M2, c03Src{3, 0, "M2"})
	if c.M1 == "HEAD" { // shrinking turns HEAD into the bodyless status
		add("op:status-204", c03Src{3, 0, "M1"})
	}
	if c.M2 == "HEAD" {
		add("op:status-204", c03Src{3, 0, "M2"})
		add("op2:status-204", c03Src{3, 0, "M2"})
	}
	add("v:"+c.V1, c03Src{3, 0, "V1"})
	add("v:"+c.V2, c03Src{3, 0, "V2"})
	add("v2:"+c.V2, c03Src{3, 0, "V2"})
	if c.Buf != 4096 || c.BufRel != 0 {
		add("wbuf", c03Src{3, 0, "Buf"})
	}
	if c.Intr != "" {
		add("intr", c03Src{3, 0, "Intr"})
	}
	if c.Gzip {
		add("gzip", c03Src{3, 0, "Gzip"})
		if c.AE != "" {
			add("ae:"+c.AE, c03Src{3, 0, "Gzip"})
		}
	}
	if c.Pipe {
		add("pipe", c03Src{3, 0, "Pipe"})
	}
	add(fmt.Sprintf("L:%d", c.L), c03Src{3, 0, "L"})
	add("rk:"+c.RK, c03Src{3, 0, "RK"})
	return f
}

// c03Without removes from c everything the given features come from.
func c03Without(c c03Case, cf map[string][]c03Src, feats []string) c03Case {
	canon := c03Canonical()
	del1, del2 := map[int]bool{}, map[int]bool{}
	out := c
	for _, ft := range feats {
		for _, s := range cf[ft] {
			switch s.where {
			case 1:
				del1[s.idx] = true
			case 2:
				del2[s.idx] = true
			case 3:
				switch s.env {
				case "M1":
					out.M1 = canon.M1
				case "M2":
					out.M2 = canon.M2
				case "V1":
					out.V1 = canon.V1
				case "V2":
					out.V2 = canon.V2
				case "Buf":
					out.Buf, out.BufRel = canon.Buf, 0
				case "Intr":
					out.Intr = ""
				case "Gzip":
					out.Gzip, out.AE = false, ""
				case "Pipe":
					out.Pipe = false
				case "L":
					out.L = canon.L
				case "RK":
					out.RK = canon.RK
				case "P2":
					out.P2 = canon.P2
				}
			}
		}
	}
	out.P1, out.P2 = nil, nil
	for i, o := range c.P1 {
		if !del1[i] {
			out.P1 = append(out.P1, o)
		}
	}
	for i, o := range c.P2 {
		if !del2[i] {
			out.P2 = append(out.P2, o)
		}
	}
	return out
}

type c03Known struct {
	feats []string
	sig   string
}

const c03MaxShrinks = 4000

type c03Reporter struct {
	r       *vrt.R
	mu      sync.Mutex
	terr    string                // first machinery failure (reported from the test goroutine after the enumeration)
	known   map[string][]c03Known // symptom -> shrunk classes seen so far
	shrinks int
}

func (rp *c03Reporter) toolErr() string { rp.mu.Lock(); defer rp.mu.Unlock(); return rp.terr }

// lookup finds a known class of the same symptom whose features the case contains and which explains the failure:
// with those features taken out the symptom is gone.
func (rp *c03Reporter) lookup(ss *c03Servers, sym string, c c03Case) string {
	rp.mu.Lock()
	ks := append([]c03Known(nil), rp.known[sym]...)
	rp.mu.Unlock()
	if len(ks) == 0 {
		return ""
	}
	cf := c03CaseFeatures(c)
next:
	for _, k := range ks {
		if len(k.feats) == 0 {
			return k.sig // the canonical case itself fails
		}
		for _, f := range k.feats {
			if len(cf[f]) == 0 {
				continue next
			}
		}
		cand := c03Without(c, cf, k.feats)
		if cand.key() != c.key() && !c03Has(c03Exec(ss, &cand), sym) {
			return k.sig
		}
	}
	return ""
}

func (rp *c03Reporter) report(ss *c03Servers, c c03Case, res *c03Result) {
	if res.toolErr != "" {
		rp.mu.Lock()
		if rp.terr == "" {
			rp.terr = fmt.Sprintf("%s (case %s)", res.toolErr, c.key())
		}
		rp.mu.Unlock()
		return
	}
	seen := map[string]bool{}
	for _, f := range res.finds {
		if seen[f.sym] {
			continue
		}
		seen[f.sym] = true
		if sig := rp.lookup(ss, f.sym, c); sig != "" {
			rp.r.Violation(sig, f.what, c)
			continue
		}
		rp.mu.Lock()
		rp.shrinks++
		over := rp.shrinks > c03MaxShrinks
		rp.mu.Unlock()
		if over {
			// only reached when almost everything fails (a mutant): the symptom alone is the class
			rp.r.Violation(f.sym+"[not-shrunk:more-than-4000-distinct-failing-shapes]", f.what, c)
			continue
		}
		min := c03Shrink(ss, c, f.sym)
		sig := c03Sig(f.sym, min)
		what := f.what
		for _, g := range c03Exec(ss, &min).finds {
			if g.sym == f.sym {
				what = g.what
			}
		}
		rp.mu.Lock()
		if rp.known == nil {
			rp.known = map[string][]c03Known{}
		}
		dup := false
		for _, k := range rp.known[f.sym] {
			dup = dup || k.sig == sig
		}
		if !dup {
			rp.known[f.sym] = append(rp.known[f.sym], c03Known{c03MinFeatures(min), sig})
		}
		rp.mu.Unlock()
		rp.r.Violation(sig, what, min)
	}
}

// ---------------------------------------------------------------------------------------------------------------

func TestVerif_C03(t *testing.T) {
	r := vrt.Begin(t, "C03", "exploration")
	defer r.End()
	rp := &c03Reporter{r: r}
	if raw := r.Replay(); raw != nil {
		var c c03Case
		if err := json.Unmarshal(raw, &c); err != nil {
			r.ToolError("bad replay artefact: %v", err)
		}
		for _, n := range append(append([]string(nil), c.P1...), c.P2...) {
			if _, ok := c03OpIdx[n]; !ok {
				r.ToolError("unknown op %q in artefact", n)
			}
		}
		ss := &c03Servers{}
		res := c03Exec(ss, &c)
		r.Eval(1)
		if res.toolErr != "" {
			r.ToolError("%s", res.toolErr)
		}
		for _, f := range res.finds {
			r.Violation(c03Sig(f.sym, c), f.what, c)
		}
		return
	}
	maxOps := vrt.Pick(r, 3, 4)
	envDev := 2 // for programs shorter than maxOps; the longest programs get 1 deviation
	// part 2 (re-entrant cases): programs of fewer than maxOps2 calls with at most one request/connection slot off
	// canonical, programs of maxOps2 calls with canonical slots
	maxOps2 := maxOps - 1
	r.Set("reentrant_max_ops", maxOps2)
	type bufSpec struct {
		rel bool
		v   int
	}
	bufSpecs := []bufSpec{{false, 1}, {false, 2}, {false, 3}, {false, 5}, {false, 64},
		{true, 0}, {true, 1}, {true, 2}, {true, 3}, {true, 4}, {true, 5}}
	baseSpecs := len(bufSpecs)
	if r.Thorough() { // the additional sizes: for programs of fewer than maxOps2 calls
		bufSpecs = append(bufSpecs, bufSpec{false, 4}, bufSpec{false, 7}, bufSpec{true, 6}, bufSpec{true, 7})
	}
	bufNames := make([]string, len(bufSpecs))
	for i, b := range bufSpecs {
		if bufNames[i] = fmt.Sprint(b.v); b.rel {
			bufNames[i] = fmt.Sprintf("header+%d", b.v)
		}
	}
	names := make([]string, len(c03Ops))
	for i, o := range c03Ops {
		names[i] = o.name
	}
	r.Rule(fmt.Sprintf("every handler program of at most %d calls over %d response-building ops %v, run through Server.ServeConn on a scripted connection with two requests; "+
		"environment slots {program answers request 1 / request 2 / both; method1, method2 in GET,HEAD,POST; version1, version2 in 1.1, 1.0+keep-alive, 1.0; "+
		"WriteBufferSize 4096/64; CompressHandlerBrotliLevel off / on with Accept-Encoding gzip, deflate, br, zstd, 'deflate, gzip;q=0'; delivery one Read per request/pipelined; stream yield L in 100/5/5000; reader flavour io.Reader/*bytes.Reader} "+
		"enumerated with at most %d slots off their canonical value (1 slot, and only gzip/deflate as content coding, for programs of maximal length); oracle: own RFC 9112 splitter cross-checked with net/http.ReadResponse on every response, compared with a reference model of the program "+
		"(status, handler-set fields as multisets, body, boundaries, mismatch clause); non-trivial: the (program, environment) produced a response whose framing class "+
		"(bodyless / chunked / gzip / closing / stream mismatch) is not the canonical fixed-length keep-alive one. "+
		"PART 2 (re-entrant cases: the connection is not alone on the Server): every program of at most %d calls, as answer to request 1 / request 2 / both, x WriteBufferSize in "+
		"%v bytes (header+d: the length of the header block of the response under test plus d, i.e. the write buffer runs full - and is flushed - at every byte position of the first chunk-size line / first body bytes) "+
		"x concurrent pool user in %v (a complete connection of its own on the same Server: chunked streams of 0xabc / 0x543 bytes via io.Reader / *bytes.Reader, trailer, cookie; "+
		"gzip-compressed 404 with cookie), which is served from start to end INSIDE EVERY Write call the server makes on the connection under test (before the written bytes are taken over: a slow peer), "+
		"so every object the response writer has returned to a pool too early, or shares, is taken and overwritten by somebody else at every point where the writer calls out; "+
		"programs shorter than %d calls additionally with one of {method1, method2, version1, version2, gzip, pipelined, L, reader flavour} off canonical (programs of that length: the first %d buffer sizes only); "+
		"oracle: the same reference comparison for the connection under test, and the concurrent connection's responses must be what they are when it is served alone "+
		"(byte comparison with Date masked, full oracle on any difference)", maxOps, len(c03Ops), names, envDev, maxOps2, bufNames, c03IntruderNames, maxOps2, baseSpecs))
	r.Assume("net/http.ReadResponse and the harness's own RFC 9112 splitter as independent HTTP/1.1 parsers (they must agree on every response)",
		"Response.SkipBody is read as documented ('use it for writing HEAD responses'): a response built with it is parsed like a response to HEAD",
		"automatic fields (Date, Server, Content-Type default, Content-Length, Transfer-Encoding, Connection, Content-Encoding, Vary, Trailer) are outside the header comparison; trailer fields are compared only on chunked responses",
		"under CompressHandler a body stream is re-framed as unknown-size by design, so the declared-size mismatch clause is not evaluated there",
		"a Content-Length set by hand after SetBodyStream is that stream's declared size (last declaration counts)")
	r.Set("max_ops", maxOps)
	r.Set("env_max_deviations", envDev)

	// programs
	var progs [][]int
	seqx.Sequences(len(c03Ops), maxOps, func(s []int) bool {
		progs = append(progs, append([]int(nil), s...))
		return true
	})
	// environments
	place := []string{"first", "second", "both"}
	meth := []string{"GET", "HEAD", "POST"}
	vers := []string{"1.1", "1.0ka", "1.0"}
	bufs := []int{4096, 64}
	Ls := []int{100, 5, 5000}
	rks := []string{"plain", "bytes"}
	aes := []string{"", "", "deflate", "br", "zstd", "deflate, gzip;q=0"} // index 0: no compression wrapper; 1: gzip
	type env struct {
		idx []int
		dev int
	}
	var envs []env
	seqx.Product([]int{3, 3, 3, 3, 3, 2, 6, 2, 3, 2}, envDev, func(idx []int) bool {
		d := 0
		for _, v := range idx {
			if v != 0 {
				d++
			}
		}
		envs = append(envs, env{append([]int(nil), idx...), d})
		return true
	})
	r.Set("programs", len(progs))
	r.Set("environments", len(envs))
	var stop bool
	var smu sync.Mutex
	stopped := func() bool {
		smu.Lock()
		defer smu.Unlock()
		return stop
	}
	expire := func(part string, bi, nblocks int) {
		smu.Lock()
		if !stop {
			stop = true
			r.NotExhaustive(fmt.Sprintf("time budget reached at %s program block %d of %d", part, bi, nblocks))
		}
		smu.Unlock()
	}
	// counters of one block of programs
	type counters struct {
		n                                                                int
		mismatch, chunked, nobody, gzip, closing, two, reent, intr, strd int64
	}
	runCase := func(ss *c03Servers, c c03Case, k *counters, sample bool) {
		res := c03Exec(ss, &c)
		k.n++
		if len(res.finds) > 0 || res.toolErr != "" {
			rp.report(ss, c, res)
		}
		nt := false
		if res.mismatch {
			k.mismatch++
			nt = true
		}
		if res.chunked {
			k.chunked++
			nt = true
		}
		if res.nobody {
			k.nobody++
			nt = true
		}
		if res.gzipped {
			k.gzip++
			nt = true
		}
		if res.close {
			k.closing++
			nt = true
		}
		if res.nresp == 2 {
			k.two++
		}
		if res.intrusions > 0 {
			k.reent++
			k.intr += int64(res.intrusions)
		}
		if res.straddle {
			k.strd++
		}
		if nt {
			r.NontrivialHash(c.hash())
		}
		if sample && r.WantSample() {
			r.Sample(map[string]any{"case": c, "responses_parsed": res.nresp, "stream_mismatch": res.mismatch, "findings": len(res.finds),
				"concurrent_connections_served_inside_call_outs": res.intrusions, "flush_inside_chunk_size_line": res.straddle})
		}
	}
	flush := func(k *counters) {
		r.Eval(k.n)
		r.Add("cases_with_stream_size_mismatch", k.mismatch)
		r.Add("cases_with_chunked_response", k.chunked)
		r.Add("cases_with_bodyless_response", k.nobody)
		r.Add("cases_with_gzip_response", k.gzip)
		r.Add("cases_with_closing_response", k.closing)
		r.Add("cases_with_two_parsed_responses", k.two)
		r.Add("reentrant_cases", k.reent)
		r.Add("reentrant_concurrent_connections_served", k.intr)
		r.Add("reentrant_cases_flush_inside_chunk_size_line", k.strd)
	}
	progNames := func(p []int) (prog []string, hasStream bool) {
		prog = make([]string, len(p))
		for i, o := range p {
			prog[i] = c03Ops[o].name
			hasStream = hasStream || c03IsStreamOp(prog[i])
		}
		return prog, hasStream
	}
	placeProg := func(c *c03Case, where string, prog []string) {
		switch where {
		case "first":
			c.P1 = prog
		case "second":
			c.P1, c.P2 = []string{"body-set"}, prog
		case "both":
			c.P1, c.P2 = prog, prog
		}
	}
	const block = 32

	// ---- part 1: the connection alone
	t0 := time.Now() // reporting only
	nblocks := (len(progs) + block - 1) / block
	r.Par(nblocks, func(bi int) {
		if stopped() || rp.toolErr() != "" {
			return
		}
		ss := &c03Servers{}
		var k counters
		for pi := bi * block; pi < (bi+1)*block && pi < len(progs); pi++ {
			prog, hasStream := progNames(progs[pi])
			for _, e := range envs {
				x := e.idx
				if len(prog) == maxOps && (e.dev > 1 || x[6] > 2) {
					continue // the longest programs: one deviation, content codings gzip and deflate only
				}
				if !hasStream && (x[8] != 0 || x[9] != 0) {
					continue // stream length / reader flavour are irrelevant without a stream op: same case as canonical
				}
				c := c03Canonical()
				placeProg(&c, place[x[0]], prog)
				c.M1, c.V1, c.M2, c.V2 = meth[x[1]], vers[x[2]], meth[x[3]], vers[x[4]]
				c.Buf, c.Gzip, c.Pipe, c.L, c.RK = bufs[x[5]], x[6] != 0, x[7] == 1, Ls[x[8]], rks[x[9]]
				c.AE = aes[x[6]]
				runCase(ss, c, &k, pi%977 == 0 && x[0] == 0 && x[5] == 1)
			}
			if r.Expired() {
				expire("part 1", bi, nblocks)
				break
			}
		}
		flush(&k)
	})

	r.Set("part1_wall_s", int(time.Since(t0).Seconds()))

	// ---- part 2: somebody else is served inside every call-out, write buffer boundary at every position around the
	// end of the header block / tiny write buffers
	var progs2 [][]int
	for _, p := range progs {
		if len(p) <= maxOps2 {
			progs2 = append(progs2, p)
		}
	}
	var envs2 []env
	seqx.Product([]int{3, 3, 3, 3, 2, 2, 3, 2}, 1, func(idx []int) bool { // M1 V1 M2 V2 gzip pipe L RK
		d := 0
		for _, v := range idx {
			if v != 0 {
				d++
			}
		}
		envs2 = append(envs2, env{append([]int(nil), idx...), d})
		return true
	})
	r.Set("reentrant_programs", len(progs2))
	r.Set("reentrant_environments", len(envs2)*len(place)*len(bufSpecs)*len(c03IntruderNames))
	const block2 = 4 // short programs come first and carry many more cases each: small units keep the workers balanced
	nblocks2 := (len(progs2) + block2 - 1) / block2
	r.Par(nblocks2, func(bi int) {
		if stopped() || rp.toolErr() != "" {
			return
		}
		ss := &c03Servers{}
		var k counters
		for pi := bi * block2; pi < (bi+1)*block2 && pi < len(progs2); pi++ {
			prog, hasStream := progNames(progs2[pi])
			for _, e := range envs2 {
				x := e.idx
				if len(prog) == maxOps2 && e.dev > 0 {
					continue // the longest programs: canonical requests
				}
				if !hasStream && (x[6] != 0 || x[7] != 0) {
					continue
				}
				for wi, where := range place {
					for si, bs := range bufSpecs {
						if len(prog) == maxOps2 && si >= baseSpecs {
							continue
						}
						for ii, in := range c03IntruderNames {
							c := c03Canonical()
							placeProg(&c, where, prog)
							c.M1, c.V1, c.M2, c.V2 = meth[x[0]], vers[x[1]], meth[x[2]], vers[x[3]]
							c.Gzip, c.Pipe, c.L, c.RK = x[4] != 0, x[5] == 1, Ls[x[6]], rks[x[7]]
							c.Buf, c.Intr = bs.v, in
							if bs.rel {
								c.BufRel = 1
								if where == "second" {
									c.BufRel = 2
								}
							}
							runCase(ss, c, &k, pi%211 == 0 && e.dev == 0 && wi == 0 && ii == 0 && (si == 0 || bs.rel && bs.v == 1))
						}
					}
				}
			}
			if r.Expired() {
				expire("part 2", bi, nblocks2)
				break
			}
		}
		flush(&k)
	})
	r.Set("failing_cases_shrunk", rp.shrinks)
	if rp.shrinks > c03MaxShrinks {
		r.NotExhaustive("more than 4000 distinct failing shapes: later ones are classed by symptom only")
	}
	if e := rp.toolErr(); e != "" {
		r.ToolError("%s", e)
	}
}
