//go:build verif && verif_mc

package fasthttp

import (
	"bytes"
	"fmt"
	"net"
	"os"
	"sort"
	"strconv"
	"strings"
	"testing"
	"time"

	"github.com/valyala/fasthttp/fasthttputil"
	"github.com/valyala/fasthttp/internal/verif/mcrt"
	msync "github.com/valyala/fasthttp/internal/verif/mcsync"
	mtime "github.com/valyala/fasthttp/internal/verif/mctime"
	"github.com/valyala/fasthttp/internal/verif/mcx"
	"github.com/valyala/fasthttp/internal/verif/vrt"
)

// C17: hijacked connections are handed over intact. The real Server.ServeConn (rewritten by mcgen) serves one end of
// a fasthttputil.PipeConns; a client thread writes a hijacking request with arbitrary bytes right behind it (some in
// the same write as the request, the rest in up to three later writes). The server-side conn is wrapped so that every
// Read/Write/Close is logged with the calling thread. All schedules up to the preemption bound are executed for
// every data case (mcrt.Pick = free data choice).

type c17op struct {
	kind    byte // 'R' read, 'W' write, 'C' close
	tid     int
	n       int
	harness bool // issued by harness code that legitimately owns the conn (hijack handler body, keeper)
}

func c17min(a, b int) int {
	if a < b {
		return a
	}
	return b
}

type c17cfg struct {
	rmu, noResp, keep bool
	variant           int // 0 GET, 1 POST with body, 2 ordinary request pipelined in front, 3 read buffer just above the request size
	// what an earlier, non-hijacking request on the same connection did: 0 no earlier request, 1 nothing special,
	// 2 ctx.HijackSetNoResponse(true) without Hijack, 3 ctx.HijackSetNoResponse(false)
	prior int
	// the earlier request travels in its own write and is answered before the hijacking request is sent (otherwise
	// both are pipelined in one write)
	priorSep bool
	// Server.HeaderReceived installs per-request deadlines (RequestConfig{ReadTimeout, WriteTimeout} = c17hdrT) for the
	// hijacking request while the server-wide timeouts stay 0
	hdrTO bool
}

type c17obs struct {
	cfg       c17cfg
	req       []byte // everything up to and including the hijacking request
	priorReq  []byte // the earlier ordinary request on the same connection, if any
	post      []byte // bytes sent after it
	split     int    // post[:split] travels in the same write as the request
	late      bool   // the writes after the first are held back until the hijack handler runs
	afterT    bool   // ... and then for another 2*c17hdrT of virtual time (past any per-request deadline)
	writes    [][]byte
	nResp     int
	ops       []c17op
	srvOut    []byte
	srvRead   int // bytes the serving thread took from the conn
	serverTid int
	hijackTid int
	keeperTid int
	hjActive  bool // the hijack handler body is executing (on hijackTid)
	kpActive  bool // the keeper is using the kept conn (on keeperTid)

	handoffIdx    int
	outAtHandoff  []byte
	bufferedAtHO  int
	hjWant        int
	hjRead        []byte
	hjErr         string
	hjReturned    bool
	hjReturnIdx   int
	kept          net.Conn
	lateRead      []byte
	lateErr       string
	keeperDone    bool
	serveReturned bool
	serveErr      error
	clientGot     []byte
	clientErr     string
	clientDone    bool
	handlerCalls  int
	finished      int
	stuck         bool // the watchdog found that no thread can make progress (see the end of c17body)
}

type c17conn struct {
	net.Conn
	o *c17obs
}

func (c *c17conn) rec(kind byte) int {
	t := mcrt.CurrentID()
	owner := (c.o.hjActive && t == c.o.hijackTid) || (c.o.kpActive && t == c.o.keeperTid)
	c.o.ops = append(c.o.ops, c17op{kind: kind, tid: t, harness: owner})
	return len(c.o.ops) - 1
}

func (c *c17conn) Read(p []byte) (int, error) {
	i := c.rec('R')
	tid := c.o.ops[i].tid
	n, err := c.Conn.Read(p)
	c.o.ops[i].n = n
	if tid == c.o.serverTid {
		c.o.srvRead += n
	}
	return n, err
}

func (c *c17conn) Write(p []byte) (int, error) {
	i := c.rec('W')
	c.o.ops[i].n = len(p)
	c.o.srvOut = append(c.o.srvOut, p...)
	return c.Conn.Write(p)
}

func (c *c17conn) Close() error {
	c.rec('C')
	return c.Conn.Close()
}

type c17nopLogger struct{}

func (c17nopLogger) Printf(string, ...any) {}

var c17palette = [][]byte{
	[]byte("GET /smuggled HTTP/1.1\r\nHost: b\r\n\r\n"), // looks like the next request
	{0x00, 0xff, '\r', '\n', '\r', '\n'},
	[]byte("z"),
}

// chunk lists: 0..3 chunks
var c17lists = [][]int{{}, {0}, {2}, {0, 1}, {1, 2}, {0, 1, 2}, {2, 1, 0}}

const c17hdrT = 5 * time.Second

const c17hijackGET = "GET /hijack HTTP/1.1\r\nHost: a\r\n\r\n"
const c17hijackPOST = "POST /hijack HTTP/1.1\r\nHost: a\r\nContent-Length: 3\r\n\r\nabc"
const c17plainGET = "GET /plain HTTP/1.1\r\nHost: a\r\n\r\n"

func c17body(cfg c17cfg, lists [][]int) func() {
	return func() {
		o := &c17obs{cfg: cfg, handoffIdx: -1, hjReturnIdx: -1, serverTid: -1, hijackTid: -1, keeperTid: -1}
		mcrt.SetUserData(o)
		// ---- data case
		li := mcrt.Pick(len(lists), "chunk-list")
		var chunks [][]byte
		for _, k := range lists[li] {
			chunks = append(chunks, c17palette[k])
		}
		o.post = bytes.Join(chunks, nil)
		var splits []int
		addSplit := func(v int) {
			if v < 0 || v > len(o.post) {
				return
			}
			for _, s := range splits {
				if s == v {
					return
				}
			}
			splits = append(splits, v)
		}
		addSplit(0)
		if len(chunks) > 0 {
			addSplit(1)
			addSplit(len(chunks[0]) / 2)
			addSplit(len(chunks[0]))
			addSplit(len(chunks[0]) + 1)
			addSplit(len(o.post))
		}
		o.split = splits[mcrt.Pick(len(splits), "split")]
		// timing of the writes that follow the first one: 0 = back to back (the scheduler decides how much the server
		// finds on the wire), 1 = only after the hijack handler has started (exactly `split` bytes can be buffered)
		if o.split < len(o.post) {
			k := 2
			if cfg.hdrTO {
				k = 3 // 2 = after the hijack handler has started AND the per-request deadline has passed
			}
			t := mcrt.Pick(k, "rest-timing")
			o.late, o.afterT = t >= 1, t == 2
		}
		switch cfg.variant {
		case 1:
			o.req = []byte(c17hijackPOST)
			o.nResp = 1
		default:
			o.req = []byte(c17hijackGET)
			o.nResp = 1
		}
		if cfg.prior > 0 {
			o.priorReq = []byte(fmt.Sprintf("GET %s HTTP/1.1\r\nHost: a\r\n\r\n", []string{"", "/plain", "/plain-noresponse-true", "/plain-noresponse-false"}[cfg.prior]))
			o.nResp++
		}
		if cfg.noResp {
			o.nResp--
		}
		// client writes: request+post[:split], then the remaining bytes cut at the original chunk boundaries
		o.writes = [][]byte{append(append([]byte{}, o.req...), o.post[:o.split]...)}
		if !cfg.priorSep {
			o.writes[0] = append(append([]byte{}, o.priorReq...), o.writes[0]...)
		}
		o.req = append(append([]byte{}, o.priorReq...), o.req...)
		off := 0
		for _, ch := range chunks {
			lo, hi := off, off+len(ch)
			off = hi
			if hi <= o.split {
				continue
			}
			if lo < o.split {
				lo = o.split
			}
			o.writes = append(o.writes, o.post[lo:hi])
		}
		o.hjWant = len(o.post)
		if cfg.keep {
			o.hjWant = (len(o.post) + 1) / 2 // the rest is read through the kept conn after the handler returned
		}

		s := &Server{
			ReduceMemoryUsage:     cfg.rmu,
			KeepHijackedConns:     cfg.keep,
			NoDefaultDate:         true,
			NoDefaultServerHeader: true,
			NoDefaultContentType:  true,
			Logger:                c17nopLogger{},
		}
		if cfg.hdrTO {
			s.HeaderReceived = func(h *RequestHeader) RequestConfig {
				if string(h.RequestURI()) == "/hijack" {
					return RequestConfig{ReadTimeout: c17hdrT, WriteTimeout: c17hdrT}
				}
				return RequestConfig{}
			}
		}
		if cfg.variant == 3 {
			s.ReadBufferSize = len(c17hijackGET) + 3
		}
		hj := func(c net.Conn) {
			o.hijackTid = mcrt.CurrentID()
			o.handoffIdx = len(o.ops)
			o.outAtHandoff = append([]byte{}, o.srvOut...)
			o.bufferedAtHO = o.srvRead - len(o.req)
			switch {
			case o.bufferedAtHO > 0:
				mcrt.Covered("hijacked-with-buffered-bytes")
			case len(o.post) > 0:
				mcrt.Covered("hijacked-all-bytes-still-on-the-wire")
			default:
				mcrt.Covered("hijacked-nothing-follows")
			}
			o.hjActive = true
			buf := make([]byte, 5)
			for len(o.hjRead) < o.hjWant {
				n, err := c.Read(buf[:c17min(len(buf), o.hjWant-len(o.hjRead))])
				o.hjRead = append(o.hjRead, buf[:n]...)
				if err != nil {
					o.hjErr = err.Error()
					break
				}
			}
			c.Write(append([]byte("HJ:"), o.hjRead...))
			o.hjActive = false
			if cfg.keep {
				o.kept = c
			}
			o.hjReturnIdx = len(o.ops)
			o.hjReturned = true
		}
		s.Handler = func(ctx *RequestCtx) {
			o.handlerCalls++
			if pth := string(ctx.Path()); strings.HasPrefix(pth, "/plain") {
				switch pth {
				case "/plain-noresponse-true":
					mcrt.Covered("earlier-request-set-noresponse-without-hijack")
					ctx.HijackSetNoResponse(true)
				case "/plain-noresponse-false":
					ctx.HijackSetNoResponse(false)
				}
				ctx.SetBodyString("plain")
				return
			}
			ctx.SetBodyString("hijacking")
			ctx.Hijack(hj)
			if cfg.noResp {
				ctx.HijackSetNoResponse(true)
			}
		}

		pc := fasthttputil.NewPipeConns()
		sc := &c17conn{Conn: pc.Conn1(), o: o}
		cc := pc.Conn2()
		var wg msync.WaitGroup
		wg.Add(2)
		mcrt.GoNamed("server", func() {
			defer func() { o.finished++ }()
			defer wg.Done()
			o.serverTid = mcrt.CurrentID()
			o.serveErr = s.ServeConn(sc)
			o.serveReturned = true
		})
		mcrt.GoNamed("client", func() {
			defer func() { o.finished++ }()
			defer wg.Done()
			if cfg.priorSep {
				// the earlier request is sent alone and answered before the hijacking request leaves
				if _, err := cc.Write(o.priorReq); err != nil {
					o.clientErr = "write: " + err.Error()
				}
				buf := make([]byte, 64)
				for o.clientErr == "" {
					if _, _, _, ok := c17splitResponses(o.clientGot, 1); ok {
						break
					}
					n, err := cc.Read(buf)
					o.clientGot = append(o.clientGot, buf[:n]...)
					if err != nil {
						o.clientErr = err.Error()
					}
				}
			}
			for i, w := range o.writes {
				if o.clientErr != "" {
					break
				}
				if i == 1 && o.late {
					mcrt.WaitUntil("hijack-handler-started", func() bool { return o.handoffIdx >= 0 })
					if o.afterT {
						mcrt.Covered("bytes-sent-after-per-request-deadline")
						mtime.Sleep(2 * c17hdrT) // PipeConns deadlines run on the same virtual clock
					}
				}
				if _, err := cc.Write(w); err != nil {
					o.clientErr = "write: " + err.Error()
					break
				}
			}
			buf := make([]byte, 64)
			for {
				n, err := cc.Read(buf)
				o.clientGot = append(o.clientGot, buf[:n]...)
				if err != nil {
					if o.clientErr == "" {
						o.clientErr = err.Error()
					}
					break
				}
			}
			o.clientDone = true
		})
		if cfg.keep {
			wg.Add(1)
			mcrt.GoNamed("keeper", func() {
				defer func() { o.finished++ }()
				defer wg.Done()
				mcrt.WaitUntil("hijack-handler-returned", func() bool { return o.hjReturned })
				// virtual time only advances when every thread is blocked: after this sleep the server side has
				// finished whatever it does after the handler returned
				mtime.Sleep(time.Second)
				o.keeperTid = mcrt.CurrentID()
				o.kpActive = true
				func() {
					defer func() {
						if e := recover(); e != nil {
							o.lateErr = fmt.Sprint("panic: ", e)
						}
					}()
					buf := make([]byte, 7)
					for len(o.lateRead) < len(o.post)-o.hjWant {
						n, err := o.kept.Read(buf[:c17min(len(buf), len(o.post)-o.hjWant-len(o.lateRead))])
						o.lateRead = append(o.lateRead, buf[:n]...)
						if err != nil {
							o.lateErr = err.Error()
							break
						}
					}
					o.kept.Write(append([]byte("LATE:"), o.lateRead...))
				}()
				o.keeperDone = true
				o.kept.Close()
				pc.Close() // whatever Close above did, let the client see EOF
			})
		}
		// A thread blocked for good is a deadlock. The scheduler's own deadlock report is avoided on purpose (at the time
		// of writing it hangs when the last runnable thread is one that is just exiting): the main thread waits on the
		// virtual clock, which only advances when every other thread is blocked or finished.
		want := 2
		if cfg.keep {
			want = 3
		}
		mtime.Sleep(time.Hour)
		o.stuck = o.finished != want
	}
}

// c17splitResponses parses n complete responses (status line, header block, Content-Length body) off the front of b.
func c17splitResponses(b []byte, n int) (statuses []int, bodies []string, rest []byte, ok bool) {
	rest = b
	for i := 0; i < n; i++ {
		he := bytes.Index(rest, []byte("\r\n\r\n"))
		if he < 0 || !bytes.HasPrefix(rest, []byte("HTTP/1.1 ")) || he < 12 {
			return statuses, bodies, rest, false
		}
		st, err := strconv.Atoi(string(rest[9:12]))
		if err != nil {
			return statuses, bodies, rest, false
		}
		cl := -1
		for _, ln := range bytes.Split(rest[:he], []byte("\r\n"))[1:] {
			if k := bytes.IndexByte(ln, ':'); k > 0 && bytes.EqualFold(bytes.TrimSpace(ln[:k]), []byte("Content-Length")) {
				cl, err = strconv.Atoi(string(bytes.TrimSpace(ln[k+1:])))
				if err != nil {
					return statuses, bodies, rest, false
				}
			}
		}
		if cl < 0 || len(rest) < he+4+cl {
			return statuses, bodies, rest, false
		}
		statuses = append(statuses, st)
		bodies = append(bodies, string(rest[he+4:he+4+cl]))
		rest = rest[he+4+cl:]
	}
	return statuses, bodies, rest, true
}

func c17priorName(c c17cfg) string {
	n := []string{"none", "plain", "HijackSetNoResponse(true)-without-Hijack", "HijackSetNoResponse(false)"}[c.prior]
	if c.prior > 0 {
		if c.priorSep {
			n += "/answered-first"
		} else {
			n += "/pipelined"
		}
	}
	return n
}

func c17check(x *mcrt.Exec) (string, string, string) {
	o, _ := x.UserData.(*c17obs)
	if o == nil {
		return "", "", ""
	}
	if x.Out.Panic != "" || x.Out.Horizon || x.Out.Fatal != "" || x.Out.Invariant != "" {
		return "", "", ""
	}
	q := vrt.Q
	dead := x.Out.Deadlock || o.stuck
	bucket := "none"
	switch {
	case len(o.post) > 0 && o.bufferedAtHO >= len(o.post):
		bucket = "all"
	case o.bufferedAtHO > 0:
		bucket = "part"
	}
	cls := fmt.Sprintf("post=%d buffered-at-handoff=%s", len(o.post), bucket)
	desc := fmt.Sprintf("rmu=%v noResponse=%v keep=%v variant=%d earlier-request=%s post=%s split=%d rest-held-back=%v rest-after-deadline=%v header-received-timeouts=%v", o.cfg.rmu, o.cfg.noResp, o.cfg.keep, o.cfg.variant, c17priorName(o.cfg), q(o.post), o.split, o.late, o.afterT, o.cfg.hdrTO)
	if o.handoffIdx < 0 {
		if dead && !o.serveReturned {
			return cls, "stuck-before-hijack", desc + ": no thread can make progress and ServeConn has not returned"
		}
		return cls, "hijack-handler-never-ran", desc + ": the handler called ctx.Hijack but the hijack handler was never started; ServeConn returned " + fmt.Sprint(o.serveErr)
	}
	// 1. the response is complete (or absent) when the hijack handler starts
	wantBodies := []string{}
	if o.cfg.prior > 0 {
		wantBodies = append(wantBodies, "plain")
	}
	if !o.cfg.noResp {
		wantBodies = append(wantBodies, "hijacking")
	}
	st, bodies, rest, ok := c17splitResponses(o.outAtHandoff, o.nResp)
	if !ok && !o.cfg.noResp {
		if _, _, r1, ok1 := c17splitResponses(o.outAtHandoff, o.nResp-1); ok1 && len(r1) == 0 {
			sig := "response-suppressed-without-HijackSetNoResponse"
			if o.cfg.prior == 2 {
				sig += "-flag-left-by-earlier-request"
			}
			return cls, sig, fmt.Sprintf("%s: the hijacking request did not call HijackSetNoResponse(true), yet when the hijack handler started the server had written only %s (%d response(s), none for the hijacking request)", desc, q(o.outAtHandoff), o.nResp-1)
		}
	}
	if !ok {
		return cls, "response-not-fully-written-before-hijack-handler", fmt.Sprintf("%s: when the hijack handler started the server had written %s, which is not %d complete response(s)", desc, q(o.outAtHandoff), o.nResp)
	}
	for i := range bodies {
		if st[i] != 200 || bodies[i] != wantBodies[i] {
			return cls, "wrong-response-before-hijack", fmt.Sprintf("%s: response %d before the hand-off is %d %q", desc, i, st[i], bodies[i])
		}
	}
	if len(rest) != 0 {
		if o.cfg.noResp {
			return cls, "response-written-despite-HijackSetNoResponse", fmt.Sprintf("%s: the server wrote %s before the hand-off although the response was suppressed", desc, q(rest))
		}
		return cls, "extra-bytes-written-before-hijack", fmt.Sprintf("%s: unexpected bytes %s after the response(s)", desc, q(rest))
	}
	// 2. thread attribution after the hand-off
	closesByServer, closeBeforeReturn := 0, false
	for i := o.handoffIdx; i < len(o.ops); i++ {
		op := o.ops[i]
		if op.harness {
			continue
		}
		after := o.hjReturnIdx >= 0 && i >= o.hjReturnIdx
		switch op.kind {
		case 'R', 'W':
			who := "another server thread"
			if op.tid == o.serverTid {
				who = "the serving thread"
			} else if op.tid == o.hijackTid {
				who = "the server code around the hijack handler"
			}
			kind := map[byte]string{'R': "read", 'W': "write"}[op.kind]
			when := "after-handoff"
			if after {
				when = "after-hijack-handler-returned"
			}
			return cls, "server-" + kind + "-on-hijacked-conn-" + when, fmt.Sprintf("%s: %s issued a %s (%d bytes) on the hijacked connection (op #%d, hand-off at #%d)", desc, who, kind, op.n, i, o.handoffIdx)
		case 'C':
			closesByServer++
			if !after {
				closeBeforeReturn = true
			}
		}
	}
	if closeBeforeReturn {
		return cls, "conn-closed-before-hijack-handler-returned", desc + ": the server closed the connection while the hijack handler was still using it"
	}
	// 3. bytes
	if o.hjErr != "" || !bytes.Equal(o.hjRead, o.post[:o.hjWant]) {
		sig := "hijack-handler-bytes-differ"
		switch {
		case o.bufferedAtHO > 0 && !bytes.HasPrefix(o.hjRead, o.post[:c17min(c17min(o.bufferedAtHO, o.hjWant), len(o.post))]):
			sig = "hijack-handler-lost-bytes-buffered-with-request"
		case bytes.HasPrefix(o.post[:o.hjWant], o.hjRead) && strings.Contains(o.hjErr, "timeout"):
			sig = "hijack-handler-read-times-out-on-deadline-left-armed"
		case bytes.HasPrefix(o.post[:o.hjWant], o.hjRead):
			sig = "hijack-handler-bytes-truncated"
		}
		return cls, sig, fmt.Sprintf("%s: client sent %s after the request (%d of them were already taken off the wire by the server), hijack handler read %s err=%q", desc, q(o.post[:o.hjWant]), o.bufferedAtHO, q(o.hjRead), o.hjErr)
	}
	if dead {
		if o.hjReturned && !o.cfg.keep && closesByServer == 0 {
			return cls, "conn-not-closed-after-hijack-handler", desc + ": the hijack handler returned, KeepHijackedConns is off, the connection was never closed (client still waiting for EOF)"
		}
		return cls, "stuck-after-hijack", fmt.Sprintf("%s: no thread can make progress: hijack handler returned=%v, ServeConn returned=%v, client done=%v, keeper done=%v", desc, o.hjReturned, o.serveReturned, o.clientDone, o.keeperDone)
	}
	if !o.hjReturned {
		return cls, "hijack-handler-did-not-finish", desc
	}
	if o.serveErr != nil {
		return cls, "serveconn-error-after-hijack", fmt.Sprintf("%s: ServeConn returned %v", desc, o.serveErr)
	}
	if o.cfg.keep {
		if closesByServer > 0 {
			return cls, "conn-closed-despite-KeepHijackedConns", desc + ": the server closed the kept connection"
		}
		if o.lateErr != "" || !bytes.Equal(o.lateRead, o.post[o.hjWant:]) {
			sig := "kept-conn-bytes-differ-after-handler-return"
			if len(o.lateErr) > 6 && o.lateErr[:6] == "panic:" {
				sig = "kept-conn-read-panics-after-handler-return"
			} else if strings.Contains(o.lateErr, "timeout") {
				sig = "kept-conn-read-times-out-on-deadline-left-armed"
			}
			return cls, sig, fmt.Sprintf("%s: hijack handler read %s and returned; reading the remaining %s through the kept connection gave %s err=%q (%d bytes had been taken off the wire by the server before the hand-off)", desc, q(o.hjRead), q(o.post[o.hjWant:]), q(o.lateRead), o.lateErr, o.bufferedAtHO)
		}
	} else if closesByServer == 0 {
		return cls, "conn-not-closed-after-hijack-handler", desc + ": KeepHijackedConns is off but the server never closed the connection"
	}
	// 4. what the client saw: responses, then exactly what the owners of the hijacked conn wrote
	_, _, tail, ok := c17splitResponses(o.clientGot, o.nResp)
	want := append([]byte("HJ:"), o.post[:o.hjWant]...)
	if o.cfg.keep {
		want = append(append(want, "LATE:"...), o.post[o.hjWant:]...)
	}
	if !ok || !bytes.Equal(tail, want) {
		return cls, "client-stream-differs", fmt.Sprintf("%s: client received %s, want %d response(s) followed by %s", desc, q(o.clientGot), o.nResp, q(want))
	}
	return cls, "", ""
}

func TestVerif_C17(t *testing.T) {
	r := vrt.Begin(t, "C17", "model_checking")
	defer r.End()
	r.Rule("real Server.ServeConn on one end of fasthttputil.PipeConns, client thread writes a hijacking request (GET / POST with body / read buffer barely larger than the request), optionally after an earlier ordinary request on the same connection " +
		"that did {nothing, HijackSetNoResponse(true) without Hijack, HijackSetNoResponse(false)} and was {pipelined in the same write, answered first}, " +
		"followed by 0-3 chunks of arbitrary bytes (request look-alike, NUL/0xff/CRLFCRLF, single byte), the first `split` bytes in the same write as the request (split in {0,1,mid,end of chunk 1,+1,all}); " +
		"x ReduceMemoryUsage x HijackSetNoResponse x KeepHijackedConns x {HeaderReceived unset, HeaderReceived installs ReadTimeout/WriteTimeout 5s for the hijacking request with part of the stream sent 10 virtual seconds after the hand-off}; every schedule up to the preemption bound for every data case; server-side conn wrapped to log each Read/Write/Close with the calling thread. " +
		"Oracle: bytes written before the hijack handler's first statement are exactly the complete response(s) (nothing if suppressed); after that no Read/Write by server code; handler reads exactly the bytes sent after the request " +
		"(with KeepHijackedConns: first half in the handler, rest through the kept conn after return); conn closed by the server after return iff KeepHijackedConns is off; client sees responses + owners' writes. " +
		"Non-trivial: executions with >=1 deviation; anti-vacuity tag hijacked-with-buffered-bytes")
	r.Assume("mcrt shim semantics (litmus-tested)", "sync.Pool modelled as deterministic LIFO without scheduling points", "arbitrary bytes are represented by a 3-element adversarial palette; the server must not interpret them")
	b := vrt.Pick(r, 1, 2)
	var scs []mcx.Scenario
	type fam struct {
		name     string
		variant  int
		prior    int
		priorSep bool
		lists    [][]int
		hdrTO    bool
	}
	short := [][]int{{}, {0, 1}, {2, 1, 0}}
	fams := []fam{
		{"get", 0, 0, false, c17lists, false},
		{"post-body", 1, 0, false, c17lists, false},
		{"pipelined-behind-plain", 0, 1, false, c17lists, false},
		{"tight-readbuf", 3, 0, false, c17lists, false},
		// what the earlier request on the connection did with the hijack settings of its ctx
		{"after-plain", 0, 1, true, short, false},
		{"pipelined-behind-noresponse-true", 0, 2, false, short, false},
		{"after-noresponse-true", 0, 2, true, short, false},
		{"pipelined-behind-noresponse-false", 0, 3, false, short, false},
		{"after-noresponse-false", 0, 3, true, short, false},
		// per-request deadlines from HeaderReceived, part of the stream sent after they would expire
		{"get-headerreceived-timeouts", 0, 0, false, short, true},
		{"post-body-headerreceived-timeouts", 1, 0, false, [][]int{{0}, {2, 1}}, true},
	}
	// cheap families first: under a wall-clock cap the workers then starve the expensive ones, not the narrow ones
	sort.SliceStable(fams, func(i, j int) bool { return len(fams[i].lists) < len(fams[j].lists) })
	for _, f := range fams {
		for m := 0; m < 8; m++ {
			cfg := c17cfg{rmu: m&1 != 0, noResp: m&2 != 0, keep: m&4 != 0, variant: f.variant, prior: f.prior, priorSep: f.priorSep, hdrTO: f.hdrTO}
			name := fmt.Sprintf("%s/rmu=%v/noresp=%v/keep=%v", f.name, cfg.rmu, cfg.noResp, cfg.keep)
			if flt := os.Getenv("VERIF_SCENARIO"); flt != "" && !strings.Contains(name, flt) {
				continue
			}
			scs = append(scs, mcx.Scenario{Name: name, Cfg: mcrt.Config{Bound: b, Horizon: 3000}, Body: c17body(cfg, f.lists), Check: c17check})
		}
	}
	r.Set("preemption_bound", fmt.Sprint(b))
	mcx.Run(r, scs)
}
