//go:build verif

package fasthttp

// C21 — https requests are never sent over a plaintext connection.
//
// Fake network behind Client.Dial / Client.DialTimeout / HostClient.Dial: every dial returns the client end of an
// in-memory pipe and starts one goroutine for the server end.  The server end sniffs the first byte: 0x16 starts a
// real TLS handshake (crypto/tls, certificate generated once per run), anything else is served as plaintext HTTP.
// Per connection it logs: dialled address, every raw byte the client wrote, whether requests arrived inside a TLS
// session, the SNI, and every request.  Every request carries, in its path, the scheme/host/port of the URL it was
// made for, so the oracle can tell from the logs alone which connection carried which request.  The oracle runs after
// the client calls returned, the client's idle connections were closed and all server goroutines were joined.

import (
	"bufio"
	"bytes"
	"crypto/ecdsa"
	"crypto/elliptic"
	"crypto/rand"
	"crypto/tls"
	"crypto/x509"
	"crypto/x509/pkix"
	"encoding/json"
	"fmt"
	"io"
	"math/big"
	"net"
	"net/http"
	"net/url"
	"regexp"
	"strings"
	"sync"
	"testing"
	"time"

	"github.com/valyala/fasthttp/internal/verif/seqx"
	"github.com/valyala/fasthttp/internal/verif/vrt"
)

// ---------------------------------------------------------------------------------------------------------------
// case description (also the replay artefact)

type c21Target struct{ Scheme, Host, Port string } // Port "" = none spelled

type c21Op struct {
	Build string      // "" = SetRequestURI(full URL); "host+scheme" = Host header + path, then URI().SetScheme
	Via   string      // Do | DoRedirects
	T     c21Target   // the URL requested
	Redir []c21Target // DoRedirects: the server redirects to these in turn
}

type c21Upstream struct {
	Addr  string
	IsTLS bool
}

type c21Case struct {
	Client    string        // Client | HostClient | LBClient
	Hook      string        // Dial | DialTimeout | both
	Verify    string        // skip | roots
	Upstreams []c21Upstream // HostClient: exactly one; LBClient: one HostClient each
	Ops       []c21Op
	Refuse    []string `json:",omitempty"` // dialled addresses the fake network refuses (dial error)
	WrongCert []string `json:",omitempty"` // dialled addresses whose peer holds only the OTHER host's certificate
}

func (t c21Target) hostport() string {
	if t.Port == "" {
		return t.Host
	}
	return t.Host + ":" + t.Port
}

func (t c21Target) https() bool { return strings.EqualFold(t.Scheme, "https") }

// wantAddr is the address a Client has to dial for the target: its own host and port (default port by scheme).
func (t c21Target) wantAddr() string {
	if t.Port != "" {
		return t.Host + ":" + t.Port
	}
	if t.https() {
		return t.Host + ":443"
	}
	return t.Host + ":80"
}

func (t c21Target) tag(op, hop int) string {
	p := t.Port
	if p == "" {
		p = "none"
	}
	return fmt.Sprintf("%d-%d-%s-%s-%s", op, hop, strings.ToLower(t.Scheme), t.Host, p)
}

// c21URLs returns the URL to request for op i and the tags of every hop.
func (o *c21Op) urls(i int) (first string, tags []string) {
	all := append([]c21Target{o.T}, o.Redir...)
	next := ""
	for h := len(all) - 1; h >= 0; h-- {
		t := all[h]
		tg := t.tag(i, h)
		tags = append([]string{tg}, tags...)
		if next == "" {
			next = fmt.Sprintf("%s://%s/t/%s", t.Scheme, t.hostport(), tg)
		} else {
			next = fmt.Sprintf("%s://%s/r/%s?to=%s", t.Scheme, t.hostport(), tg, url.QueryEscape(next))
		}
	}
	return next, tags
}

func c21CaseString(cs *c21Case) string {
	var sb strings.Builder
	fmt.Fprintf(&sb, "%s hook=%s verify=%s", cs.Client, cs.Hook, cs.Verify)
	for _, u := range cs.Upstreams {
		fmt.Fprintf(&sb, " upstream(%s,tls=%v)", u.Addr, u.IsTLS)
	}
	if len(cs.Refuse) > 0 {
		fmt.Fprintf(&sb, " refuse-dial%v", cs.Refuse)
	}
	if len(cs.WrongCert) > 0 {
		fmt.Fprintf(&sb, " peer-with-other-hosts-cert%v", cs.WrongCert)
	}
	for _, o := range cs.Ops {
		fmt.Fprintf(&sb, " %s%s %s://%s", o.Via, map[bool]string{true: "(" + o.Build + ")"}[o.Build != ""], o.T.Scheme, o.T.hostport())
		for _, t := range o.Redir {
			fmt.Fprintf(&sb, "=>%s://%s", t.Scheme, t.hostport())
		}
	}
	return sb.String()
}

// ---------------------------------------------------------------------------------------------------------------
// in-memory pipe (buffered, no deadlines) and the fake network

type c21Half struct {
	mu     sync.Mutex
	cond   *sync.Cond
	buf    []byte
	closed bool
}

func c21NewHalf() *c21Half { h := &c21Half{}; h.cond = sync.NewCond(&h.mu); return h }

func (h *c21Half) close() {
	h.mu.Lock()
	h.closed = true
	h.cond.Broadcast()
	h.mu.Unlock()
}

type c21End struct {
	r, w     *c21Half
	rec      *c21ConnRec
	isClient bool
}

func (e *c21End) Read(p []byte) (int, error) {
	if len(p) == 0 {
		return 0, nil
	}
	e.r.mu.Lock()
	defer e.r.mu.Unlock()
	for len(e.r.buf) == 0 && !e.r.closed {
		e.r.cond.Wait()
	}
	if len(e.r.buf) == 0 {
		return 0, io.EOF
	}
	n := copy(p, e.r.buf)
	e.r.buf = e.r.buf[n:]
	return n, nil
}

func (e *c21End) Write(p []byte) (int, error) {
	e.w.mu.Lock()
	defer e.w.mu.Unlock()
	if e.w.closed {
		return 0, io.ErrClosedPipe
	}
	e.w.buf = append(e.w.buf, p...)
	if e.isClient {
		e.rec.mu.Lock()
		e.rec.Raw = append(e.rec.Raw, p...)
		e.rec.mu.Unlock()
	}
	e.w.cond.Broadcast()
	return len(p), nil
}

func (e *c21End) Close() error {
	e.r.close()
	e.w.close()
	return nil
}
func (e *c21End) LocalAddr() net.Addr              { return c21Addr("c21-local") }
func (e *c21End) RemoteAddr() net.Addr             { return c21Addr(e.rec.Addr) }
func (e *c21End) SetDeadline(time.Time) error      { return nil }
func (e *c21End) SetReadDeadline(time.Time) error  { return nil }
func (e *c21End) SetWriteDeadline(time.Time) error { return nil }

type c21Addr string

func (a c21Addr) Network() string { return "c21" }
func (a c21Addr) String() string  { return string(a) }

// c21SrvConn lets crypto/tls read through the bufio.Reader that was used for sniffing.
type c21SrvConn struct {
	*c21End
	br *bufio.Reader
}

func (c *c21SrvConn) Read(p []byte) (int, error) { return c.br.Read(p) }

type c21ReqRec struct{ Method, Path, Host string }

type c21ConnRec struct {
	ID   int
	Addr string
	Hook string
	mu   sync.Mutex
	Raw  []byte // every byte the client wrote on the dialled conn
	TLS  bool   // requests of this conn were decoded inside an established TLS session
	SNI  string
	HSErr string
	Reqs []c21ReqRec
	CertFor string // host name the peer's certificate is valid for
}

type c21Net struct {
	refuse    map[string]bool
	wrongCert map[string]bool
	refused   int
	mu      sync.Mutex
	conns   []*c21ConnRec
	ends    []*c21End
	wg      sync.WaitGroup
	aborted bool
}

func c21HostOf(addr string) string {
	if h, _, err := net.SplitHostPort(addr); err == nil {
		return h
	}
	return addr
}

func (n *c21Net) dial(addr, hook string) (net.Conn, error) {
	if n.refuse[addr] {
		n.mu.Lock()
		n.refused++
		n.mu.Unlock()
		return nil, &net.OpError{Op: "dial", Net: "c21", Err: fmt.Errorf("connection refused by %s", addr)}
	}
	a, b := c21NewHalf(), c21NewHalf()
	n.mu.Lock()
	rec := &c21ConnRec{ID: len(n.conns) + 1, Addr: addr, Hook: hook, CertFor: c21HostOf(addr)}
	if n.wrongCert[addr] {
		rec.CertFor = map[string]string{"hosta": "hostb", "hostb": "hosta"}[rec.CertFor]
	}
	cl := &c21End{r: a, w: b, rec: rec, isClient: true}
	sv := &c21End{r: b, w: a, rec: rec}
	n.conns = append(n.conns, rec)
	n.ends = append(n.ends, cl, sv)
	n.mu.Unlock()
	n.wg.Add(1)
	go n.serve(rec, sv)
	return cl, nil
}

func (n *c21Net) abort() {
	n.mu.Lock()
	n.aborted = true
	ends := append([]*c21End(nil), n.ends...)
	n.mu.Unlock()
	for _, e := range ends {
		e.Close()
	}
}

func (n *c21Net) serve(rec *c21ConnRec, sv *c21End) {
	defer n.wg.Done()
	defer sv.Close()
	br := bufio.NewReader(sv)
	first, err := br.Peek(1)
	if err != nil {
		return
	}
	var w io.Writer = sv
	if first[0] == 0x16 {
		tc := tls.Server(&c21SrvConn{c21End: sv, br: br}, c21SrvCfg[rec.CertFor])
		if err := tc.Handshake(); err != nil {
			rec.mu.Lock()
			rec.HSErr = err.Error()
			rec.mu.Unlock()
			return
		}
		rec.mu.Lock()
		rec.TLS = true
		rec.SNI = tc.ConnectionState().ServerName
		rec.mu.Unlock()
		defer tc.Close()
		br = bufio.NewReader(tc)
		w = tc
	}
	for {
		hr, err := http.ReadRequest(br)
		if err != nil {
			return
		}
		io.Copy(io.Discard, hr.Body)
		rec.mu.Lock()
		rec.Reqs = append(rec.Reqs, c21ReqRec{hr.Method, hr.URL.Path, hr.Host})
		rec.mu.Unlock()
		var resp string
		if strings.HasPrefix(hr.URL.Path, "/r/") {
			resp = fmt.Sprintf("HTTP/1.1 302 Found\r\nLocation: %s\r\nContent-Length: 0\r\n\r\n", hr.URL.Query().Get("to"))
		} else {
			body := "tag=" + strings.TrimPrefix(hr.URL.Path, "/t/")
			resp = fmt.Sprintf("HTTP/1.1 200 OK\r\nContent-Length: %d\r\n\r\n%s", len(body), body)
		}
		if _, err := io.WriteString(w, resp); err != nil {
			return
		}
	}
}

var (
	c21Once   sync.Once
	c21SrvCfg = map[string]*tls.Config{} // host name -> server config holding only that host's certificate
	c21Roots  *x509.CertPool
	c21CertEr error
)

// c21InitCert makes one self-signed certificate per host name; the client's RootCAs pool holds both.
func c21InitCert() error {
	c21Once.Do(func() {
		c21Roots = x509.NewCertPool()
		for i, host := range []string{"hosta", "hostb"} {
			priv, err := ecdsa.GenerateKey(elliptic.P256(), rand.Reader)
			if err != nil {
				c21CertEr = err
				return
			}
			tmpl := &x509.Certificate{
				SerialNumber: big.NewInt(int64(21 + i)), Subject: pkix.Name{Organization: []string{"verif C21 " + host}},
				NotBefore: time.Now().Add(-time.Hour), NotAfter: time.Now().Add(48 * time.Hour),
				KeyUsage: x509.KeyUsageCertSign | x509.KeyUsageDigitalSignature, ExtKeyUsage: []x509.ExtKeyUsage{x509.ExtKeyUsageServerAuth},
				DNSNames: []string{host}, BasicConstraintsValid: true, IsCA: true,
			}
			der, err := x509.CreateCertificate(rand.Reader, tmpl, tmpl, &priv.PublicKey, priv)
			if err != nil {
				c21CertEr = err
				return
			}
			leaf, err := x509.ParseCertificate(der)
			if err != nil {
				c21CertEr = err
				return
			}
			c21Roots.AddCert(leaf)
			c21SrvCfg[host] = &tls.Config{Certificates: []tls.Certificate{{Certificate: [][]byte{der}, PrivateKey: priv, Leaf: leaf}}}
		}
	})
	return c21CertEr
}

// ---------------------------------------------------------------------------------------------------------------
// running and judging one case

type c21Counters struct {
	cases, tlsSessions, plainConns, httpsDelivered, httpDelivered, refusals, lbRefusals, crossSchemeRedirects int64
	reuses, bothSchemesSameAddr, hsFailed, dialHook, dialTimeoutHook, mapEntries                            int64
	failoverOK, failoverErr, wrongCertConns, wrongCertRejected, refusedDials                                int64
}

func (c *c21Counters) flush(r *vrt.R) {
	for k, v := range map[string]int64{
		"c21_cases": c.cases, "c21_tls_sessions_established": c.tlsSessions, "c21_plaintext_connections": c.plainConns,
		"c21_https_requests_delivered_inside_tls": c.httpsDelivered, "c21_http_requests_delivered_in_plaintext": c.httpDelivered,
		"c21_hostclient_scheme_refusals_checked": c.refusals, "c21_lbclient_scheme_refusals_seen": c.lbRefusals,
		"c21_redirects_crossing_scheme_followed_or_refused": c.crossSchemeRedirects, "c21_requests_on_reused_connection": c.reuses,
		"c21_cases_with_same_hostport_used_for_both_schemes": c.bothSchemesSameAddr, "c21_tls_handshakes_failed": c.hsFailed,
		"c21_fault_cases_calls_succeeded_after_failover": c.failoverOK, "c21_fault_cases_calls_failed": c.failoverErr,
		"c21_conns_to_peer_with_other_hosts_certificate": c.wrongCertConns, "c21_handshakes_rejected_for_other_hosts_certificate": c.wrongCertRejected,
		"c21_dials_refused_by_fake_network": c.refusedDials,
		"c21_dials_via_Dial": c.dialHook, "c21_dials_via_DialTimeout": c.dialTimeoutHook, "c21_client_map_entries_checked": c.mapEntries,
	} {
		if v != 0 {
			r.Add(k, v)
		}
	}
	*c = c21Counters{}
}

type c21OpResult struct {
	err    error
	status int
	body   string
}

func c21Exec(cs *c21Case, n *c21Net) (res []c21OpResult, cl *Client, bad string) {
	tcfg := &tls.Config{InsecureSkipVerify: true}
	if cs.Verify == "roots" {
		tcfg = &tls.Config{RootCAs: c21Roots}
	}
	var dial DialFunc
	var dialT DialFuncWithTimeout
	if cs.Hook == "Dial" || cs.Hook == "both" {
		dial = func(a string) (net.Conn, error) { return n.dial(a, "Dial") }
	}
	if cs.Hook == "DialTimeout" || cs.Hook == "both" {
		dialT = func(a string, _ time.Duration) (net.Conn, error) { return n.dial(a, "DialTimeout") }
	}
	type doer interface {
		Do(req *Request, resp *Response) error
	}
	type redirDoer interface {
		DoRedirects(req *Request, resp *Response, max int) error
	}
	var d doer
	var hcs []*HostClient
	switch cs.Client {
	case "Client":
		cl = &Client{Dial: dial, DialTimeout: dialT, TLSConfig: tcfg, MaxIdleConnDuration: time.Minute}
		d = cl
	case "HostClient", "LBClient":
		for _, u := range cs.Upstreams {
			hcs = append(hcs, &HostClient{Addr: u.Addr, IsTLS: u.IsTLS, Dial: dial, DialTimeout: dialT, TLSConfig: tcfg, MaxIdleConnDuration: time.Minute})
		}
		if cs.Client == "HostClient" {
			if len(hcs) != 1 {
				return nil, nil, "HostClient case needs one upstream"
			}
			d = hcs[0]
		} else {
			lb := &LBClient{Timeout: time.Minute}
			for _, h := range hcs {
				lb.Clients = append(lb.Clients, h)
			}
			d = lb
		}
	default:
		return nil, nil, "unknown client kind " + cs.Client
	}
	for i := range cs.Ops {
		op := &cs.Ops[i]
		u, _ := op.urls(i)
		req, resp := AcquireRequest(), AcquireResponse()
		if op.Build == "host+scheme" {
			pu, e := url.Parse(u)
			if e != nil {
				return nil, nil, "url.Parse: " + e.Error()
			}
			req.Header.SetHost(pu.Host)
			req.SetRequestURI(pu.RequestURI())
			req.URI().SetScheme(pu.Scheme)
		} else {
			req.SetRequestURI(u)
		}
		var err error
		switch op.Via {
		case "Do":
			err = d.Do(req, resp)
		case "DoRedirects":
			rd, ok := d.(redirDoer)
			if !ok {
				return nil, nil, cs.Client + " has no DoRedirects"
			}
			err = rd.DoRedirects(req, resp, 5)
		default:
			return nil, nil, "unknown via " + op.Via
		}
		res = append(res, c21OpResult{err, resp.StatusCode(), string(resp.Body())})
		ReleaseRequest(req)
		ReleaseResponse(resp)
	}
	if cl != nil {
		cl.CloseIdleConnections()
	}
	for _, h := range hcs {
		h.CloseIdleConnections()
	}
	return res, cl, ""
}

func c21ErrClass(err error) string {
	switch {
	case err == nil:
		return "nil"
	case err == ErrHostClientRedirectToDifferentScheme:
		return "ErrHostClientRedirectToDifferentScheme"
	case err == ErrTooManyRedirects:
		return "ErrTooManyRedirects"
	case err == ErrTimeout:
		return "ErrTimeout"
	case err == ErrConnectionClosed:
		return "ErrConnectionClosed"
	case strings.Contains(err.Error(), "tls:"):
		return "tls-error"
	}
	return "other-error"
}

// c21ClearHTTPS matches the request line of a request made for an https URL (the tag of a redirect *target* inside a
// ?to= query is percent-encoded differently and does not match).
var c21ClearHTTPS = regexp.MustCompile(`[A-Z]+ /[tr]/[0-9]+-[0-9]+-https-`)

func c21Run(r *vrt.R, cs *c21Case, ct *c21Counters, sample bool) {
	n := &c21Net{refuse: map[string]bool{}, wrongCert: map[string]bool{}}
	for _, a := range cs.Refuse {
		n.refuse[a] = true
	}
	for _, a := range cs.WrongCert {
		n.wrongCert[a] = true
	}
	faulty := len(cs.Refuse)+len(cs.WrongCert) > 0
	wd := time.AfterFunc(60*time.Second, n.abort)
	res, cl, bad := c21Exec(cs, n)
	if bad != "" {
		wd.Stop()
		r.ToolError("c21: %s", bad)
		return
	}
	n.wg.Wait() // every server goroutine has finished: the logs are final
	wd.Stop()
	if n.aborted {
		r.ToolError("c21: case did not finish within 60 s (harness pipe deadlock?): %s", c21CaseString(cs))
		return
	}
	ct.cases++
	viol := func(sig, what string) {
		cp := *cs
		r.Violation(sig, what+" | case "+c21CaseString(cs)+" | "+c21Summary(n, res), cp)
	}
	isClient := cs.Client == "Client"
	upAddr := map[string]bool{}
	for _, u := range cs.Upstreams {
		for _, a := range strings.Split(u.Addr, ",") {
			upAddr[a] = true
		}
	}

	// what the statement expects per op
	type hopExp struct {
		tag     string
		t       c21Target
		refused bool // must not be written anywhere
	}
	var exps []hopExp
	anyRefusal := false
	mixed := map[string]int{}
	for i := range cs.Ops {
		op := &cs.Ops[i]
		_, tags := op.urls(i)
		all := append([]c21Target{op.T}, op.Redir...)
		refusedFrom := -1
		for h, t := range all {
			if h > 0 && all[h-1].https() != t.https() {
				ct.crossSchemeRedirects++
			}
			if cs.Client == "HostClient" && refusedFrom < 0 && t.https() != cs.Upstreams[0].IsTLS {
				refusedFrom = h
			}
			exps = append(exps, hopExp{tags[h], t, refusedFrom >= 0})
			if t.https() {
				mixed[t.wantAddr()] |= 2
			} else {
				mixed[t.wantAddr()] |= 1
			}
		}
		rs := res[i]
		switch cs.Client {
		case "Client":
			if rs.err != nil {
				viol("client-call-failed:"+c21ErrClass(rs.err), fmt.Sprintf("op %d through Client failed on a network that always answers: %v", i, rs.err))
			} else if want := "tag=" + tags[len(tags)-1]; rs.status != 200 || rs.body != want {
				viol("client-got-other-response", fmt.Sprintf("op %d: status %d body %q, want 200 %q", i, rs.status, rs.body, want))
			}
		case "HostClient":
			if refusedFrom >= 0 {
				ct.refusals++
				anyRefusal = true
				how := "direct"
				if refusedFrom > 0 {
					how = "after-redirect"
				}
				if rs.err != ErrHostClientRedirectToDifferentScheme {
					viol(fmt.Sprintf("hostclient-tls-%v-did-not-refuse-%s-%s:%s", cs.Upstreams[0].IsTLS, strings.ToLower(all[refusedFrom].Scheme), how, c21ErrClass(rs.err)),
						fmt.Sprintf("op %d: HostClient{IsTLS:%v} got a %s URL (%s), error is %v", i, cs.Upstreams[0].IsTLS, all[refusedFrom].Scheme, how, rs.err))
				}
			} else if rs.err != nil && !faulty {
				viol("hostclient-call-failed:"+c21ErrClass(rs.err), fmt.Sprintf("op %d with matching scheme failed: %v", i, rs.err))
			} else if rs.err == nil && faulty {
				ct.failoverOK++
			} else if faulty {
				ct.failoverErr++
			}
		case "LBClient":
			if rs.err == ErrHostClientRedirectToDifferentScheme {
				ct.lbRefusals++
			} else if rs.err != nil {
				viol("lbclient-call-failed:"+c21ErrClass(rs.err), fmt.Sprintf("op %d failed: %v", i, rs.err))
			}
		}
	}
	for _, m := range mixed {
		if m == 3 {
			ct.bothSchemesSameAddr++
			break
		}
	}

	// per connection logs
	ct.refusedDials += int64(n.refused)
	delivered := map[string]int{}
	sawTLS, sawPlain := false, false
	for _, c := range n.conns {
		c.mu.Lock()
		switch c.Hook {
		case "Dial":
			ct.dialHook++
		case "DialTimeout":
			ct.dialTimeoutHook++
		}
		if cs.Hook == "both" && c.Hook != "DialTimeout" {
			viol("dial-used-although-dialtimeout-set", "harness expectation: DialTimeout has precedence")
		}
		if c.HSErr != "" {
			ct.hsFailed++
		}
		if c.TLS {
			ct.tlsSessions++
			sawTLS = true
		} else if len(c.Reqs) > 0 {
			ct.plainConns++
			sawPlain = true
		}
		if len(c.Reqs) > 1 {
			ct.reuses += int64(len(c.Reqs) - 1)
		}
		// raw bytes: no https request may be visible in clear on any dialled connection
		if c21ClearHTTPS.Match(c.Raw) {
			viol("https-request-bytes-in-clear-on-wire:"+strings.ToLower(cs.Client), fmt.Sprintf("conn %d to %s carries an https request in clear: %q", c.ID, c.Addr, c21Clip(c.Raw)))
		}
		if c.TLS && (len(c.Raw) == 0 || c.Raw[0] != 0x16 || bytes.Contains(c.Raw, []byte("HTTP/1.1"))) {
			viol("tls-conn-with-cleartext-http", fmt.Sprintf("conn %d to %s: raw bytes %q", c.ID, c.Addr, c21Clip(c.Raw)))
		}
		// every TLS session is for the host actually dialled
		if c.TLS && c.SNI != c21HostOf(c.Addr) {
			viol("tls-sni-differs-from-dialled-host:"+strings.ToLower(cs.Client), fmt.Sprintf("conn %d dialled as %s has a TLS session with SNI %q", c.ID, c.Addr, c.SNI))
		}
		if c.CertFor != c21HostOf(c.Addr) {
			ct.wrongCertConns++
			if c.TLS && cs.Verify == "roots" {
				viol("tls-session-with-peer-holding-other-hosts-certificate:"+strings.ToLower(cs.Client), fmt.Sprintf("conn %d dialled as %s: the peer presented only %s's certificate and the verifying client completed the handshake (SNI %q), %d request(s) delivered", c.ID, c.Addr, c.CertFor, c.SNI, len(c.Reqs)))
			} else if !c.TLS && c.HSErr != "" {
				ct.wrongCertRejected++
			}
		}
		for _, q := range c.Reqs {
			parts := strings.Split(q.Path[3:], "-")
			if len(parts) != 5 {
				c.mu.Unlock()
				r.ToolError("c21: request without tag: %q", q.Path)
				return
			}
			tag := q.Path[3:]
			delivered[tag]++
			t := c21Target{Scheme: parts[2], Host: parts[3], Port: parts[4]}
			if t.Port == "none" {
				t.Port = ""
			}
			if t.https() {
				if !c.TLS {
					viol("https-request-on-plaintext-conn:"+strings.ToLower(cs.Client), fmt.Sprintf("request %s arrived outside TLS on conn %d to %s", tag, c.ID, c.Addr))
				} else {
					ct.httpsDelivered++
				}
			} else {
				if c.TLS {
					viol("http-request-on-tls-conn:"+strings.ToLower(cs.Client), fmt.Sprintf("request %s arrived inside a TLS session on conn %d to %s", tag, c.ID, c.Addr))
				} else {
					ct.httpDelivered++
				}
			}
			if isClient {
				if c.Addr != t.wantAddr() {
					viol("request-on-conn-to-other-address:"+strings.ToLower(t.Scheme), fmt.Sprintf("request %s arrived on conn %d dialled as %s, want %s", tag, c.ID, c.Addr, t.wantAddr()))
				}
				if c.TLS && c.SNI != t.Host {
					viol("https-request-in-tls-session-for-other-host", fmt.Sprintf("request %s arrived in a TLS session with SNI %q", tag, c.SNI))
				}
			} else if !upAddr[c.Addr] {
				viol("request-on-conn-to-unconfigured-upstream", fmt.Sprintf("request %s arrived on conn dialled as %s", tag, c.Addr))
			}
		}
		c.mu.Unlock()
	}
	for _, e := range exps {
		switch {
		case e.refused && delivered[e.tag] > 0:
			viol(fmt.Sprintf("hostclient-tls-%v-wrote-%s-request", cs.Upstreams[0].IsTLS, strings.ToLower(e.t.Scheme)), "request "+e.tag+" had to be refused but was written")
		case isClient && delivered[e.tag] != 1:
			viol("client-request-not-delivered-once", fmt.Sprintf("request %s delivered %d times", e.tag, delivered[e.tag]))
		}
	}

	// Client: the per-scheme host client maps (white box)
	if cl != nil {
		cl.mLock.RLock()
		for k, hc := range cl.m {
			ct.mapEntries++
			if hc.IsTLS || hc.Addr != AddMissingPort(k, false) {
				viol("client-http-map-holds-other-hostclient", fmt.Sprintf("Client.m[%q] = HostClient{Addr:%q IsTLS:%v}", k, hc.Addr, hc.IsTLS))
			}
		}
		for k, hc := range cl.ms {
			ct.mapEntries++
			if !hc.IsTLS || hc.Addr != AddMissingPort(k, true) {
				viol("client-https-map-holds-other-hostclient", fmt.Sprintf("Client.ms[%q] = HostClient{Addr:%q IsTLS:%v}", k, hc.Addr, hc.IsTLS))
			}
		}
		cl.mLock.RUnlock()
	}
	if (sawTLS && sawPlain) || anyRefusal || (faulty && (n.refused > 0 || sawTLS)) {
		r.Nontrivial(c21CaseString(cs))
	}
	if sample && r.WantSample() {
		r.Sample(map[string]any{"case": c21CaseString(cs), "observed": c21Summary(n, res)})
	}
}

func c21Clip(b []byte) []byte {
	if len(b) > 160 {
		return b[:160]
	}
	return b
}

func c21Summary(n *c21Net, res []c21OpResult) string {
	var sb strings.Builder
	for _, c := range n.conns {
		fmt.Fprintf(&sb, "conn%d dial=%s tls=%v sni=%q first=%#x reqs=[", c.ID, c.Addr, c.TLS, c.SNI, c21Clip(c.Raw)[:min(1, len(c.Raw))])
		for _, q := range c.Reqs {
			sb.WriteString(q.Path + " ")
		}
		sb.WriteString("]")
		if c.HSErr != "" {
			sb.WriteString(" hserr=" + c.HSErr)
		}
		sb.WriteString("; ")
	}
	for i, x := range res {
		fmt.Fprintf(&sb, "op%d: err=%v status=%d; ", i, x.err, x.status)
	}
	return sb.String()
}

// ---------------------------------------------------------------------------------------------------------------
// enumerated spaces

type c21Space struct {
	name string
	gen  func(yield func(cs *c21Case) bool)
}

func c21Symbols(hosts []string) []c21Target {
	var out []c21Target
	for _, s := range []string{"http", "https"} {
		for _, h := range hosts {
			for _, p := range []string{"", "80", "443", "8443"} {
				out = append(out, c21Target{s, h, p})
			}
		}
	}
	return out
}

func c21Spaces(r *vrt.R) []c21Space {
	sym := c21Symbols([]string{"hosta", "hostb"})
	ns := len(sym)
	dimsN := func(n, k int) []int {
		d := make([]int, n)
		for i := range d {
			d[i] = k
		}
		return d
	}
	var sp []c21Space
	seqLen := vrt.Pick(r, 3, 4)
	sp = append(sp, c21Space{fmt.Sprintf("K1: one Client, every sequence of 1..%d Do calls over {http,https}x{hosta,hostb}x{no port,:80,:443,:8443} (%d URLs), hook Dial, InsecureSkipVerify", seqLen, ns),
		func(yield func(*c21Case) bool) {
			for n := 1; n <= seqLen; n++ {
				ok := seqx.Product(dimsN(n, ns), -1, func(x []int) bool {
					cs := c21Case{Client: "Client", Hook: "Dial", Verify: "skip"}
					for _, s := range x {
						cs.Ops = append(cs.Ops, c21Op{Via: "Do", T: sym[s]})
					}
					return yield(&cs)
				})
				if !ok {
					return
				}
			}
		}})
	sp = append(sp, c21Space{"K1b: one Client, every sequence of 1..2 Do calls x hook {DialTimeout, both} x verification {InsecureSkipVerify, RootCAs pool} and hook Dial with RootCAs",
		func(yield func(*c21Case) bool) {
			for _, hv := range [][2]string{{"DialTimeout", "skip"}, {"both", "skip"}, {"Dial", "roots"}, {"DialTimeout", "roots"}, {"both", "roots"}} {
				for n := 1; n <= 2; n++ {
					ok := seqx.Product(dimsN(n, ns), -1, func(x []int) bool {
						cs := c21Case{Client: "Client", Hook: hv[0], Verify: hv[1]}
						for _, s := range x {
							cs.Ops = append(cs.Ops, c21Op{Via: "Do", T: sym[s]})
						}
						return yield(&cs)
					})
					if !ok {
						return
					}
				}
			}
		}})
	sp = append(sp, c21Space{"K1c: requests built from Host header + path + URI().SetScheme instead of a full URL: Client, every sequence of 1..2 Do calls; HostClient/LBClient single calls",
		func(yield func(*c21Case) bool) {
			for n := 1; n <= 2; n++ {
				ok := seqx.Product(dimsN(n, ns), -1, func(x []int) bool {
					cs := c21Case{Client: "Client", Hook: "Dial", Verify: "skip"}
					for _, s := range x {
						cs.Ops = append(cs.Ops, c21Op{Build: "host+scheme", Via: "Do", T: sym[s]})
					}
					return yield(&cs)
				})
				if !ok {
					return
				}
			}
			for _, s := range sym {
				for _, u := range []c21Upstream{{"hosta:80", false}, {"hosta:443", true}} {
					cs := c21Case{Client: "HostClient", Hook: "Dial", Verify: "skip", Upstreams: []c21Upstream{u}, Ops: []c21Op{{Build: "host+scheme", Via: "Do", T: s}}}
					if !yield(&cs) {
						return
					}
				}
				cs := c21Case{Client: "LBClient", Hook: "Dial", Verify: "skip", Upstreams: []c21Upstream{{"hosta:80", false}, {"hosta:443", true}}, Ops: []c21Op{{Build: "host+scheme", Via: "Do", T: s}, {Build: "host+scheme", Via: "Do", T: s}}}
				if !yield(&cs) {
					return
				}
			}
		}})
	rlen := vrt.Pick(r, 1, 3)
	sp = append(sp, c21Space{fmt.Sprintf("K2: one Client.DoRedirects call: every start URL x every chain of 1..%d redirect targets over all URLs (http<->https, other host, other port); plus start x target x second target on hosta", rlen),
		func(yield func(*c21Case) bool) {
			for n := 2; n <= rlen+1; n++ {
				ok := seqx.Product(dimsN(n, ns), -1, func(x []int) bool {
					op := c21Op{Via: "DoRedirects", T: sym[x[0]]}
					for _, s := range x[1:] {
						op.Redir = append(op.Redir, sym[s])
					}
					cs := c21Case{Client: "Client", Hook: "Dial", Verify: "skip", Ops: []c21Op{op}}
					return yield(&cs)
				})
				if !ok {
					return
				}
			}
			if rlen >= 2 {
				return
			}
			sa := c21Symbols([]string{"hosta"})
			seqx.Product([]int{ns, ns, len(sa)}, -1, func(x []int) bool {
				op := c21Op{Via: "DoRedirects", T: sym[x[0]], Redir: []c21Target{sym[x[1]], sa[x[2]]}}
				cs := c21Case{Client: "Client", Hook: "Dial", Verify: "skip", Ops: []c21Op{op}}
				return yield(&cs)
			})
		}})
	sp = append(sp, c21Space{"K2b: Client: Do u1, then DoRedirects u2=>u3, then Do u1 again (pooled connections of both schemes), u1,u2,u3 over hosta URLs",
		func(yield func(*c21Case) bool) {
			sa := c21Symbols([]string{"hosta"})
			seqx.Product(dimsN(3, len(sa)), -1, func(x []int) bool {
				cs := c21Case{Client: "Client", Hook: "Dial", Verify: "skip", Ops: []c21Op{
					{Via: "Do", T: sa[x[0]]}, {Via: "DoRedirects", T: sa[x[1]], Redir: []c21Target{sa[x[2]]}}, {Via: "Do", T: sa[x[0]]}}}
				return yield(&cs)
			})
		}})
	sp = append(sp, c21Space{"K2c: scheme spelled HTTPS/Https/HTTP: single Do and single redirect target, hosta, every port spelling",
		func(yield func(*c21Case) bool) {
			var up []c21Target
			for _, s := range []string{"HTTPS", "Https", "HTTP"} {
				for _, p := range []string{"", "80", "443", "8443"} {
					up = append(up, c21Target{s, "hosta", p})
				}
			}
			for _, t := range up {
				cs := c21Case{Client: "Client", Hook: "Dial", Verify: "skip", Ops: []c21Op{{Via: "Do", T: t}}}
				if !yield(&cs) {
					return
				}
				for _, s := range sym {
					cs := c21Case{Client: "Client", Hook: "Dial", Verify: "skip", Ops: []c21Op{{Via: "DoRedirects", T: s, Redir: []c21Target{t}}}}
					if !yield(&cs) {
						return
					}
					cs = c21Case{Client: "HostClient", Hook: "Dial", Verify: "skip", Upstreams: []c21Upstream{{s.wantAddr(), s.https()}}, Ops: []c21Op{{Via: "DoRedirects", T: s, Redir: []c21Target{t}}}}
					if !yield(&cs) {
						return
					}
				}
			}
		}})

	ups := []c21Upstream{{"hosta:80", false}, {"hosta:443", false}, {"hosta:8443", false}, {"hosta:80", true}, {"hosta:443", true}, {"hosta:8443", true}, {"hosta:443,hostb:443", true}, {"hosta:80,hostb:80", false}}
	hlen := vrt.Pick(r, 2, 3)
	sp = append(sp, c21Space{fmt.Sprintf("K3: HostClient{IsTLS t/f, Addr hosta:{80,443,8443} or two hosts}: every sequence of 1..%d Do calls over the %d URLs", hlen, ns),
		func(yield func(*c21Case) bool) {
			for _, u := range ups {
				for n := 1; n <= hlen; n++ {
					ok := seqx.Product(dimsN(n, ns), -1, func(x []int) bool {
						cs := c21Case{Client: "HostClient", Hook: "Dial", Verify: "skip", Upstreams: []c21Upstream{u}}
						for _, s := range x {
							cs.Ops = append(cs.Ops, c21Op{Via: "Do", T: sym[s]})
						}
						return yield(&cs)
					})
					if !ok {
						return
					}
				}
			}
		}})
	second := vrt.Pick(r, 0, 8)
	sp = append(sp, c21Space{fmt.Sprintf("K3b: HostClient.DoRedirects: every upstream config x start URL x redirect target (x none or one of %d second targets on hosta)", second),
		func(yield func(*c21Case) bool) {
			sa := c21Symbols([]string{"hosta"})
			for _, u := range ups {
				ok := seqx.Product([]int{ns, ns, second + 1}, -1, func(x []int) bool {
					op := c21Op{Via: "DoRedirects", T: sym[x[0]], Redir: []c21Target{sym[x[1]]}}
					if x[2] > 0 {
						op.Redir = append(op.Redir, sa[x[2]-1])
					}
					cs := c21Case{Client: "HostClient", Hook: "Dial", Verify: "skip", Upstreams: []c21Upstream{u}, Ops: []c21Op{op}}
					return yield(&cs)
				})
				if !ok {
					return
				}
			}
		}})
	sp = append(sp, c21Space{"K5: TLS HostClient with several addresses (hosta:443,hostb:443 / hostb:443,hosta:443 / hosta:443,hostb:443,hosta:8443), one certificate per host name, verification {RootCAs pool, InsecureSkipVerify} x fake network refusing to dial {none, 1st, 2nd address} x peer holding only the other host's certificate at {none, 1st, 2nd, 1st+2nd address} x every sequence of 1..2 Do calls over {https hosta, https hostb, https hosta:443, http hosta}",
		func(yield func(*c21Case) bool) {
			ops := []c21Target{{"https", "hosta", ""}, {"https", "hostb", ""}, {"https", "hosta", "443"}, {"http", "hosta", ""}}
			for _, addrs := range [][]string{{"hosta:443", "hostb:443"}, {"hostb:443", "hosta:443"}, {"hosta:443", "hostb:443", "hosta:8443"}} {
				for _, verify := range []string{"roots", "skip"} {
					for ref := 0; ref < 3; ref++ {
						for wc := 0; wc < 4; wc++ {
							for n := 1; n <= 2; n++ {
								ok := seqx.Product(dimsN(n, len(ops)), -1, func(x []int) bool {
									cs := c21Case{Client: "HostClient", Hook: "Dial", Verify: verify, Upstreams: []c21Upstream{{strings.Join(addrs, ","), true}}}
									if ref > 0 {
										cs.Refuse = []string{addrs[ref-1]}
									}
									switch wc {
									case 1, 2:
										cs.WrongCert = []string{addrs[wc-1]}
									case 3:
										cs.WrongCert = []string{addrs[0], addrs[1]}
									}
									for _, s := range x {
										cs.Ops = append(cs.Ops, c21Op{Via: "Do", T: ops[s]})
									}
									return yield(&cs)
								})
								if !ok {
									return
								}
							}
						}
					}
				}
			}
		}})
	lbs := [][]c21Upstream{
		{{"hosta:80", false}, {"hosta:443", true}},
		{{"hosta:443", true}, {"hosta:80", false}},
		{{"hosta:443", false}, {"hosta:443", true}},
		{{"hosta:443", true}, {"hostb:443", true}},
	}
	llen := vrt.Pick(r, 2, 3)
	sp = append(sp, c21Space{fmt.Sprintf("K4: LBClient over HostClients of mixed schemes (4 configurations): every sequence of 1..%d Do calls over the %d URLs", llen, ns),
		func(yield func(*c21Case) bool) {
			for _, lb := range lbs {
				for n := 1; n <= llen; n++ {
					ok := seqx.Product(dimsN(n, ns), -1, func(x []int) bool {
						cs := c21Case{Client: "LBClient", Hook: "Dial", Verify: "skip", Upstreams: lb}
						for _, s := range x {
							cs.Ops = append(cs.Ops, c21Op{Via: "Do", T: sym[s]})
						}
						return yield(&cs)
					})
					if !ok {
						return
					}
				}
			}
		}})
	return sp
}

func TestVerif_C21(t *testing.T) {
	r := vrt.Begin(t, "C21", "exploration")
	defer r.End()
	if err := c21InitCert(); err != nil {
		r.ToolError("c21: certificate: %v", err)
	}
	if rp := r.Replay(); rp != nil {
		var cs c21Case
		if err := json.Unmarshal(rp, &cs); err != nil {
			r.ToolError("replay artefact: %v", err)
		}
		var ct c21Counters
		c21Run(r, &cs, &ct, true)
		r.Eval(1)
		ct.flush(r)
		return
	}
	spaces := c21Spaces(r)
	var names []string
	for _, s := range spaces {
		names = append(names, s.name)
	}
	r.Rule("request sequences and http<->https redirects through Client, HostClient and LBClient over a fake network with in-memory TLS endpoints (dial hooks return pipe ends; the server end sniffs 0x16 and runs crypto/tls with a run-time self-signed ECDSA certificate, else plaintext HTTP). " +
		"Enumerated spaces, each completely: " + strings.Join(names, " || ") + ". " +
		"Every request carries its URL's scheme/host/port in its path. Oracle from the per-connection logs after all server goroutines were joined: an https request is decoded only inside an established TLS session (Client: dialled as its own host:port, SNI = its host), its bytes never appear in clear on any dialled connection, raw bytes of a TLS connection start with 0x16 and contain no HTTP/1.1; an http request never arrives inside a TLS session; the SNI of every TLS session equals the host actually dialled, and a verifying client never completes a handshake with (nor delivers a request to) a peer that holds only another host's certificate; " +
		"HostClient answers ErrHostClientRedirectToDifferentScheme for a URL whose scheme differs from IsTLS (directly and after redirects) and writes nothing for it; Client delivers every request exactly once with err=nil, and Client.m / Client.ms hold only host clients of their scheme. " +
		"Non-trivial: the case had both a TLS session and a plaintext connection, or a HostClient refusal")
	r.Assume("crypto/tls and net/http.ReadRequest on the fake server side",
		"for HostClient/LBClient 'its own host' is the configured upstream address (the caller chose it); the URL host is only checked through Client",
		"the harness pipe ignores deadlines; a 60 s watchdog turns a hang into a tool error, never into a verdict")
	W := 64
	for si, s := range spaces {
		var total int64
		var tmu sync.Mutex
		r.Par(W, func(w int) {
			var ct c21Counters
			i, mine := 0, 0
			s.gen(func(cs *c21Case) bool {
				if i%W == w {
					c21Run(r, cs, &ct, mine == 0 && w == 0)
					mine++
					if mine&63 == 0 {
						r.Eval(64)
						ct.flush(r)
						if r.Expired() {
							r.NotExhaustive("time budget reached in space " + s.name)
							return false
						}
					}
				}
				i++
				return true
			})
			r.Eval(mine & 63)
			ct.flush(r)
			tmu.Lock()
			total += int64(mine)
			tmu.Unlock()
		})
		r.Set(fmt.Sprintf("c21_space_%d_cases", si), fmt.Sprintf("%d: %s", total, s.name))
	}
}
