//go:build verif

package fasthttp

// C21 — https requests are never sent over a plaintext connection.
//
// Fake network behind Client.Dial / Client.DialTimeout / HostClient.Dial: every dial returns the client end of an
// in-memory pipe and starts one goroutine for the server end.  The server end sniffs the first byte: 0x16 starts a
// real TLS handshake (crypto/tls, certificate generated once per run), anything else is served as plaintext HTTP.
// Per connection it logs: dialled address, every raw byte the client wrote, whether requests arrived inside a TLS
// session, the SNI, and every request.  Every request carries, in its path, the scheme/host/port of the URL it was
// made for, so the oracle can tell from the logs alone which connection carried which request.  The oracle runs after
// the client calls returned, the client's idle connections were closed and all server goroutines were joined.
//
// Overlapping calls without a scheduler: the harness is called back from every place where the client calls out with no
// lock of its own held - the dial hook, net.Conn.Write / Read / Close of a client end, and Read of a request body stream.
// An op may carry nested ops (In) that are executed re-entrantly, on the calling goroutine, inside one such call-out of the
// op (c21Op.Hook / At: its first dial, its k-th connection write, the first connection read after its k-th write, its k-th
// body-stream read, its k-th connection close).  Nested calls start and finish while the outer call is between two of its
// own steps - e.g. between AcquireWriter and the last flush of its request -, i.e. a LIFO-shaped subset of the
// interleavings of concurrent callers, deterministic and replayable.  Network faults are part of the histories: an op may
// have its k-th connection write (or the first read after it) fail, which breaks the connection.  The idle pools are
// inspected (white box) after every CloseIdle op and after the last op; the writer/reader pools at every call-out.

import (
	"bufio"
	"bytes"
	"crypto/ecdsa"
	"crypto/elliptic"
	"crypto/rand"
	"crypto/tls"
	"crypto/x509"
	"crypto/x509/pkix"
	"encoding/json"
	"fmt"
	"io"
	"math/big"
	"net"
	"net/http"
	"net/url"
	"regexp"
	"sort"
	"strings"
	"sync"
	"sync/atomic"
	"testing"
	"time"

	"github.com/valyala/fasthttp/internal/verif/seqx"
	"github.com/valyala/fasthttp/internal/verif/vrt"
)

// ---------------------------------------------------------------------------------------------------------------
// case description (also the replay artefact)

type c21Target struct{ Scheme, Host, Port string } // Port "" = none spelled

type c21Op struct {
	Build string      // "" = SetRequestURI(full URL); "host+scheme" = Host header + path, then URI().SetScheme
	Via   string      // Do | DoRedirects | CloseIdle (CloseIdleConnections of the client under test; T unused)
	T     c21Target   // the URL requested
	Redir []c21Target // DoRedirects: the server redirects to these in turn
	// In: ops executed re-entrantly while this op is in progress, inside one call-out of the client to the harness:
	// Hook "" (default): Do/DoRedirects - inside the dial hook of the first dial this call makes (before the connection is
	// handed over); CloseIdle - inside the At-th (1-based) net.Conn.Close this call makes on a client end.
	// Hook "write": inside the At-th net.Conn.Write this call makes on a dialled connection (TLS records included),
	// before the fake network has taken the bytes; "read": inside the first net.Conn.Read this call makes after its At-th
	// Write (the call is about to wait for the peer's answer to that write); "body": inside the At-th Read of this
	// call's request body stream; "close": inside the At-th net.Conn.Close this call makes.
	// Not executed when the call never gets there.
	In   []c21Op `json:",omitempty"`
	At   int     `json:",omitempty"`
	Hook string  `json:",omitempty"`
	// Body: "" = GET without body; POST with "small" (fits the write buffer) / "large" (several connection writes) body
	// bytes, or with a body stream: "stream" (chunked, 2 pieces) / "sized" (Content-Length, 2 pieces).
	Body string `json:",omitempty"`
	// Fault: "w<k>": the k-th net.Conn.Write this call makes fails (nothing of it is delivered) and the connection is
	// broken from then on; "r<k>": the first net.Conn.Read after its k-th Write fails likewise (connection reset).
	Fault string `json:",omitempty"`
}

// hookAt: the call-out kind and its 1-based ordinal inside which the nested ops run.
func (o *c21Op) hookAt() (string, int) {
	switch {
	case o.Hook != "":
		return o.Hook, max(o.At, 1)
	case o.Via == "CloseIdle":
		return "close", o.At
	}
	return "dial", 1
}

// c21Flatten numbers the ops of a case in pre-order; the number is the op index used in request tags and results.
func c21Flatten(ops []c21Op, out []*c21Op) []*c21Op {
	for i := range ops {
		out = append(out, &ops[i])
		out = c21Flatten(ops[i].In, out)
	}
	return out
}

func c21OpsString(sb *strings.Builder, ops []c21Op) {
	for i := range ops {
		o := &ops[i]
		nest := func() {
			if len(o.In) == 0 {
				return
			}
			hook, at := o.hookAt()
			switch hook {
			case "dial":
				sb.WriteString("{in dial:")
			case "read":
				fmt.Fprintf(sb, "{in first read after write #%d:", at)
			case "body":
				fmt.Fprintf(sb, "{in body-stream read #%d:", at)
			default:
				fmt.Fprintf(sb, "{in %s #%d:", hook, at)
			}
			c21OpsString(sb, o.In)
			sb.WriteString(" }")
		}
		if o.Via == "CloseIdle" {
			sb.WriteString(" CloseIdle")
			nest()
			continue
		}
		fmt.Fprintf(sb, " %s%s %s://%s", o.Via, map[bool]string{true: "(" + o.Build + ")"}[o.Build != ""], o.T.Scheme, o.T.hostport())
		for _, t := range o.Redir {
			fmt.Fprintf(sb, "=>%s://%s", t.Scheme, t.hostport())
		}
		if o.Body != "" {
			sb.WriteString("[POST " + o.Body + "]")
		}
		if o.Fault != "" {
			sb.WriteString("[fault " + o.Fault + "]")
		}
		nest()
	}
}

type c21Upstream struct {
	Addr  string
	IsTLS bool
}

type c21Case struct {
	Client    string        // Client | HostClient | LBClient
	Hook      string        // Dial | DialTimeout | both
	Verify    string        // skip | roots
	Upstreams []c21Upstream // HostClient: exactly one; LBClient: one HostClient each
	Ops       []c21Op
	Refuse    []string `json:",omitempty"` // dialled addresses the fake network refuses (dial error)
	WrongCert []string `json:",omitempty"` // dialled addresses whose peer holds only the OTHER host's certificate
}

func (t c21Target) hostport() string {
	if t.Port == "" {
		return t.Host
	}
	return t.Host + ":" + t.Port
}

func (t c21Target) https() bool { return strings.EqualFold(t.Scheme, "https") }

// wantAddr is the address a Client has to dial for the target: its own host and port (default port by scheme).
func (t c21Target) wantAddr() string {
	if t.Port != "" {
		return t.Host + ":" + t.Port
	}
	if t.https() {
		return t.Host + ":443"
	}
	return t.Host + ":80"
}

func (t c21Target) tag(op, hop int) string {
	p := t.Port
	if p == "" {
		p = "none"
	}
	return fmt.Sprintf("%d-%d-%s-%s-%s", op, hop, strings.ToLower(t.Scheme), t.Host, p)
}

// c21URLs returns the URL to request for op i and the tags of every hop.
func (o *c21Op) urls(i int) (first string, tags []string) {
	all := append([]c21Target{o.T}, o.Redir...)
	next := ""
	for h := len(all) - 1; h >= 0; h-- {
		t := all[h]
		tg := t.tag(i, h)
		tags = append([]string{tg}, tags...)
		if next == "" {
			next = fmt.Sprintf("%s://%s/t/%s", t.Scheme, t.hostport(), tg)
		} else {
			next = fmt.Sprintf("%s://%s/r/%s?to=%s", t.Scheme, t.hostport(), tg, url.QueryEscape(next))
		}
	}
	return next, tags
}

func c21CaseString(cs *c21Case) string {
	var sb strings.Builder
	fmt.Fprintf(&sb, "%s hook=%s verify=%s", cs.Client, cs.Hook, cs.Verify)
	for _, u := range cs.Upstreams {
		fmt.Fprintf(&sb, " upstream(%s,tls=%v)", u.Addr, u.IsTLS)
	}
	if len(cs.Refuse) > 0 {
		fmt.Fprintf(&sb, " refuse-dial%v", cs.Refuse)
	}
	if len(cs.WrongCert) > 0 {
		fmt.Fprintf(&sb, " peer-with-other-hosts-cert%v", cs.WrongCert)
	}
	c21OpsString(&sb, cs.Ops)
	return sb.String()
}

// ---------------------------------------------------------------------------------------------------------------
// in-memory pipe (buffered, no deadlines) and the fake network

// One mutex and condition variable per connection, shared by its two directions, so that "both ends are waiting for the
// other" can be decided under one lock.
type c21Pipe struct {
	mu   sync.Mutex
	cond *sync.Cond
}

type c21Half struct {
	p       *c21Pipe
	buf     []byte
	closed  bool
	waiting bool // its reader is blocked in Read
}

func c21NewPipe() (*c21Half, *c21Half) {
	p := &c21Pipe{}
	p.cond = sync.NewCond(&p.mu)
	return &c21Half{p: p}, &c21Half{p: p}
}

func (h *c21Half) close() {
	h.p.mu.Lock()
	h.closed = true
	h.p.cond.Broadcast()
	h.p.mu.Unlock()
}

type c21End struct {
	r, w     *c21Half
	rec      *c21ConnRec
	isClient bool
	net      *c21Net
	// clientClosed: Close was called on this client end (by the client under test).  Written and read on the
	// goroutine running the case only (the watchdog's abort does not go through Close).
	clientClosed bool
	broken       bool // client end: an injected fault broke the connection (case goroutine only)
}

// c21NetErr is what the fake network returns for injected faults (timeout=false) and for a stalled read (timeout=true).
type c21NetErr struct {
	what    string
	timeout bool
}

func (e *c21NetErr) Error() string   { return "c21 fake network: " + e.what }
func (e *c21NetErr) Timeout() bool   { return e.timeout }
func (e *c21NetErr) Temporary() bool { return e.timeout }

// event reports a call-out of the client on a client end to the runner (re-entrancy point; nested ops run inside) and
// returns true when a fault is to be injected into this very call.
func (e *c21End) event(kind string) bool {
	return e.isClient && e.net != nil && e.net.onEvent != nil && e.net.onEvent(kind)
}

func (e *c21End) breakConn() {
	e.broken = true
	e.rec.mu.Lock()
	e.rec.Faults++
	e.rec.mu.Unlock()
	e.shut()
}

// hold/unhold bracket the part of a client-end call in which the case goroutine may block (see c21Runner.hold).
func (e *c21End) hold() {
	if e.isClient && e.net != nil && e.net.hold != nil {
		e.net.hold()
	}
}

func (e *c21End) unhold() {
	if e.isClient && e.net != nil && e.net.unhold != nil {
		e.net.unhold()
	}
}

func (e *c21End) Read(p []byte) (int, error) {
	if len(p) == 0 {
		return 0, nil
	}
	if e.isClient {
		if e.broken {
			return 0, &c21NetErr{what: "read on broken connection"}
		}
		if e.event("read") {
			e.breakConn()
			return 0, &c21NetErr{what: "read: connection reset by peer (injected)"}
		}
	}
	e.hold()
	defer e.unhold()
	pp := e.r.p
	pp.mu.Lock()
	defer pp.mu.Unlock()
	for len(e.r.buf) == 0 && !e.r.closed {
		if e.isClient && e.w.waiting && len(e.w.buf) == 0 && !e.w.closed {
			// The peer is itself blocked reading from this connection and everything the client wrote has been consumed:
			// it still waits for (the rest of) a request.  The case goroutine is the only writer of this connection, so
			// nothing can ever arrive: the read deadline of a real connection would expire.  Logical, not wall-clock.
			e.rec.mu.Lock()
			e.rec.Stalled++
			e.rec.mu.Unlock()
			return 0, &c21NetErr{what: "read stalled: the peer still waits for a request on this connection", timeout: true}
		}
		e.r.waiting = true
		pp.cond.Broadcast()
		pp.cond.Wait()
		e.r.waiting = false
	}
	if len(e.r.buf) == 0 {
		return 0, io.EOF
	}
	n := copy(p, e.r.buf)
	e.r.buf = e.r.buf[n:]
	return n, nil
}

func (e *c21End) Write(p []byte) (int, error) {
	if e.isClient {
		if e.broken {
			return 0, &c21NetErr{what: "write on broken connection"}
		}
		// The call-out happens before the bytes are taken: calls nested here run while this Write is in progress and has
		// not consumed its buffer yet (a write blocked on a full socket buffer).
		if e.event("write") {
			e.breakConn()
			return 0, &c21NetErr{what: "write: broken pipe (injected)"}
		}
	}
	e.hold()
	defer e.unhold()
	pp := e.w.p
	pp.mu.Lock()
	defer pp.mu.Unlock()
	if e.w.closed {
		return 0, io.ErrClosedPipe
	}
	e.w.buf = append(e.w.buf, p...)
	if e.isClient {
		e.rec.mu.Lock()
		e.rec.Raw = append(e.rec.Raw, p...)
		e.rec.mu.Unlock()
	}
	pp.cond.Broadcast()
	return len(p), nil
}

func (e *c21End) Close() error {
	if e.isClient && !e.clientClosed {
		e.clientClosed = true
		e.event("close") // re-entrancy point: nested ops of a CloseIdle op (or of a Do op with Hook "close") run here
	}
	e.hold()
	e.shut()
	e.unhold()
	return nil
}

func (e *c21End) shut() {
	e.r.close()
	e.w.close()
}
func (e *c21End) LocalAddr() net.Addr              { return c21Addr("c21-local") }
func (e *c21End) RemoteAddr() net.Addr             { return c21Addr(e.rec.Addr) }
func (e *c21End) SetDeadline(time.Time) error      { return nil }
func (e *c21End) SetReadDeadline(time.Time) error  { return nil }
func (e *c21End) SetWriteDeadline(time.Time) error { return nil }

type c21Addr string

func (a c21Addr) Network() string { return "c21" }
func (a c21Addr) String() string  { return string(a) }

// c21SrvConn lets crypto/tls read through the bufio.Reader that was used for sniffing.
type c21SrvConn struct {
	*c21End
	br *bufio.Reader
}

func (c *c21SrvConn) Read(p []byte) (int, error) { return c.br.Read(p) }

type c21ReqRec struct{ Method, Path, Host, Tag, Body string }

type c21ConnRec struct {
	ID   int
	Addr string
	Hook string
	mu   sync.Mutex
	Raw  []byte // every byte the client wrote on the dialled conn
	TLS  bool   // requests of this conn were decoded inside an established TLS session
	SNI  string
	HSErr string
	Reqs []c21ReqRec
	CertFor string // host name the peer's certificate is valid for
	App     []byte // TLS connections: every byte the peer decrypted inside the session
	Faults  int    // injected faults that broke this connection
	Stalled int    // client reads that could never be satisfied (see c21End.Read)
}

// c21AppLog collects the decrypted bytes of a TLS session.
type c21AppLog struct{ rec *c21ConnRec }

func (a c21AppLog) Write(p []byte) (int, error) {
	a.rec.mu.Lock()
	a.rec.App = append(a.rec.App, p...)
	a.rec.mu.Unlock()
	return len(p), nil
}

type c21Net struct {
	// onEvent is called at every call-out of the client to the fake network on the case goroutine - kind "dial" (dial hook,
	// before a connection is made), "write" / "read" (net.Conn.Write / Read of a client end), "close" (first Close of a
	// client end) - and runs the nested ops due there (re-entrancy point); true = inject a fault into this call.
	onEvent func(kind string) bool
	hold    func() // see c21Runner.hold
	unhold  func()
	refuse    map[string]bool
	wrongCert map[string]bool
	refused   int
	mu      sync.Mutex
	conns   []*c21ConnRec
	ends    []*c21End
	wg      sync.WaitGroup
	aborted bool
}

func c21HostOf(addr string) string {
	if h, _, err := net.SplitHostPort(addr); err == nil {
		return h
	}
	return addr
}

func (n *c21Net) dial(addr, hook string) (net.Conn, error) {
	if n.onEvent != nil {
		n.onEvent("dial")
	}
	if n.hold != nil {
		n.hold()
		defer n.unhold()
	}
	if n.refuse[addr] {
		n.mu.Lock()
		n.refused++
		n.mu.Unlock()
		return nil, &net.OpError{Op: "dial", Net: "c21", Err: fmt.Errorf("connection refused by %s", addr)}
	}
	a, b := c21NewPipe()
	n.mu.Lock()
	rec := &c21ConnRec{ID: len(n.conns) + 1, Addr: addr, Hook: hook, CertFor: c21HostOf(addr)}
	if n.wrongCert[addr] {
		rec.CertFor = map[string]string{"hosta": "hostb", "hostb": "hosta"}[rec.CertFor]
	}
	cl := &c21End{r: a, w: b, rec: rec, isClient: true, net: n}
	sv := &c21End{r: b, w: a, rec: rec, net: n}
	n.conns = append(n.conns, rec)
	n.ends = append(n.ends, cl, sv)
	n.mu.Unlock()
	n.wg.Add(1)
	go n.serve(rec, sv)
	return cl, nil
}

func (n *c21Net) abort() {
	n.mu.Lock()
	n.aborted = true
	ends := append([]*c21End(nil), n.ends...)
	n.mu.Unlock()
	for _, e := range ends {
		e.shut()
	}
}

func (n *c21Net) serve(rec *c21ConnRec, sv *c21End) {
	defer n.wg.Done()
	defer sv.Close()
	br := bufio.NewReader(sv)
	first, err := br.Peek(1)
	if err != nil {
		return
	}
	var w io.Writer = sv
	if first[0] == 0x16 {
		tc := tls.Server(&c21SrvConn{c21End: sv, br: br}, c21SrvCfg[rec.CertFor])
		if err := tc.Handshake(); err != nil {
			rec.mu.Lock()
			rec.HSErr = err.Error()
			rec.mu.Unlock()
			return
		}
		rec.mu.Lock()
		rec.TLS = true
		rec.SNI = tc.ConnectionState().ServerName
		rec.mu.Unlock()
		defer tc.Close()
		br = bufio.NewReader(io.TeeReader(tc, c21AppLog{rec}))
		w = tc
	}
	for {
		hr, err := http.ReadRequest(br)
		if err != nil {
			return
		}
		body, err := io.ReadAll(hr.Body)
		if err != nil {
			return // the request did not arrive completely: not delivered
		}
		rec.mu.Lock()
		rec.Reqs = append(rec.Reqs, c21ReqRec{Method: hr.Method, Path: hr.URL.Path, Host: hr.Host, Tag: hr.Header.Get("X-C21-Tag"), Body: string(body)})
		rec.mu.Unlock()
		var resp string
		if strings.HasPrefix(hr.URL.Path, "/r/") {
			resp = fmt.Sprintf("HTTP/1.1 302 Found\r\nLocation: %s\r\nContent-Length: 0\r\n\r\n", hr.URL.Query().Get("to"))
		} else {
			body := "tag=" + strings.TrimPrefix(hr.URL.Path, "/t/")
			resp = fmt.Sprintf("HTTP/1.1 200 OK\r\nContent-Length: %d\r\n\r\n%s", len(body), body)
		}
		if _, err := io.WriteString(w, resp); err != nil {
			return
		}
	}
}

var (
	c21Once   sync.Once
	c21SrvCfg = map[string]*tls.Config{} // host name -> server config holding only that host's certificate
	c21Roots  *x509.CertPool
	c21CertEr error
)

// c21InitCert makes one self-signed certificate per host name; the client's RootCAs pool holds both.
func c21InitCert() error {
	c21Once.Do(func() {
		c21Roots = x509.NewCertPool()
		for i, host := range []string{"hosta", "hostb"} {
			priv, err := ecdsa.GenerateKey(elliptic.P256(), rand.Reader)
			if err != nil {
				c21CertEr = err
				return
			}
			tmpl := &x509.Certificate{
				SerialNumber: big.NewInt(int64(21 + i)), Subject: pkix.Name{Organization: []string{"verif C21 " + host}},
				NotBefore: time.Now().Add(-time.Hour), NotAfter: time.Now().Add(48 * time.Hour),
				KeyUsage: x509.KeyUsageCertSign | x509.KeyUsageDigitalSignature, ExtKeyUsage: []x509.ExtKeyUsage{x509.ExtKeyUsageServerAuth},
				DNSNames: []string{host}, BasicConstraintsValid: true, IsCA: true,
			}
			der, err := x509.CreateCertificate(rand.Reader, tmpl, tmpl, &priv.PublicKey, priv)
			if err != nil {
				c21CertEr = err
				return
			}
			leaf, err := x509.ParseCertificate(der)
			if err != nil {
				c21CertEr = err
				return
			}
			c21Roots.AddCert(leaf)
			c21SrvCfg[host] = &tls.Config{Certificates: []tls.Certificate{{Certificate: [][]byte{der}, PrivateKey: priv, Leaf: leaf}}}
		}
	})
	return c21CertEr
}

// ---------------------------------------------------------------------------------------------------------------
// running and judging one case

type c21Counters struct {
	cases, tlsSessions, plainConns, httpsDelivered, httpDelivered, refusals, lbRefusals, crossSchemeRedirects int64
	reuses, bothSchemesSameAddr, hsFailed, dialHook, dialTimeoutHook, mapEntries                            int64
	failoverOK, failoverErr, wrongCertConns, wrongCertRejected, refusedDials                                int64
	nestedRun, closeIdle, closeFired, poolEntries, leftOpen, blocked                                        int64
	inDial, inWrite, inRead, inBody, inClose, writeFaults, readFaults, faultOpsOK, faultOpsErr, bodiesChecked int64
	markers, pooledSeen, overlapInWritePhase                                                                int64
}

var c21MaxIdle atomic.Int64 // largest idle pool seen by the white-box inspection


func (c *c21Counters) flush(r *vrt.R) {
	for k, v := range map[string]int64{
		"c21_cases": c.cases, "c21_tls_sessions_established": c.tlsSessions, "c21_plaintext_connections": c.plainConns,
		"c21_https_requests_delivered_inside_tls": c.httpsDelivered, "c21_http_requests_delivered_in_plaintext": c.httpDelivered,
		"c21_hostclient_scheme_refusals_checked": c.refusals, "c21_lbclient_scheme_refusals_seen": c.lbRefusals,
		"c21_redirects_crossing_scheme_followed_or_refused": c.crossSchemeRedirects, "c21_requests_on_reused_connection": c.reuses,
		"c21_cases_with_same_hostport_used_for_both_schemes": c.bothSchemesSameAddr, "c21_tls_handshakes_failed": c.hsFailed,
		"c21_fault_cases_calls_succeeded_after_failover": c.failoverOK, "c21_fault_cases_calls_failed": c.failoverErr,
		"c21_conns_to_peer_with_other_hosts_certificate": c.wrongCertConns, "c21_handshakes_rejected_for_other_hosts_certificate": c.wrongCertRejected,
		"c21_dials_refused_by_fake_network": c.refusedDials,
		"c21_ops_executed_reentrantly_inside_dial_or_close": c.nestedRun, "c21_closeidle_ops": c.closeIdle,
		"c21_closeidle_ops_with_calls_completing_inside_a_close": c.closeFired, "c21_idle_pool_entries_inspected": c.poolEntries,
		"c21_conns_not_closed_by_client_at_end": c.leftOpen,
		"c21_nested_ops_not_started_because_they_would_wait_for_Client_mLock": c.blocked,
		"c21_nested_op_groups_run_inside_a_dial": c.inDial, "c21_nested_op_groups_run_inside_a_conn_write": c.inWrite,
		"c21_nested_op_groups_run_inside_a_conn_read": c.inRead, "c21_nested_op_groups_run_inside_a_body_stream_read": c.inBody,
		"c21_nested_op_groups_run_inside_a_conn_close": c.inClose, "c21_write_faults_injected": c.writeFaults, "c21_read_faults_injected": c.readFaults,
		"c21_faulted_calls_succeeded_after_retry": c.faultOpsOK, "c21_faulted_calls_failed": c.faultOpsErr,
		"c21_delivered_request_bodies_compared": c.bodiesChecked, "c21_request_markers_attributed_to_connections": c.markers,
		"c21_pooled_writers_readers_inspected": c.pooledSeen,
		"c21_cases_with_calls_nested_between_AcquireWriter_and_last_flush_after_a_write_fault": c.overlapInWritePhase,
		"c21_dials_via_Dial": c.dialHook, "c21_dials_via_DialTimeout": c.dialTimeoutHook, "c21_client_map_entries_checked": c.mapEntries,
	} {
		if v != 0 {
			r.Add(k, v)
		}
	}
	*c = c21Counters{}
}

type c21OpResult struct {
	err      error
	status   int
	body     string
	executed bool   // false: the op was never started (its parent never reached the hook, or the case was stopped)
	faulted  string // non-empty: the op's fault was injected ("write" / "read")
	panicked string // non-empty: the client call panicked
}

type c21PoolViol struct{ sig, what string }

type c21Frame struct {
	idx       int
	op        *c21Op
	fired     bool
	faulted   bool
	dials     int
	writes    int
	closes    int
	bodyReads int
	readSeen  bool // a conn Read was seen since the last conn Write
}

type c21Doer interface {
	Do(req *Request, resp *Response) error
}

type c21RedirDoer interface {
	DoRedirects(req *Request, resp *Response, max int) error
}

// c21Runner executes the op tree of one case on one goroutine.
type c21Runner struct {
	cs    *c21Case
	n     *c21Net
	flat  []*c21Op
	idx   map[*c21Op]int
	res   []c21OpResult
	stack []*c21Frame
	d     c21Doer
	cl    *Client
	hcs   []*HostClient
	bad   string
	// stop: a pool entry was found corrupted; the offending entries were taken out of the pool and no further op is
	// started (the state no longer is one the client produced by itself).
	stop        bool
	pool        []c21PoolViol
	poolEntries int64
	nestedRun   int64
	closeIdle   int64
	closeFired  int64
	maxIdle     int
	blocked     int64
	hookFired   map[string]int64
	pools       []*c21BufPool
	held        [][]any
	holdDepth   int
	pooledSeen  int64
}

func (rn *c21Runner) top() *c21Frame {
	if len(rn.stack) == 0 {
		return nil
	}
	return rn.stack[len(rn.stack)-1]
}

// event: the client called out to the harness (kind dial | write | read | close | body) while the op on top of the stack is
// in progress.  Runs the nested ops due at this call-out and tells whether the op's fault is due in this very call.
func (rn *c21Runner) event(kind string) (fault bool) {
	f := rn.top()
	if f == nil {
		return false
	}
	k := 0
	switch kind {
	case "dial":
		f.dials++
		k = f.dials
	case "write":
		f.writes++
		f.readSeen = false
		k = f.writes
	case "read":
		if f.readSeen || f.writes == 0 {
			return false // only the first Read after a Write is a numbered call-out (later ones depend on how the peer's bytes are cut)
		}
		f.readSeen = true
		k = f.writes
	case "close":
		f.closes++
		k = f.closes
	case "body":
		f.bodyReads++
		k = f.bodyReads
	}
	if hook, at := f.op.hookAt(); !f.fired && len(f.op.In) > 0 && kind == hook && k == at {
		f.fired = true
		if f.op.Via == "CloseIdle" {
			rn.closeFired++
		}
		rn.hookFired[kind]++
		rn.execAll(f.op.In, true)
	}
	if !f.faulted && f.op.Fault != "" && (kind == "write" || kind == "read") && f.op.Fault == fmt.Sprintf("%c%d", kind[0], k) {
		f.faulted = true
		rn.res[f.idx].faulted = kind
		return true
	}
	return false
}

// hold / unhold bracket every stretch in which the case goroutine may block inside the fake network (pipe mutex, waiting
// for the peer).  sync.Pool is sharded per P and a goroutine that blocks may continue on another P, where Get does not
// see what it Put before: which writer/reader a request gets from the Client's (HostClient's) pool would then depend on
// the Go scheduler.  hold takes everything out of these pools, unhold puts it back (on the P the goroutine now runs on),
// so between two call-outs Get returns a pooled object whenever there is one - one of the behaviours sync.Pool allows,
// chosen the same way in every run.  While the objects are out, they are inspected (white box): a pool must not hold the
// same object twice.
func (rn *c21Runner) hold() {
	rn.holdDepth++
	if rn.holdDepth > 1 {
		return
	}
	for i, p := range rn.pools {
		seen := map[any]bool{}
		for len(rn.held[i]) < 256 {
			v := p.pool.Get()
			if v == nil {
				break
			}
			rn.held[i] = append(rn.held[i], v)
			if seen[v] && !p.reported {
				p.reported = true
				rn.pool = append(rn.pool, c21PoolViol{p.kind + "-pool-holds-one-" + p.kind + "-twice:" + strings.ToLower(rn.cs.Client),
					fmt.Sprintf("during op %d: the %s pool of %s holds the same %T twice: two requests in progress at the same time get the same buffer (AcquireWriter re-points it to the second request's connection while the first is still using it)", rn.curOp(), p.kind, p.owner, v)})
			}
			seen[v] = true
		}
		rn.pooledSeen += int64(len(rn.held[i]))
	}
}

func (rn *c21Runner) unhold() {
	rn.holdDepth--
	if rn.holdDepth > 0 {
		return
	}
	for i, p := range rn.pools {
		for _, v := range rn.held[i] {
			p.pool.Put(v)
		}
		rn.held[i] = rn.held[i][:0]
	}
}

func (rn *c21Runner) curOp() int {
	if f := rn.top(); f != nil {
		return f.idx
	}
	return -1
}

type c21BufPool struct {
	pool     *sync.Pool
	kind     string // writer | reader
	owner    string
	reported bool
}

func (rn *c21Runner) addPools(owner string, w, r *sync.Pool) {
	rn.pools = append(rn.pools, &c21BufPool{pool: w, kind: "writer", owner: owner}, &c21BufPool{pool: r, kind: "reader", owner: owner})
	rn.held = append(rn.held, nil, nil)
}

// c21BodyStream is a request body stream: every Read is a call-out of the client (kind "body").
type c21BodyStream struct {
	rn     *c21Runner
	pieces []string
}

func (b *c21BodyStream) Read(p []byte) (int, error) {
	b.rn.event("body")
	if len(b.pieces) == 0 {
		return 0, io.EOF
	}
	n := copy(p, b.pieces[0])
	if n < len(b.pieces[0]) {
		b.pieces[0] = b.pieces[0][n:]
	} else {
		b.pieces = b.pieces[1:]
	}
	return n, nil
}

// c21BodyPieces: what a request with the given body kind carries: every piece is made of "body=<tag>;" markers.
func c21BodyPieces(tag, kind string) []string {
	m := "body=" + tag + ";"
	switch kind {
	case "small":
		return []string{strings.Repeat(m, 3)}
	case "large":
		return []string{strings.Repeat(m, 6000/len(m)+1)}
	case "stream", "sized":
		return []string{strings.Repeat(m, 3), strings.Repeat(m, 2)}
	}
	return nil
}

func (rn *c21Runner) execAll(ops []c21Op, nested bool) {
	for i := range ops {
		if rn.stop || rn.bad != "" {
			return
		}
		before := rn.blocked
		rn.exec(&ops[i])
		if nested && rn.blocked == before {
			rn.nestedRun++
		}
	}
}

// blockedByClientLock: the op would need a host client that does not exist yet while Client.CloseIdleConnections (which
// holds Client.mLock for reading) is in progress below it.  A concurrent caller would wait for the write lock until
// CloseIdleConnections has returned, so the call cannot start AND finish inside one of its connection closes; as a nested
// call on the same goroutine it would deadlock.  Such an op is not started.
func (rn *c21Runner) blockedByClientLock(op *c21Op) bool {
	if rn.cl == nil || op.Via == "CloseIdle" {
		return false
	}
	inside := false
	for _, f := range rn.stack {
		if f.op.Via == "CloseIdle" {
			inside = true
		}
	}
	if !inside {
		return false
	}
	rn.cl.mLock.RLock()
	defer rn.cl.mLock.RUnlock()
	for _, t := range append([]c21Target{op.T}, op.Redir...) {
		m := rn.cl.m
		if t.https() {
			m = rn.cl.ms
		}
		if m[strings.ToLower(t.hostport())] == nil {
			return true
		}
	}
	return false
}

func (rn *c21Runner) exec(op *c21Op) {
	i := rn.idx[op]
	if rn.blockedByClientLock(op) {
		rn.blocked++
		return
	}
	rn.res[i].executed = true
	rn.stack = append(rn.stack, &c21Frame{idx: i, op: op})
	depth := len(rn.stack)
	defer func() {
		rn.stack = rn.stack[:depth-1]
		if p := recover(); p != nil {
			rn.res[i].panicked = fmt.Sprint(p)
		}
	}()
	if op.Via == "CloseIdle" {
		rn.closeIdle++
		if rn.cl != nil {
			rn.cl.CloseIdleConnections()
		}
		for _, h := range rn.hcs {
			h.CloseIdleConnections()
		}
		rn.poolCheck(fmt.Sprintf("after op %d (CloseIdleConnections) returned", i))
		return
	}
	u, tags := op.urls(i)
	req, resp := AcquireRequest(), AcquireResponse()
	if op.Build == "host+scheme" {
		pu, e := url.Parse(u)
		if e != nil {
			rn.bad = "url.Parse: " + e.Error()
			return
		}
		req.Header.SetHost(pu.Host)
		req.SetRequestURI(pu.RequestURI())
		req.URI().SetScheme(pu.Scheme)
	} else {
		req.SetRequestURI(u)
	}
	if op.Via == "Do" {
		req.Header.Set("X-C21-Tag", "hdr="+tags[0])
	}
	switch op.Body {
	case "":
	case "small", "large":
		req.Header.SetMethod(MethodPost)
		req.SetBodyRaw([]byte(c21BodyPieces(tags[0], op.Body)[0]))
	case "stream", "sized":
		req.Header.SetMethod(MethodPost)
		bs := &c21BodyStream{rn: rn, pieces: c21BodyPieces(tags[0], op.Body)}
		size := -1
		if op.Body == "sized" {
			size = len(strings.Join(bs.pieces, ""))
		}
		req.SetBodyStream(bs, size)
	default:
		rn.bad = "unknown body kind " + op.Body
		return
	}
	var err error
	switch op.Via {
	case "Do":
		err = rn.d.Do(req, resp)
	case "DoRedirects":
		rd, ok := rn.d.(c21RedirDoer)
		if !ok {
			rn.bad = rn.cs.Client + " has no DoRedirects"
			return
		}
		err = rd.DoRedirects(req, resp, 5)
	default:
		rn.bad = "unknown via " + op.Via
		return
	}
	rn.res[i].err, rn.res[i].status, rn.res[i].body = err, resp.StatusCode(), string(resp.Body())
	ReleaseRequest(req)
	ReleaseResponse(resp)
}

// c21Unwrap returns the fake network's client end under a pooled connection and whether it is wrapped in TLS.
func c21Unwrap(c net.Conn) (*c21End, bool) {
	switch x := c.(type) {
	case *c21End:
		return x, false
	case *tls.Conn:
		e, _ := x.NetConn().(*c21End)
		return e, true
	}
	return nil, false
}

func (rn *c21Runner) hostClients() []*HostClient {
	hcs := append([]*HostClient(nil), rn.hcs...)
	if rn.cl != nil {
		// (read lock; taken recursively when called below Client.CloseIdleConnections - no writer exists while a case runs
		// except Client.mCleaner, which first wakes up 10 s after the Client was made)
		rn.cl.mLock.RLock()
		for _, k := range c21SortedKeys(rn.cl.m) {
			hcs = append(hcs, rn.cl.m[k])
		}
		for _, k := range c21SortedKeys(rn.cl.ms) {
			hcs = append(hcs, rn.cl.ms[k])
		}
		rn.cl.mLock.RUnlock()
	}
	return hcs
}

func c21SortedKeys(m map[string]*HostClient) []string {
	ks := make([]string, 0, len(m))
	for k := range m {
		ks = append(ks, k)
	}
	sort.Strings(ks)
	return ks
}

// poolCheck (white box): the idle pool of a HostClient - the connections its next request may be written to - holds only
// distinct, open connections which this HostClient dialled itself: to one of its own addresses, TLS iff IsTLS.
func (rn *c21Runner) poolCheck(when string) {
	seen := map[*clientConn]*HostClient{}
	seenEnd := map[*c21End]bool{}
	for _, hc := range rn.hostClients() {
		own := map[string]bool{}
		for _, a := range strings.Split(hc.Addr, ",") {
			own[a] = true
		}
		scheme := map[bool]string{false: "http", true: "https"}[hc.IsTLS]
		hc.connsLock.Lock()
		if len(hc.conns) > rn.maxIdle {
			rn.maxIdle = len(hc.conns)
		}
		var keep []*clientConn
		for k, cc := range hc.conns {
			rn.poolEntries++
			why, detail := "", ""
			if cc == nil {
				why, detail = "nil-entry", "the entry is nil"
			} else if seen[cc] != nil {
				why, detail = "entry-pooled-twice", fmt.Sprintf("the same clientConn is also entry of the pool of HostClient{Addr:%q IsTLS:%v}", seen[cc].Addr, seen[cc].IsTLS)
			} else if cc.c == nil {
				why, detail = "released-struct-still-pooled", "the entry's clientConn holds no connection: it was reset (handed to the process-wide free list, from which the next dial of ANY HostClient takes it) while still pooled here"
			} else if e, isTLS := c21Unwrap(cc.c); e == nil || e.net != rn.n {
				why, detail = "released-struct-still-pooled", fmt.Sprintf("the entry's clientConn holds a connection this client never dialled (%T): the struct went through the process-wide free list while still pooled here", cc.c)
			} else if seenEnd[e] {
				why, detail = "entry-pooled-twice", fmt.Sprintf("connection %d is pooled twice", e.rec.ID)
			} else if !own[e.rec.Addr] {
				why, detail = "conn-to-other-address", fmt.Sprintf("connection %d was dialled as %s", e.rec.ID, e.rec.Addr)
			} else if isTLS != hc.IsTLS {
				why, detail = "conn-of-other-scheme", fmt.Sprintf("connection %d to %s is TLS-wrapped=%v", e.rec.ID, e.rec.Addr, isTLS)
			} else if e.clientClosed {
				why, detail = "closed-conn-still-pooled", fmt.Sprintf("connection %d to %s was closed by the client", e.rec.ID, e.rec.Addr)
			} else {
				seenEnd[e] = true
			}
			if cc != nil {
				seen[cc] = hc
			}
			if why == "" {
				keep = append(keep, cc)
				continue
			}
			rn.pool = append(rn.pool, c21PoolViol{"idle-pool-entry:" + why + ":" + scheme + ":" + strings.ToLower(rn.cs.Client),
				fmt.Sprintf("%s: idle pool of HostClient{Addr:%q IsTLS:%v}, entry %d of %d: %s", when, hc.Addr, hc.IsTLS, k, len(hc.conns), detail)})
		}
		if len(keep) != len(hc.conns) {
			rn.stop = true
			for k := range hc.conns {
				hc.conns[k] = nil
			}
			hc.conns = append(hc.conns[:0], keep...)
		}
		hc.connsLock.Unlock()
	}
}

func c21Exec(cs *c21Case, n *c21Net) *c21Runner {
	rn := &c21Runner{cs: cs, n: n, idx: map[*c21Op]int{}, hookFired: map[string]int64{}}
	rn.flat = c21Flatten(cs.Ops, nil)
	for i, o := range rn.flat {
		rn.idx[o] = i
	}
	rn.res = make([]c21OpResult, len(rn.flat))
	tcfg := &tls.Config{InsecureSkipVerify: true}
	if cs.Verify == "roots" {
		tcfg = &tls.Config{RootCAs: c21Roots}
	}
	var dial DialFunc
	var dialT DialFuncWithTimeout
	if cs.Hook == "Dial" || cs.Hook == "both" {
		dial = func(a string) (net.Conn, error) { return n.dial(a, "Dial") }
	}
	if cs.Hook == "DialTimeout" || cs.Hook == "both" {
		dialT = func(a string, _ time.Duration) (net.Conn, error) { return n.dial(a, "DialTimeout") }
	}
	switch cs.Client {
	case "Client":
		rn.cl = &Client{Dial: dial, DialTimeout: dialT, TLSConfig: tcfg, MaxIdleConnDuration: time.Minute}
		rn.d = rn.cl
		rn.addPools("the Client (shared by all its host clients, http and https)", &rn.cl.writerPool, &rn.cl.readerPool)
	case "HostClient", "LBClient":
		for _, u := range cs.Upstreams {
			hc := &HostClient{Addr: u.Addr, IsTLS: u.IsTLS, Dial: dial, DialTimeout: dialT, TLSConfig: tcfg, MaxIdleConnDuration: time.Minute}
			rn.hcs = append(rn.hcs, hc)
			rn.addPools(fmt.Sprintf("HostClient{Addr:%q IsTLS:%v}", u.Addr, u.IsTLS), &hc.writerPool, &hc.readerPool)
		}
		if cs.Client == "HostClient" {
			if len(rn.hcs) != 1 {
				rn.bad = "HostClient case needs one upstream"
				return rn
			}
			rn.d = rn.hcs[0]
		} else {
			lb := &LBClient{Timeout: time.Minute}
			for _, h := range rn.hcs {
				lb.Clients = append(lb.Clients, h)
			}
			rn.d = lb
		}
	default:
		rn.bad = "unknown client kind " + cs.Client
		return rn
	}
	n.onEvent, n.hold, n.unhold = rn.event, rn.hold, rn.unhold
	rn.execAll(cs.Ops, false)
	if rn.bad != "" {
		return rn
	}
	if !rn.stop {
		rn.poolCheck("after the last op")
	}
	if rn.cl != nil {
		rn.cl.CloseIdleConnections()
	}
	for _, h := range rn.hcs {
		h.CloseIdleConnections()
	}
	return rn
}

func c21ErrClass(err error) string {
	switch {
	case err == nil:
		return "nil"
	case err == ErrHostClientRedirectToDifferentScheme:
		return "ErrHostClientRedirectToDifferentScheme"
	case err == ErrTooManyRedirects:
		return "ErrTooManyRedirects"
	case err == ErrTimeout:
		return "ErrTimeout"
	case err == ErrConnectionClosed:
		return "ErrConnectionClosed"
	case strings.Contains(err.Error(), "tls:"):
		return "tls-error"
	}
	return "other-error"
}

// c21ClearHTTPS matches the request line of a request made for an https URL (the tag of a redirect *target* inside a
// ?to= query is percent-encoded differently and does not match).
var c21ClearHTTPS = regexp.MustCompile(`[A-Z]+ /[tr]/[0-9]+-[0-9]+-https-`)

// c21Marker matches the three places where a request names the URL it was made for: its request line, its X-C21-Tag
// header ("hdr=<tag>", Do ops only) and every piece of its body ("body=<tag>;").  Groups: 1 = "hdr"/"body" or empty for
// the request line, 2 = tag, 3 = scheme, 4 = host, 5 = port.
var c21Marker = regexp.MustCompile(`(?:[A-Z]+ /[tr]/|(hdr|body)=)([0-9]+-[0-9]+-(https?)-(host[ab])-(none|[0-9]+))[;\r ?]`)

type c21Mark struct {
	part string // request-line | header | body
	tag  string
	t    c21Target
}

// c21Marks returns the distinct (part, tag) markers in a clear-text byte stream.
func c21Marks(b []byte) []c21Mark {
	var out []c21Mark
	seen := map[string]bool{}
	for _, m := range c21Marker.FindAllSubmatch(b, -1) {
		part := map[string]string{"": "request-line", "hdr": "header", "body": "body"}[string(m[1])]
		if k := part + " " + string(m[2]); !seen[k] {
			seen[k] = true
			t := c21Target{Scheme: string(m[3]), Host: string(m[4]), Port: string(m[5])}
			if t.Port == "none" {
				t.Port = ""
			}
			out = append(out, c21Mark{part, string(m[2]), t})
		}
	}
	return out
}

func c21Run(r *vrt.R, cs *c21Case, ct *c21Counters, sample bool) {
	n := &c21Net{refuse: map[string]bool{}, wrongCert: map[string]bool{}}
	for _, a := range cs.Refuse {
		n.refuse[a] = true
	}
	for _, a := range cs.WrongCert {
		n.wrongCert[a] = true
	}
	faulty := len(cs.Refuse)+len(cs.WrongCert) > 0
	wd := time.AfterFunc(60*time.Second, n.abort)
	rn := c21Exec(cs, n)
	res, cl, flat := rn.res, rn.cl, rn.flat
	if rn.bad != "" {
		wd.Stop()
		n.abort()
		r.ToolError("c21: %s", rn.bad)
		return
	}
	// connections the client did not close (none on a healthy client: its idle connections were just closed) are shut
	// by the harness so that their server goroutines finish
	n.mu.Lock()
	for _, e := range n.ends {
		if e.isClient && !e.clientClosed {
			ct.leftOpen++
			e.shut()
		}
	}
	n.mu.Unlock()
	n.wg.Wait() // every server goroutine has finished: the logs are final
	wd.Stop()
	if n.aborted {
		r.ToolError("c21: case did not finish within 60 s (harness pipe deadlock?): %s", c21CaseString(cs))
		return
	}
	ct.cases++
	ct.nestedRun += rn.nestedRun
	ct.closeIdle += rn.closeIdle
	ct.blocked += rn.blocked
	ct.closeFired += rn.closeFired
	ct.poolEntries += rn.poolEntries
	ct.pooledSeen += rn.pooledSeen
	ct.inDial += rn.hookFired["dial"]
	ct.inWrite += rn.hookFired["write"]
	ct.inRead += rn.hookFired["read"]
	ct.inBody += rn.hookFired["body"]
	ct.inClose += rn.hookFired["close"]
	for m := int64(rn.maxIdle); ; {
		old := c21MaxIdle.Load()
		if m <= old || c21MaxIdle.CompareAndSwap(old, m) {
			break
		}
	}
	viol := func(sig, what string) {
		cp := *cs
		r.Violation(sig, what+" | case "+c21CaseString(cs)+" | "+c21Summary(n, res), cp)
	}
	for _, pv := range rn.pool {
		viol(pv.sig, pv.what)
	}
	isClient := cs.Client == "Client"
	upAddr := map[string]bool{}
	for _, u := range cs.Upstreams {
		for _, a := range strings.Split(u.Addr, ",") {
			upAddr[a] = true
		}
	}

	// what the statement expects per op
	type hopExp struct {
		tag     string
		t       c21Target
		refused bool // must not be written anywhere
		skipped bool // the op was never started
		faulted bool // a fault was injected into the op: it may fail, or be retried and arrive more than once
	}
	bodyOf := map[string]string{} // tag -> body the request was given
	anyWriteFault, writePhaseOverlap := false, false
	var exps []hopExp
	anyRefusal := false
	mixed := map[string]int{}
	for i, op := range flat {
		if op.Via == "CloseIdle" {
			continue
		}
		rs := res[i]
		_, tags := op.urls(i)
		all := append([]c21Target{op.T}, op.Redir...)
		if rs.panicked != "" {
			viol("client-call-panicked:"+strings.ToLower(cs.Client), fmt.Sprintf("op %d (%s %s://%s) panicked: %s", i, op.Via, op.T.Scheme, op.T.hostport(), rs.panicked))
		}
		if !rs.executed || rs.panicked != "" || (rn.stop && rs.err != nil) {
			// never started (hook not reached / case stopped after a corrupted pool entry was found), or cut short
			for h, t := range all {
				exps = append(exps, hopExp{tags[h], t, false, true, false})
			}
			continue
		}
		for h, tg := range tags {
			bodyOf[tg] = ""
			if h == 0 {
				bodyOf[tg] = strings.Join(c21BodyPieces(tg, op.Body), "")
			}
		}
		switch rs.faulted {
		case "write":
			ct.writeFaults++
			anyWriteFault = true
		case "read":
			ct.readFaults++
		}
		if hook, _ := op.hookAt(); anyWriteFault && rs.faulted == "" && len(op.In) > 0 && (hook == "write" || hook == "body") {
			for j := i + 1; j < len(flat) && j <= i+len(c21Flatten(op.In, nil)); j++ {
				if res[j].executed {
					writePhaseOverlap = true
				}
			}
		}
		refusedFrom := -1
		for h, t := range all {
			if h > 0 && all[h-1].https() != t.https() {
				ct.crossSchemeRedirects++
			}
			if cs.Client == "HostClient" && refusedFrom < 0 && t.https() != cs.Upstreams[0].IsTLS {
				refusedFrom = h
			}
			exps = append(exps, hopExp{tags[h], t, refusedFrom >= 0, false, rs.faulted != ""})
			if t.https() {
				mixed[t.wantAddr()] |= 2
			} else {
				mixed[t.wantAddr()] |= 1
			}
		}
		switch cs.Client {
		case "Client":
			if rs.faulted != "" {
				// the network failed this call: it may fail (it does unless the request is idempotent and retried)
				if rs.err != nil {
					ct.faultOpsErr++
				} else if want := "tag=" + tags[len(tags)-1]; rs.status != 200 || rs.body != want {
					viol("client-got-other-response", fmt.Sprintf("op %d: status %d body %q, want 200 %q", i, rs.status, rs.body, want))
				} else {
					ct.faultOpsOK++
				}
			} else if rs.err != nil {
				viol("client-call-failed:"+c21ErrClass(rs.err), fmt.Sprintf("op %d through Client failed on a network that always answers: %v", i, rs.err))
			} else if want := "tag=" + tags[len(tags)-1]; rs.status != 200 || rs.body != want {
				viol("client-got-other-response", fmt.Sprintf("op %d: status %d body %q, want 200 %q", i, rs.status, rs.body, want))
			}
		case "HostClient":
			if refusedFrom >= 0 {
				ct.refusals++
				anyRefusal = true
				how := "direct"
				if refusedFrom > 0 {
					how = "after-redirect"
				}
				if rs.err != ErrHostClientRedirectToDifferentScheme {
					viol(fmt.Sprintf("hostclient-tls-%v-did-not-refuse-%s-%s:%s", cs.Upstreams[0].IsTLS, strings.ToLower(all[refusedFrom].Scheme), how, c21ErrClass(rs.err)),
						fmt.Sprintf("op %d: HostClient{IsTLS:%v} got a %s URL (%s), error is %v", i, cs.Upstreams[0].IsTLS, all[refusedFrom].Scheme, how, rs.err))
				}
			} else if rs.err != nil && !faulty && rs.faulted == "" {
				viol("hostclient-call-failed:"+c21ErrClass(rs.err), fmt.Sprintf("op %d with matching scheme failed: %v", i, rs.err))
			} else if rs.err == nil && faulty {
				ct.failoverOK++
			} else if faulty {
				ct.failoverErr++
			}
		case "LBClient":
			if rs.err == ErrHostClientRedirectToDifferentScheme {
				ct.lbRefusals++
			} else if rs.err != nil && rs.faulted == "" {
				viol("lbclient-call-failed:"+c21ErrClass(rs.err), fmt.Sprintf("op %d failed: %v", i, rs.err))
			}
		}
	}
	for _, m := range mixed {
		if m == 3 {
			ct.bothSchemesSameAddr++
			break
		}
	}

	// per connection logs
	ct.refusedDials += int64(n.refused)
	delivered := map[string]int{}
	sawTLS, sawPlain := false, false
	for _, c := range n.conns {
		c.mu.Lock()
		switch c.Hook {
		case "Dial":
			ct.dialHook++
		case "DialTimeout":
			ct.dialTimeoutHook++
		}
		if cs.Hook == "both" && c.Hook != "DialTimeout" {
			viol("dial-used-although-dialtimeout-set", "harness expectation: DialTimeout has precedence")
		}
		if c.HSErr != "" {
			ct.hsFailed++
		}
		if c.TLS {
			ct.tlsSessions++
			sawTLS = true
		} else if len(c.Reqs) > 0 {
			ct.plainConns++
			sawPlain = true
		}
		if len(c.Reqs) > 1 {
			ct.reuses += int64(len(c.Reqs) - 1)
		}
		// raw bytes: no https request may be visible in clear on any dialled connection
		if c21ClearHTTPS.Match(c.Raw) {
			viol("https-request-bytes-in-clear-on-wire:"+strings.ToLower(cs.Client), fmt.Sprintf("conn %d to %s carries an https request in clear: %q", c.ID, c.Addr, c21Clip(c.Raw)))
		}
		if c.TLS && (len(c.Raw) == 0 || c.Raw[0] != 0x16 || bytes.Contains(c.Raw, []byte("HTTP/1.1"))) {
			viol("tls-conn-with-cleartext-http", fmt.Sprintf("conn %d to %s: raw bytes %q", c.ID, c.Addr, c21Clip(c.Raw)))
		}
		// Every piece of every request (request line, header, body pieces) names its URL: whatever shows up in the bytes of
		// a connection - in clear on the wire, or decrypted inside its TLS session - must have been made for this very
		// connection's scheme (and, through Client, address).
		for _, m := range c21Marks(c.Raw) {
			ct.markers++
			if m.t.https() && m.part != "request-line" { // (the request line is judged above, keeping its class name)
				viol("https-request-"+m.part+"-in-clear-on-wire:"+strings.ToLower(cs.Client), fmt.Sprintf("conn %d to %s (tls session=%v) carries the %s of https request %s in clear: %q", c.ID, c.Addr, c.TLS, m.part, m.tag, c21Around(c.Raw, m.tag)))
			} else if isClient && !m.t.https() && c.Addr != m.t.wantAddr() {
				viol("http-request-"+m.part+"-on-conn-to-other-address", fmt.Sprintf("conn %d dialled as %s carries the %s of request %s (for %s): %q", c.ID, c.Addr, m.part, m.tag, m.t.wantAddr(), c21Around(c.Raw, m.tag)))
			}
		}
		for _, m := range c21Marks(c.App) {
			ct.markers++
			if !m.t.https() {
				viol("http-request-"+m.part+"-inside-tls-session:"+strings.ToLower(cs.Client), fmt.Sprintf("the %s of http request %s was written into the TLS session of conn %d to %s: %q", m.part, m.tag, c.ID, c.Addr, c21Around(c.App, m.tag)))
			} else if isClient && (c.Addr != m.t.wantAddr() || c.SNI != m.t.Host) {
				viol("https-request-"+m.part+"-in-tls-session-for-other-address", fmt.Sprintf("the %s of request %s (for %s) was written into the TLS session of conn %d to %s, SNI %q", m.part, m.tag, m.t.wantAddr(), c.ID, c.Addr, c.SNI))
			}
		}
		if c.Stalled > 0 {
			kind := map[bool]string{false: "plaintext", true: "tls"}[len(c.Raw) > 0 && c.Raw[0] == 0x16]
			viol("client-awaits-response-on-conn-whose-peer-still-awaits-the-request:"+kind+":"+strings.ToLower(cs.Client),
				fmt.Sprintf("conn %d to %s: the client waited for a response although the peer had not received a complete request on this connection (%d bytes written to it in all; a real connection would sit there until the read deadline): (part of) the request was not written to its own connection", c.ID, c.Addr, len(c.Raw)))
		}
		// every TLS session is for the host actually dialled
		if c.TLS && c.SNI != c21HostOf(c.Addr) {
			viol("tls-sni-differs-from-dialled-host:"+strings.ToLower(cs.Client), fmt.Sprintf("conn %d dialled as %s has a TLS session with SNI %q", c.ID, c.Addr, c.SNI))
		}
		if c.CertFor != c21HostOf(c.Addr) {
			ct.wrongCertConns++
			if c.TLS && cs.Verify == "roots" {
				viol("tls-session-with-peer-holding-other-hosts-certificate:"+strings.ToLower(cs.Client), fmt.Sprintf("conn %d dialled as %s: the peer presented only %s's certificate and the verifying client completed the handshake (SNI %q), %d request(s) delivered", c.ID, c.Addr, c.CertFor, c.SNI, len(c.Reqs)))
			} else if !c.TLS && c.HSErr != "" {
				ct.wrongCertRejected++
			}
		}
		for _, q := range c.Reqs {
			parts := strings.Split(q.Path[3:], "-")
			if len(parts) != 5 {
				c.mu.Unlock()
				r.ToolError("c21: request without tag: %q", q.Path)
				return
			}
			tag := q.Path[3:]
			delivered[tag]++
			if want, ok := bodyOf[tag]; ok {
				ct.bodiesChecked++
				if q.Body != want {
					viol("request-delivered-with-other-body-than-given:"+parts[2], fmt.Sprintf("request %s arrived on conn %d to %s with a body of %d bytes %q, it was given %d bytes %q: part of it was not written to (or foreign bytes were written to) its connection", tag, c.ID, c.Addr, len(q.Body), c21Clip([]byte(q.Body)), len(want), c21Clip([]byte(want))))
				}
				if q.Tag != "" && q.Tag != "hdr="+tag {
					viol("request-delivered-with-header-of-other-request:"+parts[2], fmt.Sprintf("request %s arrived on conn %d with X-C21-Tag %q", tag, c.ID, q.Tag))
				}
			}
			t := c21Target{Scheme: parts[2], Host: parts[3], Port: parts[4]}
			if t.Port == "none" {
				t.Port = ""
			}
			if t.https() {
				if !c.TLS {
					viol("https-request-on-plaintext-conn:"+strings.ToLower(cs.Client), fmt.Sprintf("request %s arrived outside TLS on conn %d to %s", tag, c.ID, c.Addr))
				} else {
					ct.httpsDelivered++
				}
			} else {
				if c.TLS {
					viol("http-request-on-tls-conn:"+strings.ToLower(cs.Client), fmt.Sprintf("request %s arrived inside a TLS session on conn %d to %s", tag, c.ID, c.Addr))
				} else {
					ct.httpDelivered++
				}
			}
			if isClient {
				if c.Addr != t.wantAddr() {
					viol("request-on-conn-to-other-address:"+strings.ToLower(t.Scheme), fmt.Sprintf("request %s arrived on conn %d dialled as %s, want %s", tag, c.ID, c.Addr, t.wantAddr()))
				}
				if c.TLS && c.SNI != t.Host {
					viol("https-request-in-tls-session-for-other-host", fmt.Sprintf("request %s arrived in a TLS session with SNI %q", tag, c.SNI))
				}
			} else if !upAddr[c.Addr] {
				viol("request-on-conn-to-unconfigured-upstream", fmt.Sprintf("request %s arrived on conn dialled as %s", tag, c.Addr))
			}
		}
		c.mu.Unlock()
	}
	for _, e := range exps {
		switch {
		case e.skipped:
			if !rn.stop && delivered[e.tag] > 0 {
				r.ToolError("c21: request %s of an op that was never started was delivered", e.tag)
			}
		case e.refused && delivered[e.tag] > 0:
			viol(fmt.Sprintf("hostclient-tls-%v-wrote-%s-request", cs.Upstreams[0].IsTLS, strings.ToLower(e.t.Scheme)), "request "+e.tag+" had to be refused but was written")
		case isClient && e.faulted:
			// no expectation on how often it arrives
		case isClient && delivered[e.tag] != 1:
			viol("client-request-not-delivered-once", fmt.Sprintf("request %s delivered %d times", e.tag, delivered[e.tag]))
		}
	}

	// Client: the per-scheme host client maps (white box)
	if cl != nil {
		cl.mLock.RLock()
		for k, hc := range cl.m {
			ct.mapEntries++
			if hc.IsTLS || hc.Addr != AddMissingPort(k, false) {
				viol("client-http-map-holds-other-hostclient", fmt.Sprintf("Client.m[%q] = HostClient{Addr:%q IsTLS:%v}", k, hc.Addr, hc.IsTLS))
			}
		}
		for k, hc := range cl.ms {
			ct.mapEntries++
			if !hc.IsTLS || hc.Addr != AddMissingPort(k, true) {
				viol("client-https-map-holds-other-hostclient", fmt.Sprintf("Client.ms[%q] = HostClient{Addr:%q IsTLS:%v}", k, hc.Addr, hc.IsTLS))
			}
		}
		cl.mLock.RUnlock()
	}
	if writePhaseOverlap {
		ct.overlapInWritePhase++
	}
	if (sawTLS && sawPlain) || anyRefusal || (faulty && (n.refused > 0 || sawTLS)) || rn.nestedRun > 0 {
		r.Nontrivial(c21CaseString(cs))
	}
	if sample && r.WantSample() {
		r.Sample(map[string]any{"case": c21CaseString(cs), "observed": c21Summary(n, res)})
	}
}

// c21Around returns the surroundings of the first occurrence of tag in b.
func c21Around(b []byte, tag string) []byte {
	i := bytes.Index(b, []byte(tag))
	if i < 0 {
		return c21Clip(b)
	}
	return b[max(0, i-60):min(len(b), i+len(tag)+40)]
}

func c21Clip(b []byte) []byte {
	if len(b) > 160 {
		return b[:160]
	}
	return b
}

func c21Summary(n *c21Net, res []c21OpResult) string {
	var sb strings.Builder
	for _, c := range n.conns {
		fmt.Fprintf(&sb, "conn%d dial=%s tls=%v sni=%q first=%#x reqs=[", c.ID, c.Addr, c.TLS, c.SNI, c21Clip(c.Raw)[:min(1, len(c.Raw))])
		for _, q := range c.Reqs {
			sb.WriteString(q.Path + " ")
		}
		sb.WriteString("]")
		if c.HSErr != "" {
			sb.WriteString(" hserr=" + c.HSErr)
		}
		sb.WriteString("; ")
	}
	for i, x := range res {
		switch {
		case !x.executed:
			fmt.Fprintf(&sb, "op%d: not started; ", i)
		case x.panicked != "":
			fmt.Fprintf(&sb, "op%d: PANIC %s; ", i, x.panicked)
		default:
			fmt.Fprintf(&sb, "op%d: err=%v status=%d; ", i, x.err, x.status)
		}
	}
	return sb.String()
}

// ---------------------------------------------------------------------------------------------------------------
// enumerated spaces

type c21Space struct {
	name string
	gen  func(yield func(cs *c21Case) bool)
}

func c21Symbols(hosts []string) []c21Target {
	var out []c21Target
	for _, s := range []string{"http", "https"} {
		for _, h := range hosts {
			for _, p := range []string{"", "80", "443", "8443"} {
				out = append(out, c21Target{s, h, p})
			}
		}
	}
	return out
}

func c21Spaces(r *vrt.R) []c21Space {
	sym := c21Symbols([]string{"hosta", "hostb"})
	ns := len(sym)
	dimsN := func(n, k int) []int {
		d := make([]int, n)
		for i := range d {
			d[i] = k
		}
		return d
	}
	var sp []c21Space
	seqLen := vrt.Pick(r, 3, 4)
	sp = append(sp, c21Space{fmt.Sprintf("K1: one Client, every sequence of 1..%d Do calls over {http,https}x{hosta,hostb}x{no port,:80,:443,:8443} (%d URLs), hook Dial, InsecureSkipVerify", seqLen, ns),
		func(yield func(*c21Case) bool) {
			for n := 1; n <= seqLen; n++ {
				ok := seqx.Product(dimsN(n, ns), -1, func(x []int) bool {
					cs := c21Case{Client: "Client", Hook: "Dial", Verify: "skip"}
					for _, s := range x {
						cs.Ops = append(cs.Ops, c21Op{Via: "Do", T: sym[s]})
					}
					return yield(&cs)
				})
				if !ok {
					return
				}
			}
		}})
	sp = append(sp, c21Space{"K1b: one Client, every sequence of 1..2 Do calls x hook {DialTimeout, both} x verification {InsecureSkipVerify, RootCAs pool} and hook Dial with RootCAs",
		func(yield func(*c21Case) bool) {
			for _, hv := range [][2]string{{"DialTimeout", "skip"}, {"both", "skip"}, {"Dial", "roots"}, {"DialTimeout", "roots"}, {"both", "roots"}} {
				for n := 1; n <= 2; n++ {
					ok := seqx.Product(dimsN(n, ns), -1, func(x []int) bool {
						cs := c21Case{Client: "Client", Hook: hv[0], Verify: hv[1]}
						for _, s := range x {
							cs.Ops = append(cs.Ops, c21Op{Via: "Do", T: sym[s]})
						}
						return yield(&cs)
					})
					if !ok {
						return
					}
				}
			}
		}})
	sp = append(sp, c21Space{"K1c: requests built from Host header + path + URI().SetScheme instead of a full URL: Client, every sequence of 1..2 Do calls; HostClient/LBClient single calls",
		func(yield func(*c21Case) bool) {
			for n := 1; n <= 2; n++ {
				ok := seqx.Product(dimsN(n, ns), -1, func(x []int) bool {
					cs := c21Case{Client: "Client", Hook: "Dial", Verify: "skip"}
					for _, s := range x {
						cs.Ops = append(cs.Ops, c21Op{Build: "host+scheme", Via: "Do", T: sym[s]})
					}
					return yield(&cs)
				})
				if !ok {
					return
				}
			}
			for _, s := range sym {
				for _, u := range []c21Upstream{{"hosta:80", false}, {"hosta:443", true}} {
					cs := c21Case{Client: "HostClient", Hook: "Dial", Verify: "skip", Upstreams: []c21Upstream{u}, Ops: []c21Op{{Build: "host+scheme", Via: "Do", T: s}}}
					if !yield(&cs) {
						return
					}
				}
				cs := c21Case{Client: "LBClient", Hook: "Dial", Verify: "skip", Upstreams: []c21Upstream{{"hosta:80", false}, {"hosta:443", true}}, Ops: []c21Op{{Build: "host+scheme", Via: "Do", T: s}, {Build: "host+scheme", Via: "Do", T: s}}}
				if !yield(&cs) {
					return
				}
			}
		}})
	rlen := vrt.Pick(r, 1, 3)
	sp = append(sp, c21Space{fmt.Sprintf("K2: one Client.DoRedirects call: every start URL x every chain of 1..%d redirect targets over all URLs (http<->https, other host, other port); plus start x target x second target on hosta", rlen),
		func(yield func(*c21Case) bool) {
			for n := 2; n <= rlen+1; n++ {
				ok := seqx.Product(dimsN(n, ns), -1, func(x []int) bool {
					op := c21Op{Via: "DoRedirects", T: sym[x[0]]}
					for _, s := range x[1:] {
						op.Redir = append(op.Redir, sym[s])
					}
					cs := c21Case{Client: "Client", Hook: "Dial", Verify: "skip", Ops: []c21Op{op}}
					return yield(&cs)
				})
				if !ok {
					return
				}
			}
			if rlen >= 2 {
				return
			}
			sa := c21Symbols([]string{"hosta"})
			seqx.Product([]int{ns, ns, len(sa)}, -1, func(x []int) bool {
				op := c21Op{Via: "DoRedirects", T: sym[x[0]], Redir: []c21Target{sym[x[1]], sa[x[2]]}}
				cs := c21Case{Client: "Client", Hook: "Dial", Verify: "skip", Ops: []c21Op{op}}
				return yield(&cs)
			})
		}})
	sp = append(sp, c21Space{"K2b: Client: Do u1, then DoRedirects u2=>u3, then Do u1 again (pooled connections of both schemes), u1,u2,u3 over hosta URLs",
		func(yield func(*c21Case) bool) {
			sa := c21Symbols([]string{"hosta"})
			seqx.Product(dimsN(3, len(sa)), -1, func(x []int) bool {
				cs := c21Case{Client: "Client", Hook: "Dial", Verify: "skip", Ops: []c21Op{
					{Via: "Do", T: sa[x[0]]}, {Via: "DoRedirects", T: sa[x[1]], Redir: []c21Target{sa[x[2]]}}, {Via: "Do", T: sa[x[0]]}}}
				return yield(&cs)
			})
		}})
	sp = append(sp, c21Space{"K2c: scheme spelled HTTPS/Https/HTTP: single Do and single redirect target, hosta, every port spelling",
		func(yield func(*c21Case) bool) {
			var up []c21Target
			for _, s := range []string{"HTTPS", "Https", "HTTP"} {
				for _, p := range []string{"", "80", "443", "8443"} {
					up = append(up, c21Target{s, "hosta", p})
				}
			}
			for _, t := range up {
				cs := c21Case{Client: "Client", Hook: "Dial", Verify: "skip", Ops: []c21Op{{Via: "Do", T: t}}}
				if !yield(&cs) {
					return
				}
				for _, s := range sym {
					cs := c21Case{Client: "Client", Hook: "Dial", Verify: "skip", Ops: []c21Op{{Via: "DoRedirects", T: s, Redir: []c21Target{t}}}}
					if !yield(&cs) {
						return
					}
					cs = c21Case{Client: "HostClient", Hook: "Dial", Verify: "skip", Upstreams: []c21Upstream{{s.wantAddr(), s.https()}}, Ops: []c21Op{{Via: "DoRedirects", T: s, Redir: []c21Target{t}}}}
					if !yield(&cs) {
						return
					}
				}
			}
		}})

	ups := []c21Upstream{{"hosta:80", false}, {"hosta:443", false}, {"hosta:8443", false}, {"hosta:80", true}, {"hosta:443", true}, {"hosta:8443", true}, {"hosta:443,hostb:443", true}, {"hosta:80,hostb:80", false}}
	hlen := vrt.Pick(r, 2, 3)
	sp = append(sp, c21Space{fmt.Sprintf("K3: HostClient{IsTLS t/f, Addr hosta:{80,443,8443} or two hosts}: every sequence of 1..%d Do calls over the %d URLs", hlen, ns),
		func(yield func(*c21Case) bool) {
			for _, u := range ups {
				for n := 1; n <= hlen; n++ {
					ok := seqx.Product(dimsN(n, ns), -1, func(x []int) bool {
						cs := c21Case{Client: "HostClient", Hook: "Dial", Verify: "skip", Upstreams: []c21Upstream{u}}
						for _, s := range x {
							cs.Ops = append(cs.Ops, c21Op{Via: "Do", T: sym[s]})
						}
						return yield(&cs)
					})
					if !ok {
						return
					}
				}
			}
		}})
	second := vrt.Pick(r, 0, 8)
	sp = append(sp, c21Space{fmt.Sprintf("K3b: HostClient.DoRedirects: every upstream config x start URL x redirect target (x none or one of %d second targets on hosta)", second),
		func(yield func(*c21Case) bool) {
			sa := c21Symbols([]string{"hosta"})
			for _, u := range ups {
				ok := seqx.Product([]int{ns, ns, second + 1}, -1, func(x []int) bool {
					op := c21Op{Via: "DoRedirects", T: sym[x[0]], Redir: []c21Target{sym[x[1]]}}
					if x[2] > 0 {
						op.Redir = append(op.Redir, sa[x[2]-1])
					}
					cs := c21Case{Client: "HostClient", Hook: "Dial", Verify: "skip", Upstreams: []c21Upstream{u}, Ops: []c21Op{op}}
					return yield(&cs)
				})
				if !ok {
					return
				}
			}
		}})
	sp = append(sp, c21Space{"K5: TLS HostClient with several addresses (hosta:443,hostb:443 / hostb:443,hosta:443 / hosta:443,hostb:443,hosta:8443), one certificate per host name, verification {RootCAs pool, InsecureSkipVerify} x fake network refusing to dial {none, 1st, 2nd address} x peer holding only the other host's certificate at {none, 1st, 2nd, 1st+2nd address} x every sequence of 1..2 Do calls over {https hosta, https hostb, https hosta:443, http hosta}",
		func(yield func(*c21Case) bool) {
			ops := []c21Target{{"https", "hosta", ""}, {"https", "hostb", ""}, {"https", "hosta", "443"}, {"http", "hosta", ""}}
			for _, addrs := range [][]string{{"hosta:443", "hostb:443"}, {"hostb:443", "hosta:443"}, {"hosta:443", "hostb:443", "hosta:8443"}} {
				for _, verify := range []string{"roots", "skip"} {
					for ref := 0; ref < 3; ref++ {
						for wc := 0; wc < 4; wc++ {
							for n := 1; n <= 2; n++ {
								ok := seqx.Product(dimsN(n, len(ops)), -1, func(x []int) bool {
									cs := c21Case{Client: "HostClient", Hook: "Dial", Verify: verify, Upstreams: []c21Upstream{{strings.Join(addrs, ","), true}}}
									if ref > 0 {
										cs.Refuse = []string{addrs[ref-1]}
									}
									switch wc {
									case 1, 2:
										cs.WrongCert = []string{addrs[wc-1]}
									case 3:
										cs.WrongCert = []string{addrs[0], addrs[1]}
									}
									for _, s := range x {
										cs.Ops = append(cs.Ops, c21Op{Via: "Do", T: ops[s]})
									}
									return yield(&cs)
								})
								if !ok {
									return
								}
							}
						}
					}
				}
			}
		}})
	lbs := [][]c21Upstream{
		{{"hosta:80", false}, {"hosta:443", true}},
		{{"hosta:443", true}, {"hosta:80", false}},
		{{"hosta:443", false}, {"hosta:443", true}},
		{{"hosta:443", true}, {"hostb:443", true}},
	}
	llen := vrt.Pick(r, 2, 3)
	sp = append(sp, c21Space{fmt.Sprintf("K4: LBClient over HostClients of mixed schemes (4 configurations): every sequence of 1..%d Do calls over the %d URLs", llen, ns),
		func(yield func(*c21Case) bool) {
			for _, lb := range lbs {
				for n := 1; n <= llen; n++ {
					ok := seqx.Product(dimsN(n, ns), -1, func(x []int) bool {
						cs := c21Case{Client: "LBClient", Hook: "Dial", Verify: "skip", Upstreams: lb}
						for _, s := range x {
							cs.Ops = append(cs.Ops, c21Op{Via: "Do", T: sym[s]})
						}
						return yield(&cs)
					})
					if !ok {
						return
					}
				}
			}
		}})
	sp = append(sp, c21OverlapSpaces(r)...)
	sp = append(sp, c21CalloutSpaces(r)...)
	return sp
}

// c21CalloutSpaces: histories in which network faults precede calls that overlap at ANY call-out of the client: one Client
// (its writer/reader pools are shared by all its host clients, http and https); a prefix of calls that fail on the network
// (write errors, connection resets); then a call with or without a request body inside one of whose call-outs - dial, k-th
// connection write, first connection read after the k-th write, k-th body-stream read, k-th connection close - further
// calls of the same Client start and finish; then further calls.
func c21CalloutSpaces(r *vrt.R) []c21Space {
	s, p := c21Target{"https", "hosta", ""}, c21Target{"http", "hosta", ""}
	base := c21Case{Client: "Client", Hook: "Dial", Verify: "skip"}
	type hk struct {
		hook string
		at   int
	}
	type reqShape struct {
		t    c21Target
		body string
	}
	shapes := func(bodies ...string) []reqShape {
		var out []reqShape
		for _, t := range []c21Target{s, p} {
			for _, b := range bodies {
				out = append(out, reqShape{t, b})
			}
		}
		return out
	}
	hooksFor := func(body string, maxK int, withClose bool) []hk {
		hs := []hk{{"", 0}}
		for k := 1; k <= maxK; k++ {
			hs = append(hs, hk{"write", k}, hk{"read", k})
		}
		if body == "stream" || body == "sized" {
			for k := 1; k <= 3; k++ {
				hs = append(hs, hk{"body", k})
			}
		}
		if withClose {
			hs = append(hs, hk{"close", 1})
		}
		return hs
	}
	type faultSym struct {
		t     c21Target
		body  string
		fault string
	}
	// all sequences of 0..n fault symbols
	prefixes := func(alpha []faultSym, n int) [][]c21Op {
		out := [][]c21Op{nil}
		for l := 1; l <= n; l++ {
			dims := make([]int, l)
			for i := range dims {
				dims[i] = len(alpha)
			}
			seqx.Product(dims, -1, func(x []int) bool {
				var ops []c21Op
				for _, v := range x {
					ops = append(ops, c21Op{Via: "Do", T: alpha[v].t, Body: alpha[v].body, Fault: alpha[v].fault})
				}
				out = append(out, ops)
				return true
			})
		}
		return out
	}
	maxK := vrt.Pick(r, 3, 4)
	var alpha []faultSym
	for _, t := range []c21Target{p, s} {
		alpha = append(alpha, faultSym{t, "", "w1"}, faultSym{t, "", "r1"}, faultSym{t, "large", "w2"})
	}
	maxPre := vrt.Pick(r, 1, 2)
	outers := shapes("", "large", "stream")
	inner1 := shapes("", "large")
	if r.Thorough() {
		inner1 = shapes("", "large", "stream")
	}
	var inners [][]c21Op
	for _, a := range inner1 {
		inners = append(inners, []c21Op{{Via: "Do", T: a.t, Body: a.body}})
	}
	if r.Thorough() {
		for _, a := range shapes("", "large") {
			for _, b := range shapes("", "large") {
				inners = append(inners, []c21Op{{Via: "Do", T: a.t, Body: a.body}, {Via: "Do", T: b.t, Body: b.body}})
			}
		}
	}
	suffixes := [][]c21Op{nil}
	var sp []c21Space
	sp = append(sp, c21Space{fmt.Sprintf("K7: one Client, faults then overlap at any call-out: [every sequence of 0..%d calls that fail on the network, over %d symbols: {http://hosta, https://hosta} x {GET with the 1st connection write failing (w1), GET with the first read after it failing (r1), POST large with the 2nd write failing (w2)}] ; "+
		"one call over {http://hosta, https://hosta} x {GET, POST large body (several connection writes), POST chunked body stream} with, nested inside one of its call-outs {first dial, connection write #1..%d, first connection read after write #1..%d, body-stream read #1..3 (stream only)}, %s ; no further calls",
		maxPre, len(alpha), maxK, maxK,
		map[bool]string{false: "one call over {http://hosta, https://hosta} x {GET, POST large}", true: "one call over {http://hosta, https://hosta} x {GET, POST large, POST stream} or two calls over {http://hosta, https://hosta} x {GET, POST large}"}[r.Thorough()]),
		func(yield func(*c21Case) bool) {
			for _, pre := range prefixes(alpha, maxPre) {
				for _, o := range outers {
					for _, h := range hooksFor(o.body, maxK, false) {
						for _, in := range inners {
							for _, suf := range suffixes {
								cs := base
								cs.Ops = c21CloneOps(pre)
								cs.Ops = append(cs.Ops, c21Op{Via: "Do", T: o.t, Body: o.body, Hook: h.hook, At: h.at, In: c21CloneOps(in)})
								cs.Ops = append(cs.Ops, c21CloneOps(suf)...)
								if !yield(&cs) {
									return
								}
							}
						}
					}
				}
			}
		}})
	// the overlapped call itself fails on the network (so that it also closes its connection: call-out "close"), and body
	// kinds small / sized
	sp = append(sp, c21Space{"K7b: one Client: [nothing | GET http://hosta w1 | GET https://hosta w1] ; one call over {http://hosta, https://hosta} x {GET, POST small, POST large, POST stream, POST sized stream} x fault {none, w1, w2, r1} with, nested inside {first dial, write #1..2, read after write #1..2, body read #1..2 (streams), connection close #1}, one GET over {http://hosta, https://hosta} ; one further GET of the other scheme than the nested one",
		func(yield func(*c21Case) bool) {
			for _, pre := range [][]c21Op{nil, {{Via: "Do", T: p, Fault: "w1"}}, {{Via: "Do", T: s, Fault: "w1"}}} {
				for _, o := range shapes("", "small", "large", "stream", "sized") {
					for _, f := range []string{"", "w1", "w2", "r1"} {
						for _, h := range hooksFor(o.body, 2, true) {
							if h.hook == "body" && h.at > 2 {
								continue
							}
							for _, in := range []c21Target{s, p} {
								other := map[c21Target]c21Target{s: p, p: s}[in]
								cs := base
								cs.Ops = c21CloneOps(pre)
								cs.Ops = append(cs.Ops, c21Op{Via: "Do", T: o.t, Body: o.body, Fault: f, Hook: h.hook, At: h.at, In: []c21Op{{Via: "Do", T: in}}}, c21Op{Via: "Do", T: other})
								if !yield(&cs) {
									return
								}
							}
						}
					}
				}
			}
		}})
	return sp
}

// c21OverlapSpaces: histories with overlapping calls (see the header comment): requests that start and finish inside the
// dial of another request (so that a pool holds several idle connections) and inside one of the connection closes of a
// CloseIdleConnections call (so that connections are released into the pool while it is being emptied), followed by
// further requests of both schemes.
func c21OverlapSpaces(r *vrt.R) []c21Space {
	s, p := c21Target{"https", "hosta", ""}, c21Target{"http", "hosta", ""}
	type kind struct {
		name string
		base c21Case
		urls []c21Target
	}
	kinds := []kind{
		{"Client", c21Case{Client: "Client", Hook: "Dial", Verify: "skip"}, []c21Target{s, p}},
		{"HostClient{hosta:443,TLS}", c21Case{Client: "HostClient", Hook: "Dial", Verify: "skip", Upstreams: []c21Upstream{{"hosta:443", true}}}, []c21Target{s}},
		{"HostClient{hosta:80}", c21Case{Client: "HostClient", Hook: "Dial", Verify: "skip", Upstreams: []c21Upstream{{"hosta:80", false}}}, []c21Target{p}},
	}
	do := func(t c21Target, in ...c21Op) c21Op { return c21Op{Via: "Do", T: t, In: in} }
	// shapes of request groups over k URLs: chain(d) = Do[Do[..]] (d simultaneous connections), pair = Do;Do
	type shape struct {
		n     int
		build func(u []c21Target) []c21Op
	}
	chain := func(d int) shape {
		return shape{d, func(u []c21Target) []c21Op {
			op := do(u[d-1])
			for i := d - 2; i >= 0; i-- {
				op = do(u[i], op)
			}
			return []c21Op{op}
		}}
	}
	pair := shape{2, func(u []c21Target) []c21Op { return []c21Op{do(u[0]), do(u[1])} }}
	overURLs := func(sh shape, urls []c21Target, f func(ops []c21Op) bool) bool {
		dims := make([]int, sh.n)
		for i := range dims {
			dims[i] = len(urls)
		}
		return seqx.Product(dims, -1, func(x []int) bool {
			u := make([]c21Target, sh.n)
			for i, v := range x {
				u[i] = urls[v]
			}
			return f(sh.build(u))
		})
	}
	maxAt := vrt.Pick(r, 2, 3)
	maxSuffix := vrt.Pick(r, 2, 3)
	var sp []c21Space
	sp = append(sp, c21Space{fmt.Sprintf("K6: overlapping calls, client in {Client over https://hosta and http://hosta, HostClient{hosta:443,TLS} over https://hosta, HostClient{hosta:80} over http://hosta}: "+
		"[1..3 requests nested in each other's dial, every URL assignment: 1..3 simultaneous connections, then idle] ; CloseIdleConnections with nothing or, inside its k-th connection close (k=1..%d), one of {Do, Do;Do, Do{in dial: Do}, Do{in dial: Do{in dial: Do}}} over every URL assignment ; every sequence of 0..%d further Do calls", maxAt, maxSuffix),
		func(yield func(*c21Case) bool) {
			inner := []shape{chain(1), pair, chain(2), chain(3)}
			for _, k := range kinds {
				for d := 1; d <= 3; d++ {
					ok := overURLs(chain(d), k.urls, func(prefix []c21Op) bool {
						events := [][]c21Op{{{Via: "CloseIdle"}}}
						for at := 1; at <= maxAt; at++ {
							for _, sh := range inner {
								overURLs(sh, k.urls, func(in []c21Op) bool {
									events = append(events, []c21Op{{Via: "CloseIdle", At: at, In: in}})
									return true
								})
							}
						}
						for _, ev := range events {
							for n := 0; n <= maxSuffix; n++ {
								dims := make([]int, n)
								for i := range dims {
									dims[i] = len(k.urls)
								}
								ok := seqx.Product(dims, -1, func(x []int) bool {
									cs := k.base
									cs.Ops = append(append([]c21Op{}, prefix...), ev...)
									for _, v := range x {
										cs.Ops = append(cs.Ops, do(k.urls[v]))
									}
									return yield(&cs)
								})
								if !ok {
									return false
								}
							}
						}
						return true
					})
					if !ok {
						return
					}
				}
			}
		}})
	if !r.Thorough() {
		return sp
	}
	// thorough: every op tree (ordered forest) with up to N nodes and nesting depth <= 2 below the top level, every node
	// labelled Do <url> or CloseIdle@k (k only varies when the node has nested ops)
	maxNodes := map[string]int{"Client": 5, "HostClient{hosta:443,TLS}": 6, "HostClient{hosta:80}": 5}
	sp = append(sp, c21Space{"K6b: every op tree (ordered forest of calls; children of a Do run inside its dial, children of a CloseIdleConnections run inside its k-th connection close, k=1..3) with nesting depth <= 2 and at most 5 nodes (Client, labels Do https://hosta | Do http://hosta | CloseIdle@k; HostClient{hosta:80}, labels Do | CloseIdle@k) or 6 nodes (HostClient{hosta:443,TLS}, labels Do | CloseIdle@k)",
		func(yield func(*c21Case) bool) {
			for _, k := range kinds {
				for n := 1; n <= maxNodes[k.name]; n++ {
					for _, f := range c21Forests(n, 3) {
						flat := c21Flatten(f, nil)
						dims := make([]int, len(flat))
						for i := range dims {
							dims[i] = len(k.urls) + 3
						}
						ok := seqx.Product(dims, -1, func(x []int) bool {
							for i, v := range x {
								if v < len(k.urls) {
									flat[i].Via, flat[i].T, flat[i].At = "Do", k.urls[v], 0
								} else {
									at := v - len(k.urls) + 1
									if len(flat[i].In) == 0 {
										if at > 1 {
											return true // k is irrelevant without nested ops
										}
										at = 0
									}
									flat[i].Via, flat[i].T, flat[i].At = "CloseIdle", c21Target{}, at
								}
							}
							cs := k.base
							cs.Ops = c21CloneOps(f)
							return yield(&cs)
						})
						if !ok {
							return
						}
					}
				}
			}
		}})
	return sp
}

// c21Forests returns the shapes (ops without labels) of all ordered forests with n nodes and at most levels levels.
func c21Forests(n, levels int) [][]c21Op {
	if n == 0 {
		return [][]c21Op{nil}
	}
	if levels == 0 {
		return nil
	}
	var out [][]c21Op
	for k := 1; k <= n; k++ { // the first tree has k nodes
		for _, kids := range c21Forests(k-1, levels-1) {
			for _, rest := range c21Forests(n-k, levels) {
				f := append([]c21Op{{In: c21CloneOps(kids)}}, c21CloneOps(rest)...)
				out = append(out, f)
			}
		}
	}
	return out
}

func c21CloneOps(ops []c21Op) []c21Op {
	if len(ops) == 0 {
		return nil
	}
	out := make([]c21Op, len(ops))
	for i, o := range ops {
		out[i] = o
		out[i].In = c21CloneOps(o.In)
	}
	return out
}

func TestVerif_C21(t *testing.T) {
	r := vrt.Begin(t, "C21", "exploration")
	defer r.End()
	if err := c21InitCert(); err != nil {
		r.ToolError("c21: certificate: %v", err)
	}
	if rp := r.Replay(); rp != nil {
		var cs c21Case
		if err := json.Unmarshal(rp, &cs); err != nil {
			r.ToolError("replay artefact: %v", err)
		}
		var ct c21Counters
		c21Run(r, &cs, &ct, true)
		r.Eval(1)
		ct.flush(r)
		return
	}
	spaces := c21Spaces(r)
	var names []string
	for _, s := range spaces {
		names = append(names, s.name)
	}
	r.Rule("request sequences and http<->https redirects through Client, HostClient and LBClient over a fake network with in-memory TLS endpoints (dial hooks return pipe ends; the server end sniffs 0x16 and runs crypto/tls with a run-time self-signed ECDSA certificate, else plaintext HTTP). " +
		"Enumerated spaces, each completely: " + strings.Join(names, " || ") + ". " +
		"Every request carries its URL's scheme/host/port in its path. Oracle from the per-connection logs after all server goroutines were joined: an https request is decoded only inside an established TLS session (Client: dialled as its own host:port, SNI = its host), its bytes never appear in clear on any dialled connection, raw bytes of a TLS connection start with 0x16 and contain no HTTP/1.1; an http request never arrives inside a TLS session; the SNI of every TLS session equals the host actually dialled, and a verifying client never completes a handshake with (nor delivers a request to) a peer that holds only another host's certificate; " +
		"HostClient answers ErrHostClientRedirectToDifferentScheme for a URL whose scheme differs from IsTLS (directly and after redirects) and writes nothing for it; Client delivers every request exactly once with err=nil, and Client.m / Client.ms hold only host clients of their scheme. " +
		"Overlapping calls (K6, K7) are produced without a scheduler by re-entrancy: nested ops run on the calling goroutine inside a call-out of the client to the harness - the dial hook (before the connection is handed over), the k-th net.Conn.Write of the call on a dialled connection (TLS records included; before the bytes are taken), the first net.Conn.Read after its k-th write, the k-th Read of its request body stream, the k-th net.Conn.Close (of CloseIdleConnections, or of a failing call) - so calls start and finish while another call is between two of its steps, in particular between AcquireWriter and the last flush of its request (the LIFO-shaped subset of concurrent interleavings). " +
		"Network faults belong to the history alphabet (K7): a call may have its k-th connection write, or the first read after it, fail (the connection is broken from then on); such a call may fail or be retried, everything else is judged as usual. Requests in K7 are GET or POST with a small / large (several connection writes) body or a chunked / sized body stream; every Do request names its URL in its request line, in an X-C21-Tag header and in every piece of its body. " +
		"Additional oracle on bytes: whatever request line, header or body piece appears in clear on a dialled connection must belong to an http request (Client: for that address), whatever appears decrypted inside a TLS session must belong to an https request (Client: for that address and SNI); a delivered request carries exactly the body it was given; the client never waits for a response on a connection whose peer has not received a complete request (decided logically: both ends blocked reading, nothing in flight - the point where a real read deadline would expire). " +
		"White box at every call-out: the writer and reader pool of the Client (shared by its http and https host clients) resp. of each HostClient never holds the same object twice (two requests in progress would share it); the harness takes the pooled objects out while the case goroutine may block and puts them back afterwards, so that sync.Pool hands out a pooled object whenever there is one, independent of the Go scheduler. " +
		"White-box oracle after every CloseIdleConnections op and after the last op of every case: each idle-pool entry (HostClient.conns) of every HostClient involved is non-nil, distinct, holds a connection this HostClient dialled itself on the case's network to one of its own addresses, TLS-wrapped iff IsTLS, not closed by the client - i.e. the next request of that scheme can only be written to a connection made for it (a clientConn struct that was reset/handed to the process-wide free list while still pooled is reported as released-struct-still-pooled); a panicking client call is a violation. " +
		"Non-trivial: the case had both a TLS session and a plaintext connection, or a HostClient refusal, or at least one op executed re-entrantly")
	r.Assume("crypto/tls and net/http.ReadRequest on the fake server side",
		"for HostClient/LBClient 'its own host' is the configured upstream address (the caller chose it); the URL host is only checked through Client",
		"the harness pipe ignores deadlines; a 60 s watchdog turns a hang into a tool error, never into a verdict",
		"re-entrant nesting reaches only overlaps in which the inner call starts and finishes inside one callback of the outer call; other interleavings of concurrent callers need the controlled scheduler (mc profile) and are not part of this check",
		"sync.Pool.Get may return any object Put before: the harness resolves this choice as 'a pooled object whenever there is one' (see the rule), other resolutions are not explored")
	W := 64
	for si, s := range spaces {
		var total int64
		var tmu sync.Mutex
		t0 := time.Now()
		r.Par(W, func(w int) {
			var ct c21Counters
			i, mine := 0, 0
			s.gen(func(cs *c21Case) bool {
				if i%W == w {
					c21Run(r, cs, &ct, mine == 0 && w == 0)
					mine++
					if mine&63 == 0 {
						r.Eval(64)
						ct.flush(r)
						if r.Expired() {
							r.NotExhaustive("time budget reached in space " + s.name)
							return false
						}
					}
				}
				i++
				return true
			})
			r.Eval(mine & 63)
			ct.flush(r)
			tmu.Lock()
			total += int64(mine)
			tmu.Unlock()
		})
		r.Set(fmt.Sprintf("c21_space_%d_cases", si), fmt.Sprintf("%d (%.1f s, informational): %s", total, time.Since(t0).Seconds(), s.name))
	}
	r.Set("c21_largest_idle_pool_inspected", c21MaxIdle.Load())
}
