//go:build verif && verif_mc

package fasthttp

import (
	"context"
	"errors"
	"fmt"
	"net"
	"strings"
	"testing"
	"time"

	"github.com/valyala/fasthttp/internal/verif/mcrt"
	msync "github.com/valyala/fasthttp/internal/verif/mcsync"
	mtime "github.com/valyala/fasthttp/internal/verif/mctime"
	"github.com/valyala/fasthttp/internal/verif/mcx"
	"github.com/valyala/fasthttp/internal/verif/seamdial"
	"github.com/valyala/fasthttp/internal/verif/vrt"
)

// C41: a TCPDialer with Concurrency N never has more than N dials in progress, tries the resolved addresses of a host in
// rotation before failing, and returns ErrDialTimeout (wrapped with the upstream address) by the requested timeout.
// The real TCPDialer (rewritten by mcgen) is driven by 3 dialer threads; the resolver is a fake Resolver, the connect is
// the seam engine/seamdial (net.Dialer -> seamdial.Dialer, see engine/mcgen/subst.json) whose hook decides per endpoint
// accept / refuse / hang until the context deadline / accept after a delay, and counts the connects in flight.

type c41ep int

const (
	c41accept c41ep = iota
	c41refuse
	c41hang
	c41slow // accepts after scn.slowBy of virtual time unless the context ends first
)

const (
	c41resOK = iota
	c41resErr
	c41resSlow // answers after 1 s unless the context ends first
	c41resHang // waits for the context
)

type c41host struct {
	ips  []string
	mode int
}

type c41d struct {
	m     int // 0 Dial (3 s default timeout), 1 DialTimeout, 2 DialDualStackTimeout
	host  string
	to    time.Duration
	pause time.Duration
}

type c41scn struct {
	name     string
	bound    int
	conc     int
	hosts    map[string]c41host
	eps      map[string]c41ep // by ip; default refuse
	slowBy   time.Duration
	noTF     bool          // explore without timer-first deviations (every execution gets the deadline verdict)
	flip     bool          // the hook may deviate from the scripted endpoint behaviour (mcrt.Env, one deviation each)
	cacheFor time.Duration // DNSCacheDuration (0: default 1 min)
	threads  [][]c41d
}

type c41att struct {
	addr, network string
	ep            c41ep
	startAt       time.Duration
	result        int // 0 connected, 1 refused, 2 context ended
	conn          *c41conn
}

type c41dial struct {
	thread, seq, tid int
	spec             c41d
	timeout          time.Duration
	startAt          time.Duration
	firstEventAt     time.Duration // virtual time of the first resolver / connect call of this dial (-1: none)
	ctxDeadline      time.Duration // deadline of the first context the dialer handed out (-1: none)
	lastEventAt      time.Duration
	atts             []c41att
	resolverCalls    int
	resolverCtxEnded bool
	conn             net.Conn
	err              error
	blockedUntil     time.Duration
	done             bool
}

type c41conn struct {
	net.Conn
	addr string
	dial *c41dial
}

func (c *c41conn) Close() error { return nil }

type c41obs struct {
	s           *c41scn
	dials       []*c41dial
	cur         map[int]*c41dial
	inflight    int
	maxInflight int
	resolves    map[string]int
	slotsLeft   int
	strays      int
}

func c41now() time.Duration { return time.Duration(mcrt.NowNanos()) }

func (o *c41obs) event(ctx context.Context) *c41dial {
	d := o.cur[mcrt.CurrentID()]
	if d == nil {
		o.strays++
		return nil
	}
	now := c41now()
	if d.firstEventAt < 0 {
		d.firstEventAt = now
		if dl, ok := ctx.Deadline(); ok {
			d.ctxDeadline = dl.Sub(mcrt.Base)
		}
	}
	if now > d.lastEventAt {
		// the thread was blocked inside the dialer itself between two harness-visible events: only the wait for a
		// concurrency slot does that
		mcrt.Covered("dial-waited-for-slot")
	}
	return d
}

// waitCtx blocks until the context ends or (d > 0) d has passed; reports whether the context ended first.
func c41waitCtx(ctx context.Context, d time.Duration) bool {
	if d <= 0 {
		mcrt.Recv(ctx.Done())
		return true
	}
	t := mtime.NewTimer(d)
	defer t.Stop()
	return mcrt.Select(false, mcrt.RecvCase(t.C), mcrt.RecvCase(ctx.Done())) == 1
}

func (o *c41obs) LookupIPAddr(ctx context.Context, host string) ([]net.IPAddr, error) {
	d := o.event(ctx)
	o.resolves[host]++
	if d != nil {
		d.resolverCalls++
		defer func() { d.lastEventAt = c41now() }()
	}
	h, ok := o.s.hosts[host]
	if !ok {
		return nil, &net.DNSError{Err: "no such host", Name: host, IsNotFound: true}
	}
	ended := false
	switch h.mode {
	case c41resErr:
		mcrt.Yield()
		return nil, &net.DNSError{Err: "server misbehaving", Name: host}
	case c41resSlow:
		ended = c41waitCtx(ctx, time.Second)
	case c41resHang:
		ended = c41waitCtx(ctx, 0)
	default:
		mcrt.Yield()
	}
	if ended {
		if d != nil {
			d.resolverCtxEnded = true
		}
		return nil, ctx.Err()
	}
	out := make([]net.IPAddr, len(h.ips))
	for i, ip := range h.ips {
		out[i] = net.IPAddr{IP: net.ParseIP(ip)}
	}
	return out, nil
}

func (o *c41obs) hook(ctx context.Context, network, addr string) (net.Conn, error) {
	d := o.event(ctx)
	o.inflight++
	if o.inflight > o.maxInflight {
		o.maxInflight = o.inflight
	}
	defer func() {
		o.inflight--
		if d != nil {
			d.lastEventAt = c41now()
		}
	}()
	ip, _, _ := net.SplitHostPort(addr)
	ep, ok := o.s.eps[ip]
	if !ok {
		ep = c41refuse
	}
	if o.s.flip && ep != c41slow {
		ep = c41ep((int(ep) + mcrt.Env(3, "connect-outcome")) % 3)
	}
	a := c41att{addr: addr, network: network, ep: ep, startAt: c41now()}
	ended := false
	switch ep {
	case c41accept, c41refuse:
		mcrt.Yield() // the connect is in flight for at least one step
	case c41hang:
		ended = c41waitCtx(ctx, 0)
	case c41slow:
		ended = c41waitCtx(ctx, o.s.slowBy)
	}
	var conn net.Conn
	var err error
	switch {
	case ended:
		a.result = 2
		err = ctx.Err()
	case ep == c41refuse:
		a.result = 1
		err = &net.OpError{Op: "dial", Net: network, Err: errors.New("connection refused")}
	default:
		a.conn = &c41conn{addr: addr, dial: d}
		conn = a.conn
	}
	if d != nil {
		d.atts = append(d.atts, a)
	}
	return conn, err
}

func (o *c41obs) doDial(td *TCPDialer, thread, seq int, sp c41d) {
	if sp.pause > 0 {
		mtime.Sleep(sp.pause)
	}
	tid := mcrt.CurrentID()
	d := &c41dial{thread: thread, seq: seq, tid: tid, spec: sp, timeout: sp.to, firstEventAt: -1, ctxDeadline: -1}
	if sp.m == 0 {
		d.timeout = DefaultDialTimeout
	}
	o.dials = append(o.dials, d)
	o.cur[tid] = d
	d.startAt = c41now()
	d.lastEventAt = d.startAt
	addr := sp.host + ":80"
	switch sp.m {
	case 0:
		d.conn, d.err = td.Dial(addr)
	case 1:
		d.conn, d.err = td.DialTimeout(addr, sp.to)
	default:
		d.conn, d.err = td.DialDualStackTimeout(addr, sp.to)
	}
	d.blockedUntil = mcrt.BlockedUntil()
	if d.firstEventAt < 0 && c41now() > d.lastEventAt {
		mcrt.Covered("dial-waited-for-slot")
	}
	if errors.Is(d.err, ErrDialTimeout) {
		mcrt.Covered("dial-timeout")
	}
	d.done = true
	delete(o.cur, tid)
}

func c41body(s *c41scn) func() {
	return func() {
		tcpAddrsCleanInterval = int64(time.Hour) // the DNS-cache cleaner's ticker stays out of the way
		o := &c41obs{s: s, cur: map[int]*c41dial{}, resolves: map[string]int{}}
		mcrt.SetUserData(o)
		seamdial.Hook = o.hook
		td := &TCPDialer{Concurrency: s.conc, Resolver: o, DNSCacheDuration: s.cacheFor}
		mcrt.Invariant(func() string {
			if o.inflight > s.conc {
				return fmt.Sprintf("%d connects in flight, Concurrency=%d", o.inflight, s.conc)
			}
			return ""
		})
		var wg msync.WaitGroup
		for ti, script := range s.threads {
			wg.Add(1)
			mcrt.GoNamed(fmt.Sprintf("dialer%d", ti), func() {
				defer wg.Done()
				for k, sp := range script {
					o.doDial(td, ti, k, sp)
				}
			})
		}
		wg.Wait()
		o.slotsLeft = len(td.concurrencyCh)
	}
}

// c41maybeTimerFirst: some deviation of the execution may have been "fire the earliest timer although threads are
// runnable" (the timer alternative is the last one of a scheduling choice and costs one deviation; a preemption in
// favour of the last runnable thread looks the same, so this over-approximates).
func c41maybeTimerFirst(x *mcrt.Exec) bool {
	for _, p := range x.Points {
		if p.Kind == 's' && p.Chosen > 0 && p.Chosen == p.N-1 && p.Costs[p.Chosen] == 1 {
			return true
		}
	}
	return false
}

func c41check(x *mcrt.Exec) (string, string, string) {
	o, _ := x.UserData.(*c41obs)
	if o == nil {
		return "", "", ""
	}
	if x.Out.Invariant != "" {
		return "invariant", "dial-concurrency-exceeded", x.Out.Invariant
	}
	if x.Out.Deadlock || x.Out.Panic != "" || x.Out.Horizon || x.Out.Fatal != "" {
		return "", "", ""
	}
	s := o.s
	tf := !s.noTF && c41maybeTimerFirst(x)
	var cls strings.Builder
	starts := map[string][]int{} // host -> start index of each dial (-1 unknown)
	for _, d := range o.dials {
		who := fmt.Sprintf("dialer %d dial #%d of %s (timeout %v, started at %v)", d.thread, d.seq, d.spec.host, d.timeout, d.startAt)
		if !d.done {
			return "", "dial-never-returned", who + " did not return although the execution ended normally"
		}
		h := s.hosts[d.spec.host]
		list := make([]string, len(h.ips))
		for i, ip := range h.ips {
			list[i] = ip + ":80"
		}
		n := len(list)
		idx := func(a string) int {
			for i, l := range list {
				if l == a {
					return i
				}
			}
			return -1
		}
		isTimeout := errors.Is(d.err, ErrDialTimeout)
		switch {
		case d.err == nil && d.conn != nil:
			ca := "?"
			if cc, ok := d.conn.(*c41conn); ok {
				ca = cc.addr
			}
			fmt.Fprintf(&cls, "%d.%d=ok@%s ", d.thread, d.seq, ca)
		case isTimeout:
			fmt.Fprintf(&cls, "%d.%d=timeout/%d ", d.thread, d.seq, len(d.atts))
		case d.resolverCtxEnded:
			fmt.Fprintf(&cls, "%d.%d=resolver-deadline(%v) ", d.thread, d.seq, d.err)
		default:
			fmt.Fprintf(&cls, "%d.%d=fail/%d ", d.thread, d.seq, len(d.atts))
		}
		if (d.err == nil) == (d.conn == nil) {
			return "", "dial-result-malformed", fmt.Sprintf("%s returned conn=%v err=%v", who, d.conn, d.err)
		}
		// --- rotation inside one dial
		start := -1
		wantNet := "tcp4"
		if d.spec.m == 2 {
			wantNet = "tcp"
		}
		var order []string
		for k, a := range d.atts {
			order = append(order, a.addr)
			i := idx(a.addr)
			if i < 0 {
				return "", "dial-connect-to-foreign-address", fmt.Sprintf("%s connected to %s, not an address of the host (%v)", who, a.addr, list)
			}
			if a.network != wantNet {
				return "", "dial-wrong-network", fmt.Sprintf("%s connected with network %q, want %q", who, a.network, wantNet)
			}
			if k == 0 {
				start = i
			} else if k >= n {
				return "", "dial-address-tried-twice", fmt.Sprintf("%s made %d connects for %d addresses: %v", who, len(d.atts), n, order)
			} else if i != (start+k)%n {
				return "", "dial-addresses-not-in-rotation", fmt.Sprintf("%s tried %v; the host resolves to %v", who, order, list)
			}
			if k+1 < len(d.atts) && a.result == 0 {
				return "", "dial-continued-after-connect", fmt.Sprintf("%s connected to %s and still went on to try %s", who, a.addr, d.atts[k+1].addr)
			}
			if k+1 < len(d.atts) && a.result == 2 {
				// the context ends only at the dial's deadline
				return "", "dial-continued-after-deadline", fmt.Sprintf("%s: the connect to %s was ended by the dial deadline and the dial went on to %s", who, a.addr, d.atts[k+1].addr)
			}
		}
		starts[d.spec.host] = append(starts[d.spec.host], start)
		var last *c41att
		if len(d.atts) > 0 {
			last = &d.atts[len(d.atts)-1]
		}
		switch {
		case d.err == nil:
			if last == nil || last.conn == nil || net.Conn(last.conn) != d.conn {
				return "", "dial-returned-foreign-conn", who + " returned a connection that its last connect did not produce"
			}
		case isTimeout:
			var up *ErrDialWithUpstream
			if !errors.As(d.err, &up) {
				return "", "dial-timeout-not-wrapped-with-upstream", fmt.Sprintf("%s returned %v (%T): ErrDialTimeout without the upstream address", who, d.err, d.err)
			}
			if idx(up.Upstream) < 0 {
				return "", "dial-timeout-upstream-not-an-address-of-host", fmt.Sprintf("%s returned ErrDialTimeout for upstream %q; the host resolves to %v", who, up.Upstream, list)
			}
			if last != nil && last.result == 2 && up.Upstream != last.addr {
				return "", "dial-timeout-names-wrong-upstream", fmt.Sprintf("%s timed out connecting to %s but names upstream %q", who, last.addr, up.Upstream)
			}
		default:
			if last != nil && last.result == 2 {
				return "", "dial-deadline-hit-but-not-ErrDialTimeout", fmt.Sprintf("%s: the connect to %s was ended by the dial deadline, the dial returned %v", who, last.addr, d.err)
			}
			if d.resolverCtxEnded {
				// see the report: the statement is about dialing; a resolver that runs into the dial deadline surfaces
				// the context error - noted as an outcome class, not judged
				break
			}
			if h.mode != c41resErr && len(d.atts) != n {
				// a non-timeout failure must have tried every address once
				return "", "dial-failed-without-trying-all-addresses", fmt.Sprintf("%s failed with %v after trying %v; the host resolves to %v", who, d.err, order, list)
			}
		}
		// --- deadline (virtual clock, scheduling slack excluded). Judged only in executions without a timer-first
		// deviation: there the clock moves only while every thread is blocked, so the caller's sample is the instant
		// the dial read the clock and "last found blocked at <= start+timeout" is exact. A timer-first deviation lets
		// the clock run while the dialing thread (or the thread that cancels its context, or the holder of the slot it
		// waits for) is merely runnable; whatever blocks afterwards is then found blocked "late" although nobody
		// overslept - that is scheduling slack, which the statement excludes, and mcrt.BlockedUntil cannot tell it apart.
		if deadline := d.startAt + d.timeout; !tf && d.blockedUntil > deadline {
			return "", "dial-returned-after-deadline", fmt.Sprintf("%s was still blocked inside the dialer at %v, deadline %v (result %v)", who, d.blockedUntil, deadline, d.err)
		}
	}
	// --- rotation across dials: dials served from one cache entry start at consecutive addresses
	for host, st := range starts {
		h := s.hosts[host]
		n, k := len(h.ips), len(st)
		if n < 2 || k < 2 || o.resolves[host] != 1 || s.flip {
			continue
		}
		ok := false
		for base := 0; base < n && !ok; base++ {
			room := make([]int, n)
			for j := 0; j < k; j++ {
				room[(base+j)%n]++
			}
			fits := true
			for _, v := range st {
				if v < 0 {
					continue
				}
				room[v]--
				if room[v] < 0 {
					fits = false
				}
			}
			ok = fits
		}
		if !ok {
			return "", "dial-start-address-not-rotated", fmt.Sprintf("%d dials of %s were served from one resolution of %d addresses and started at address indexes %v: not consecutive positions of a round robin", k, host, n, st)
		}
	}
	if o.strays > 0 {
		return "", "dial-activity-outside-a-dial", fmt.Sprintf("%d resolver/connect calls came from a thread that was not inside a Dial call", o.strays)
	}
	if o.slotsLeft != 0 || o.inflight != 0 {
		return "", "dial-slot-leaked", fmt.Sprintf("every dial has returned and %d of %d concurrency slots are still taken (%d connects in flight)", o.slotsLeft, s.conc, o.inflight)
	}
	fmt.Fprintf(&cls, "max=%d", o.maxInflight)
	if !tf {
		cls.WriteString(" deadline-judged")
	}
	return cls.String(), "", ""
}

func TestVerif_C41(t *testing.T) {
	r := vrt.Begin(t, "C41", "model_checking")
	defer r.End()
	r.Rule("real TCPDialer (Concurrency 1-2) with a fake Resolver (1-3 addresses / error / slow / hanging) and the connect seam (endpoints accept / refuse / hang until the context deadline / accept after a delay), " +
		"3 dialer threads mixing Dial, DialTimeout and DialDualStackTimeout; all schedules, select choices, timer-first orders and (flip scenarios) endpoint answers up to the deviation bound. " +
		"Invariant at every step: connects in flight <= Concurrency. Per dial: connects follow the host's address list cyclically without repeats, stop at the first success, a non-timeout failure tried every address; " +
		"dials served from one resolution start at consecutive addresses; ErrDialTimeout is an *ErrDialWithUpstream naming an address of the host (the one whose connect timed out); " +
		"the thread was last blocked inside the dialer at a virtual time <= start+timeout; all slots free at the end; non-trivial: executions with >= 1 deviation")
	r.Assume("mcrt shim semantics (litmus-tested); mcctx deadlines are virtual timers whose cancellation runs on its own thread",
		"net.Dialer replaced by the seam engine/seamdial (same fields; DialContext delegates to the harness hook)",
		"deadline oracle (thread last found blocked at <= start+timeout) is evaluated in the executions that contain no timer-first deviation (recognised conservatively: a scheduling choice that took the last, cost-1 alternative counts as one); with such a deviation virtual time passes while threads are runnable and a later legitimate wait is indistinguishable from oversleeping",
		"tcpAddrsCleanInterval raised to 1 h so that the cache cleaner's ticker does not multiply schedules (the cleaner is outside the statement)",
		"a resolver that is cut off by the dial deadline makes the dial return the context error unwrapped: outside the statement (it speaks about dialing), recorded as outcome class only")
	b, B := 2, vrt.Pick(r, 2, 3) // B: the smaller systems get one more deviation in the thorough tier
	sec := time.Second
	one := map[string]c41host{"h": {ips: []string{"10.0.0.1"}}}
	two := map[string]c41host{"h": {ips: []string{"10.0.0.1", "10.0.0.2"}}}
	three := map[string]c41host{"h": {ips: []string{"10.0.0.1", "10.0.0.2", "10.0.0.3"}}}
	dial := func(host string) c41d { return c41d{m: 0, host: host} }
	dto := func(host string, to time.Duration) c41d { return c41d{m: 1, host: host, to: to} }
	dds := func(host string, to time.Duration) c41d { return c41d{m: 2, host: host, to: to} }
	at := func(p time.Duration, d c41d) c41d { d.pause = p; return d }
	b1 := vrt.Pick(r, 1, 2) // the widest system with timer-first deviations: one bound step less in the quick tier (its no-timer-first twin runs the full bound)
	// ordered small to large: scenario i runs in worker process i mod 16, the no-timer-first twins appended below share
	// the workers of the first entries
	scns := []*c41scn{
		{name: "conc2/cache-1s-redial-after-2s", bound: B, conc: 2, hosts: two, eps: map[string]c41ep{"10.0.0.1": c41refuse, "10.0.0.2": c41accept}, cacheFor: sec,
			threads: [][]c41d{{dto("h", sec), at(2*sec, dto("h", sec))}, {at(2*sec, dds("h", sec))}}},
		{name: "conc1/resolver-slow-1s", bound: B, conc: 1, hosts: map[string]c41host{"h": {ips: []string{"10.0.0.1", "10.0.0.2"}, mode: c41resSlow}}, eps: map[string]c41ep{"10.0.0.1": c41accept, "10.0.0.2": c41hang},
			threads: [][]c41d{{dto("h", 2*sec)}, {dto("h", 500*time.Millisecond)}, {at(1500*time.Millisecond, dto("h", sec))}}},
		{name: "conc1/resolver-error-and-ok-host", bound: B, conc: 1, hosts: map[string]c41host{"bad": {mode: c41resErr}, "h": two["h"]}, eps: map[string]c41ep{"10.0.0.2": c41accept},
			threads: [][]c41d{{dto("bad", sec)}, {dto("h", sec)}, {dto("h", sec)}}},
		{name: "conc1/1addr-accept", bound: B, conc: 1, hosts: one, eps: map[string]c41ep{"10.0.0.1": c41accept},
			threads: [][]c41d{{dial("h")}, {dto("h", sec)}, {dds("h", sec)}}},
		{name: "conc1/resolver-hangs", bound: B, conc: 1, hosts: map[string]c41host{"h": {ips: []string{"10.0.0.1"}, mode: c41resHang}, "g": {ips: []string{"10.0.1.1"}}}, eps: map[string]c41ep{"10.0.1.1": c41accept},
			threads: [][]c41d{{dto("h", sec)}, {dto("g", sec)}, {dto("h", 2*sec)}}},
		{name: "conc2/2addrs-hang-accept", bound: b, conc: 2, hosts: two, eps: map[string]c41ep{"10.0.0.1": c41hang, "10.0.0.2": c41accept},
			threads: [][]c41d{{dto("h", sec)}, {dto("h", sec)}, {dto("h", 2*sec)}}},
		{name: "conc1/2addrs-flip-endpoint-answers", bound: b, conc: 1, hosts: two, eps: map[string]c41ep{"10.0.0.1": c41accept, "10.0.0.2": c41accept}, flip: true,
			threads: [][]c41d{{dto("h", sec)}, {dto("h", sec)}, {dto("h", 2*sec)}}},
		{name: "conc2/3addrs-refuse-refuse-accept", bound: b, conc: 2, hosts: three, eps: map[string]c41ep{"10.0.0.3": c41accept},
			threads: [][]c41d{{dial("h")}, {dto("h", sec)}, {dds("h", sec)}}},
		{name: "conc1/2addrs-all-refuse", bound: b, conc: 1, hosts: two, eps: map[string]c41ep{},
			threads: [][]c41d{{dial("h")}, {dto("h", sec)}, {dto("h", sec)}}},
		{name: "conc1/1addr-slow-accept-1s/timeouts-1.5s-2.5s-3s", bound: b, conc: 1, hosts: one, eps: map[string]c41ep{"10.0.0.1": c41slow}, slowBy: sec,
			threads: [][]c41d{{dto("h", 1500*time.Millisecond)}, {dto("h", 2500*time.Millisecond)}, {dial("h")}}},
		{name: "conc1/2addrs-refuse-slow", bound: b, conc: 1, hosts: two, eps: map[string]c41ep{"10.0.0.2": c41slow}, slowBy: sec,
			threads: [][]c41d{{dto("h", 3*sec)}, {dto("h", 2*sec)}, {dto("h", 1500*time.Millisecond)}}},
		{name: "conc1/sequential-rotation-3addrs", bound: B, conc: 1, hosts: map[string]c41host{"h": three["h"], "g": {ips: []string{"10.0.1.1"}}},
			eps:     map[string]c41ep{"10.0.0.1": c41accept, "10.0.0.2": c41accept, "10.0.0.3": c41accept, "10.0.1.1": c41accept},
			threads: [][]c41d{{dial("h"), dial("h"), dial("h"), dial("h")}, {dto("g", sec)}}},
		{name: "conc1/1addr-hang/timeouts-1s-2s-3s", bound: b, conc: 1, hosts: one, eps: map[string]c41ep{"10.0.0.1": c41hang},
			threads: [][]c41d{{dto("h", sec)}, {dto("h", 2*sec)}, {dial("h")}}},
		{name: "conc1/1addr-slow-accept-1s/timeouts-5s", bound: b, conc: 1, hosts: one, eps: map[string]c41ep{"10.0.0.1": c41slow}, slowBy: sec,
			threads: [][]c41d{{dto("h", 5*sec)}, {dto("h", 5*sec)}, {dds("h", 5*sec)}}},
		{name: "conc2/1addr-hang/timeouts-1s-1s-1s", bound: b1, conc: 2, hosts: one, eps: map[string]c41ep{"10.0.0.1": c41hang},
			threads: [][]c41d{{dto("h", sec)}, {dds("h", sec)}, {dto("h", sec)}}},
	}
	// the same timing-sensitive systems without timer-first deviations: every execution gets the deadline verdict
	var twins []*c41scn
	for _, s := range scns {
		hangs := false
		for _, e := range s.eps {
			hangs = hangs || e == c41hang || e == c41slow
		}
		for _, h := range s.hosts {
			hangs = hangs || h.mode == c41resSlow || h.mode == c41resHang
		}
		if hangs {
			c := *s
			c.name, c.noTF, c.bound = "no-timer-first/"+s.name, true, B
			if s.conc == 2 && len(s.hosts["h"].ips) == 1 || strings.Contains(s.name, "refuse-slow") {
				c.bound = b // the two widest twins stay at the quick bound
			}
			twins = append([]*c41scn{&c}, twins...) // largest first: it gets the one free worker
		}
	}
	scns = append(scns, twins...)
	var scs []mcx.Scenario
	for _, s := range scns {
		scs = append(scs, mcx.Scenario{Name: s.name, Cfg: mcrt.Config{Bound: s.bound, TimerFirst: !s.noTF, Horizon: 4000}, Body: c41body(s), Check: c41check})
	}
	r.Set("preemption_bound", fmt.Sprintf("%d (smaller systems: %d)", b, B))
	mcx.Run(r, scs)
}
