//go:build verif && verif_mc

package fasthttp

import (
	"errors"
	"fmt"
	"os"
	"strings"
	ratomic "sync/atomic"
	"testing"
	"time"

	"github.com/valyala/fasthttp/internal/verif/mcrt"
	msync "github.com/valyala/fasthttp/internal/verif/mcsync"
	mtime "github.com/valyala/fasthttp/internal/verif/mctime"
	"github.com/valyala/fasthttp/internal/verif/mcx"
	"github.com/valyala/fasthttp/internal/verif/vrt"
)

// C40: LBClient routes every call to a client whose pending+penalty load was minimal when it was chosen (ties broken
// by fewest completed requests), penalties stay bounded and expire, and an empty client list yields
// ErrNoAvailableClients. The real LBClient (rewritten by mcgen) is driven by 3 caller threads and one membership thread
// over 2-3 fake BalancingClients; the 3 s penalty timers run on virtual time.
//
// "Minimal when it was chosen" is decided on the values the call's own scan read (DESIGN 3.7). What the scan read is
// reconstructed as follows. The fake's PendingRequests() answer is recorded exactly, with the calling thread, so the
// pending part is exact. The penalty and the completed-requests counter live inside the LBClient; the harness samples
// both for every client at EVERY scheduling step (mcrt.Invariant hook) and keeps the history of changes. Because
// every atomic operation of the rewritten code is preceded by a scheduling step, that history contains every value the
// two variables ever had. For the client asked as k-th in a scan the scan's reads of its penalty/counter happen
// between the previous harness-visible event of the calling thread (call start or the (k-1)-th PendingRequests call)
// and the next one ((k+1)-th PendingRequests call, or the fake's DoDeadline entry): the oracle takes the SET of values
// each variable had in that window. A routing decision is accepted iff there is a choice of values from those sets
// under which the chosen client is an argmin of (pending+penalty, completed); it is a violation iff under every choice
// some other consulted client is strictly better. In executions where nobody modifies a client's penalty/counter
// inside the window (the vast majority; always in sequential phases) the sets are singletons and the test is exact;
// otherwise it is lenient by at most the concurrent modifications inside the window - never stricter than the statement.
// "Completed requests" is the LBClient's own per-client counter of handled requests (read in-package).

var c40errBoom = errors.New("c40: scripted failure")

var c40debug = os.Getenv("C40_DEBUG") != ""

type c40hv struct {
	step int
	pen  uint32
	tot  uint64
}

type c40fake struct {
	id        int
	o         *c40obs
	base      int           // scripted pending requests besides the calls in flight through this LBClient
	inflight  int           // DoDeadline calls in progress
	planIdx   int           // scripted outcomes consumed
	completed int           // DoDeadline calls returned
	hold      time.Duration // virtual duration of a call (0: one yield)
	gate      int           // >0: a call is held until that many calls were routed overall (or every other caller is done)
	plan      []bool        // outcome of the k-th call on this client: true = failure; the last entry repeats
}

type c40ask struct{ client, n, step int }

type c40call struct {
	caller, seq, tid   int
	method             int
	warm               bool
	startStep, endStep int
	routed             []int
	routedStep         int
	asks               []c40ask
	err                error
	done               bool
	failed             bool
	endAt              time.Duration
}

type c40op struct {
	method int // 0 Do, 1 DoDeadline, 2 DoTimeout
	pause  time.Duration
}

type c40mem struct {
	pause time.Duration
	kind  string // "add" | "remove"
	ids   []int
}

type c40mop struct {
	kind               string
	ids                []int
	startStep, endStep int
	ret                int
	done               bool
}

type c40scn struct {
	name     string
	bound    int
	tf       bool
	horizon  int
	maxPen   uint32
	nClients int             // fakes [0,nClients) are LBClient.Clients; the others can be added by the membership thread
	base     []int           // per fake
	hold     []time.Duration // per fake
	gate     []int           // per fake
	plan     [][]bool        // per fake
	callers  [][]c40op
	member   []c40mem
	warm     bool // main performs one call before the threads start (forces the lazy initialisation)
	health   bool // custom HealthCheck: failure = nil error with status 500
	timeout  time.Duration
}

type c40obs struct {
	s           *c40scn
	step        int
	fakes       []*c40fake
	wrap        []*lbClient
	hist        [][]c40hv
	calls       []*c40call
	cur         map[int]*c40call
	mops        []*c40mop
	firstAsk    int
	entered     int
	callersDone int
	strayAsks   int
	anyFail     bool
	lastFailAt  time.Duration
	maxPenSeen  uint32
	endSig      string
	endWhat     string
}

// tick runs at every scheduling step: it discovers the LBClient's per-client wrappers and appends every change of
// their penalty / completed counters to the history.
//
//go:norace
func (o *c40obs) tick(lb *LBClient) {
	o.step++
	for _, w := range lb.cs {
		if w == nil {
			continue
		}
		if f, ok := w.c.(*c40fake); ok && o.wrap[f.id] == nil {
			o.wrap[f.id] = w
		}
	}
	for i, w := range o.wrap {
		if w == nil {
			continue
		}
		p, t := ratomic.LoadUint32(&w.penalty), ratomic.LoadUint64(&w.total)
		h := o.hist[i]
		var last c40hv
		if len(h) > 0 {
			last = h[len(h)-1]
		}
		if len(h) == 0 || last.pen != p || last.tot != t {
			if p > last.pen {
				mcrt.Covered("penalty-applied")
			}
			if p == 0 && last.pen > 0 {
				mcrt.Covered("penalty-expired")
			}
			if p > o.maxPenSeen {
				o.maxPenSeen = p
			}
			o.hist[i] = append(h, c40hv{o.step, p, t})
		}
	}
}

// rng returns the extreme values client i's penalty and completed counter had at the scheduling steps a..b.
func (o *c40obs) rng(i, a, b int) (minP, maxP uint32, minT, maxT uint64) {
	var cur c40hv
	h := o.hist[i]
	k := 0
	for ; k < len(h) && h[k].step <= a; k++ {
		cur = h[k]
	}
	minP, maxP, minT, maxT = cur.pen, cur.pen, cur.tot, cur.tot
	for ; k < len(h) && h[k].step <= b; k++ {
		e := h[k]
		minP, maxP = min(minP, e.pen), max(maxP, e.pen)
		minT, maxT = min(minT, e.tot), max(maxT, e.tot)
	}
	return
}

func (f *c40fake) PendingRequests() int {
	o := f.o
	n := f.base + f.inflight
	if c := o.cur[mcrt.CurrentID()]; c != nil {
		c.asks = append(c.asks, c40ask{f.id, n, o.step})
	} else {
		o.strayAsks++
	}
	if o.firstAsk < 0 {
		o.firstAsk = o.step
	}
	return n
}

func (f *c40fake) DoDeadline(req *Request, resp *Response, deadline time.Time) error {
	o := f.o
	c := o.cur[mcrt.CurrentID()]
	o.entered++
	if c != nil {
		c.routed = append(c.routed, f.id)
		if len(c.routed) == 1 {
			c.routedStep = o.step
		}
	}
	warm := c != nil && c.warm
	fail := false
	if !warm && len(f.plan) > 0 {
		fail = f.plan[min(f.planIdx, len(f.plan)-1)]
		f.planIdx++
	}
	f.inflight++
	switch {
	case warm:
	case f.gate > 0:
		mcrt.WaitUntil("c40-gate", func() bool { return o.entered >= f.gate || o.callersDone >= len(o.s.callers)-1 })
	case f.hold > 0:
		mtime.Sleep(f.hold)
	default:
		mcrt.Yield()
	}
	f.inflight--
	f.completed++
	if fail {
		if c != nil {
			c.failed = true
		}
		if o.s.health {
			resp.SetStatusCode(500)
			return nil
		}
		return c40errBoom
	}
	return nil
}

func (o *c40obs) doCall(lb *LBClient, caller, seq int, op c40op) {
	if op.pause > 0 {
		mtime.Sleep(op.pause)
	}
	tid := mcrt.CurrentID()
	c := &c40call{caller: caller, seq: seq, tid: tid, method: op.method, startStep: o.step, warm: caller < 0}
	o.calls = append(o.calls, c)
	o.cur[tid] = c
	var req Request
	var resp Response
	var err error
	switch op.method {
	case 0:
		err = lb.Do(&req, &resp)
	case 1:
		err = lb.DoDeadline(&req, &resp, mtime.Now().Add(time.Second))
	default:
		err = lb.DoTimeout(&req, &resp, time.Second)
	}
	c.err, c.endStep, c.endAt, c.done = err, o.step, time.Duration(mcrt.NowNanos()), true
	if c40debug {
		fmt.Printf("C40DBG call caller=%d seq=%d tid=%d routed=%v failed=%v err=%v endAt=%v asks=%v\n", caller, seq, tid, c.routed, c.failed, err, c.endAt, c.asks)
	}
	delete(o.cur, tid)
	if c.failed {
		// the penalty (if any) was applied before the call returned: "3 s after the failure" is counted from here
		o.anyFail = true
		if c.endAt > o.lastFailAt {
			o.lastFailAt = c.endAt
		}
	}
}

func (o *c40obs) doMember(lb *LBClient, m c40mem) {
	if m.pause > 0 {
		mtime.Sleep(m.pause)
	}
	op := &c40mop{kind: m.kind, ids: m.ids, startStep: o.step}
	o.mops = append(o.mops, op)
	if m.kind == "add" {
		op.ret = lb.AddClient(o.fakes[m.ids[0]])
	} else {
		op.ret = lb.RemoveClients(func(c BalancingClient) bool {
			f, ok := c.(*c40fake)
			return ok && c40in(m.ids, f.id)
		})
	}
	op.endStep, op.done = o.step, true
}

func c40in(ids []int, id int) bool {
	for _, x := range ids {
		if x == id {
			return true
		}
	}
	return false
}

func (o *c40obs) allZero() bool {
	for _, w := range o.wrap {
		if w != nil && ratomic.LoadUint32(&w.penalty) != 0 {
			return false
		}
	}
	return true
}

// settle: every caller and the membership thread have returned ("once concurrent calls settle").
func (o *c40obs) settle() {
	for i, w := range o.wrap {
		if w == nil {
			continue
		}
		if p := ratomic.LoadUint32(&w.penalty); p > maxPenalty {
			o.endSig, o.endWhat = "lb-penalty-above-max-after-settling", fmt.Sprintf("all calls have returned and client %d carries %d outstanding penalties, maximum %d", i, p, maxPenalty)
			return
		}
	}
	if !o.anyFail {
		return
	}
	due := o.lastFailAt + penaltyDuration
	if d := due - time.Duration(mcrt.NowNanos()); d > 0 {
		mtime.Sleep(d)
	}
	// From `due` on every penalty timer must have fired (the scheduler fires due timers before it lets anybody run), so
	// the decrements only wait to be scheduled - that is scheduling slack. A penalty timer that is still armed now
	// outlives the 3 s. (All callers have returned and main's own sleep is over: penalty timers are the only timers left.)
	if n := mcrt.PendingTimers(); n > 0 {
		o.endSig, o.endWhat = "lb-penalty-outlives-3s", fmt.Sprintf("%d penalty timer(s) still armed at %v; the last penalised failure returned at %v", n, time.Duration(mcrt.NowNanos()), o.lastFailAt)
		return
	}
	mcrt.WaitUntil("c40-penalties-drain", func() bool { return o.allZero() || mcrt.LiveNamed("afterfunc") == 0 })
	for i, w := range o.wrap {
		if w != nil && ratomic.LoadUint32(&w.penalty) != 0 {
			o.endSig, o.endWhat = "lb-penalty-never-expires", fmt.Sprintf("client %d still carries penalty %d at %v with no penalty timer left; its last penalised failure returned at %v", i, ratomic.LoadUint32(&w.penalty), time.Duration(mcrt.NowNanos()), o.lastFailAt)
			return
		}
	}
}

func c40body(s *c40scn) func() {
	return func() {
		maxPenalty = s.maxPen
		nf := len(s.base)
		o := &c40obs{s: s, wrap: make([]*lbClient, nf), hist: make([][]c40hv, nf), cur: map[int]*c40call{}, firstAsk: -1}
		mcrt.SetUserData(o)
		for i := 0; i < nf; i++ {
			f := &c40fake{id: i, o: o, base: s.base[i]}
			if s.hold != nil {
				f.hold = s.hold[i]
			}
			if s.gate != nil {
				f.gate = s.gate[i]
			}
			if s.plan != nil {
				f.plan = s.plan[i]
			}
			o.fakes = append(o.fakes, f)
		}
		lb := &LBClient{Timeout: s.timeout}
		for i := 0; i < s.nClients; i++ {
			lb.Clients = append(lb.Clients, o.fakes[i])
		}
		if s.health {
			lb.HealthCheck = func(req *Request, resp *Response, err error) bool { return err == nil && resp.StatusCode() < 500 }
		}
		mcrt.Invariant(func() string { o.tick(lb); return "" })
		if s.warm {
			o.doCall(lb, -1, 0, c40op{method: 1})
		}
		var wg msync.WaitGroup
		for ci, script := range s.callers {
			wg.Add(1)
			mcrt.GoNamed(fmt.Sprintf("caller%d", ci), func() {
				defer wg.Done()
				for k, op := range script {
					o.doCall(lb, ci, k, op)
				}
				o.callersDone++
			})
		}
		if len(s.member) > 0 {
			wg.Add(1)
			mcrt.GoNamed("member", func() {
				defer wg.Done()
				for _, m := range s.member {
					o.doMember(lb, m)
				}
			})
		}
		wg.Wait()
		o.settle()
	}
}

// membership of client j as far as the harness can be certain about it for a call that started at step a and was
// decided at step b (its DoDeadline entry on the chosen client, or its return).
func (o *c40obs) member(j, a, b int) (definitelyIn, definitelyOut bool) {
	in := j < o.s.nClients
	inCertain := in
	removedBefore := false
	touched := false
	for _, m := range o.mops {
		if !c40in(m.ids, j) {
			continue
		}
		switch m.kind {
		case "add":
			if m.done && m.endStep < a {
				in, inCertain = true, true
			} else if m.startStep <= b {
				touched = true // may or may not be visible to the call
			}
		case "remove":
			if m.startStep <= b {
				touched = true
				// a removal that completed before the call started certainly took effect if the LBClient had been
				// initialised by then (RemoveClients before the first call finds an empty list and removes nothing:
				// the configured Clients are loaded lazily by the first call)
				if m.done && m.endStep < a && o.firstAsk >= 0 && m.startStep > o.firstAsk {
					removedBefore = true
				}
			}
		}
	}
	definitelyIn = in && inCertain && !touched
	definitelyOut = removedBefore || (!in && !touched)
	if removedBefore {
		// re-adding a removed fake is not part of any scenario
		definitelyIn = false
	}
	return
}

func c40panicKind(p string) string {
	l := p
	if i := strings.IndexByte(l, '\n'); i >= 0 {
		l = l[:i]
	}
	switch {
	case strings.Contains(l, "index out of range"):
		return "index-out-of-range"
	case strings.Contains(l, "nil pointer"):
		return "nil-client"
	case strings.Contains(l, "BUG:"):
		return "bug-assertion"
	}
	return "other"
}

func c40check(x *mcrt.Exec) (string, string, string) {
	o, _ := x.UserData.(*c40obs)
	if o == nil {
		return "", "", ""
	}
	if x.Out.Panic != "" {
		l := x.Out.Panic
		if i := strings.IndexByte(l, '\n'); i >= 0 {
			l = l[:i]
		}
		return "panic", "lb-panic-" + c40panicKind(x.Out.Panic), "an LBClient call panicked: " + l
	}
	if x.Out.Deadlock || x.Out.Horizon || x.Out.Fatal != "" || x.Out.Invariant != "" {
		return "", "", ""
	}
	var cls strings.Builder
	nf := len(o.fakes)
	for _, c := range o.calls {
		if !c.done {
			return "", "lb-call-never-returned", fmt.Sprintf("caller %d call %d did not return although the execution ended normally", c.caller, c.seq)
		}
		who := fmt.Sprintf("caller %d call #%d (thread %d)", c.caller, c.seq, c.tid)
		decision := c.endStep
		if len(c.routed) > 0 {
			decision = c.routedStep
		}
		noClients := errors.Is(c.err, ErrNoAvailableClients)
		if !c.warm {
			if len(c.routed) > 0 {
				fmt.Fprintf(&cls, "%d.%d>%d ", c.caller, c.seq, c.routed[0])
			} else {
				fmt.Fprintf(&cls, "%d.%d>E ", c.caller, c.seq)
			}
		}
		if len(c.routed) > 1 {
			return "", "lb-call-routed-more-than-once", fmt.Sprintf("%s reached clients %v", who, c.routed)
		}
		if len(c.routed) == 0 {
			if !noClients {
				return "", "lb-call-not-routed", fmt.Sprintf("%s reached no client and returned %v", who, c.err)
			}
			for j := 0; j < nf; j++ {
				if in, _ := o.member(j, c.startStep, decision); in {
					return "", "lb-no-clients-error-while-client-present", fmt.Sprintf("%s returned ErrNoAvailableClients although client %d was a member during the whole call", who, j)
				}
			}
			continue
		}
		r := c.routed[0]
		if noClients {
			return "", "lb-routed-but-no-clients-error", fmt.Sprintf("%s was routed to client %d and returned ErrNoAvailableClients", who, r)
		}
		if _, out := o.member(r, c.startStep, decision); out {
			allOut := true
			for j := 0; j < nf; j++ {
				if _, out := o.member(j, c.startStep, decision); !out {
					allOut = false
				}
			}
			if allOut {
				return "", "lb-routed-although-no-clients", fmt.Sprintf("%s started after every client had been removed and was still routed to client %d instead of returning ErrNoAvailableClients", who, r)
			}
			return "", "lb-routed-to-removed-client", fmt.Sprintf("%s started after client %d had been removed (or before it was added) and was routed to it", who, r)
		}
		// the scan: last answer per client, with the window in which its penalty/counter were read
		type seen struct {
			n          int
			minP, maxP uint32
			minT, maxT uint64
			ok         bool
		}
		sc := make([]seen, nf)
		for k, a := range c.asks {
			from, to := c.startStep, decision
			if k > 0 {
				from = c.asks[k-1].step
			}
			if k+1 < len(c.asks) {
				to = c.asks[k+1].step
			}
			s := seen{n: a.n, ok: true}
			s.minP, s.maxP, s.minT, s.maxT = o.rng(a.client, from, to)
			sc[a.client] = s
		}
		if !sc[r].ok {
			return "", "lb-routed-without-reading-load", fmt.Sprintf("%s was routed to client %d whose PendingRequests it never asked", who, r)
		}
		for j := 0; j < nf; j++ {
			if in, _ := o.member(j, c.startStep, decision); in && !sc[j].ok {
				return "", "lb-member-not-consulted", fmt.Sprintf("%s was routed to client %d without asking client %d, a member during the whole call", who, r, j)
			}
		}
		loR := sc[r].n + int(sc[r].minP)
		for j := 0; j < nf; j++ {
			if j == r || !sc[j].ok {
				continue
			}
			hiJ := sc[j].n + int(sc[j].maxP)
			desc := func() string {
				return fmt.Sprintf("%s was routed to client %d (pending %d, penalty %d..%d, completed %d..%d) although client %d had pending %d, penalty %d..%d, completed %d..%d when the scan read them",
					who, r, sc[r].n, sc[r].minP, sc[r].maxP, sc[r].minT, sc[r].maxT, j, sc[j].n, sc[j].minP, sc[j].maxP, sc[j].minT, sc[j].maxT)
			}
			if hiJ < loR {
				if sc[j].n >= sc[r].n {
					return "", "lb-penalty-ignored-in-routing", desc()
				}
				return "", "lb-routed-to-more-loaded-client", desc()
			}
			if hiJ == loR && sc[j].maxT < sc[r].minT {
				return "", "lb-tie-not-broken-by-fewest-completed", desc()
			}
		}
	}
	if o.strayAsks > 0 {
		return "", "lb-load-read-outside-call", fmt.Sprintf("%d PendingRequests calls came from a thread that was not inside an LBClient call", o.strayAsks)
	}
	if o.endSig != "" {
		return "", o.endSig, o.endWhat
	}
	fmt.Fprintf(&cls, "maxpen=%d", o.maxPenSeen)
	return cls.String(), "", ""
}

func TestVerif_C40(t *testing.T) {
	r := vrt.Begin(t, "C40", "model_checking")
	defer r.End()
	r.Rule("real LBClient over 2-3 fake BalancingClients (scripted pending counts, call durations, success/failure plans), 3 caller threads mixing Do/DoDeadline/DoTimeout, one thread doing AddClient/RemoveClients, " +
		"3 s penalty timers on virtual time; all schedules and timer-first orders up to the deviation bound. Oracle per call: exactly one client reached, it was consulted, every stable member was consulted, and no other consulted client was " +
		"strictly better on (pending+penalty, completed) for every value its penalty/counter had inside the scan window (exact PendingRequests answers per thread; penalty/counter history sampled at every scheduling step); " +
		"ErrNoAvailableClients iff no client (never a panic, never while a stable member exists, always once every client was removed); after all calls returned penalty <= max, and zero no later than 3 s after the last " +
		"penalised failure returned; non-trivial: executions with >= 1 deviation")
	r.Assume("mcrt shim semantics (litmus-tested)",
		"maxPenalty shrunk to 2-3 by assigning the package variable mcgen makes of the constant (it is only compared with the counter); one sequential full-scale witness runs with 300",
		"completed requests = the LBClient's own per-client counter of handled requests",
		"scan reads are localised to the window between the neighbouring harness-visible events of the calling thread; concurrent modifications inside the window make the oracle lenient, never stricter",
		"LBClient.Clients is non-empty at construction (documented precondition); RemoveClients before the first call removes nothing because Clients are loaded lazily (treated as uncertain membership, not as a violation)")
	b, B := 2, vrt.Pick(r, 2, 3) // B: the smaller systems get one more deviation in the thorough tier
	do, dd, dt := c40op{method: 0}, c40op{method: 1}, c40op{method: 2}
	after := func(d time.Duration, op c40op) c40op { op.pause = d; return op }
	sec := time.Second
	F, T := []bool{false}, []bool{true}
	scns := []*c40scn{
		{name: "2c/overlap-1s-calls", bound: B, tf: true, maxPen: 2, nClients: 2, base: []int{0, 0}, hold: []time.Duration{sec, sec},
			callers: [][]c40op{{do}, {dt}, {dd, do}}},
		{name: "2c/c0-fails/penalty-routes-away", bound: B, tf: true, maxPen: 2, nClients: 2, base: []int{0, 0}, plan: [][]bool{T, F},
			callers: [][]c40op{{do, do}, {dt}, {after(3*sec, dd)}}},
		{name: "2c/c0-fails/cap-reached", bound: B, tf: true, maxPen: 2, nClients: 2, base: []int{0, 10}, plan: [][]bool{T, F},
			callers: [][]c40op{{do, do}, {dt}, {dd}}},
		{name: "2c/both-fail/max3", bound: b, tf: true, maxPen: 3, nClients: 2, base: []int{0, 0}, plan: [][]bool{T, {true, false}},
			callers: [][]c40op{{do, do}, {dt, dt}, {dd}}},
		{name: "3c/tiebreak-by-completed", bound: B, tf: false, maxPen: 2, nClients: 3, base: []int{0, 0, 0},
			callers: [][]c40op{{do, do}, {dt}, {dd}}},
		{name: "3c/uneven-base-pending", bound: B, tf: false, maxPen: 2, nClients: 3, base: []int{1, 0, 1}, hold: []time.Duration{0, sec, 0},
			callers: [][]c40op{{do, do}, {dt}, {dd}}},
		{name: "2c/gate-holds-first-call", bound: B, tf: false, maxPen: 2, nClients: 2, base: []int{0, 0}, gate: []int{2, 0},
			callers: [][]c40op{{do}, {dt}, {dd}}},
		{name: "2c/expiry-races-with-scan", bound: B, tf: true, maxPen: 2, nClients: 2, base: []int{0, 0}, plan: [][]bool{{true, false}, F},
			callers: [][]c40op{{do}, {after(3*sec, dt)}, {after(3*sec, dd)}}},
		{name: "3c/health-callback-status500", bound: B, tf: true, maxPen: 2, nClients: 3, base: []int{0, 0, 0}, plan: [][]bool{F, T, F}, health: true,
			callers: [][]c40op{{do, do}, {dt}, {dd}}},
		{name: "2c/warm/remove-all-races-with-calls", bound: B, tf: false, maxPen: 2, nClients: 2, base: []int{0, 0}, warm: true,
			callers: [][]c40op{{do}, {dt}, {after(sec, dd)}}, member: []c40mem{{kind: "remove", ids: []int{0, 1, 2}}}},
		{name: "2c/cold/remove-all-races-with-first-call", bound: B, tf: false, maxPen: 2, nClients: 2, base: []int{0, 0},
			callers: [][]c40op{{do}, {dt}, {after(sec, dd)}}, member: []c40mem{{kind: "remove", ids: []int{0, 1, 2}}}},
		{name: "2c/warm/add-then-remove-c0", bound: B, tf: false, maxPen: 2, nClients: 2, base: []int{0, 0, 0}, hold: []time.Duration{sec, 0, 0}, warm: true,
			callers: [][]c40op{{do}, {dt}, {after(sec, dd)}}, member: []c40mem{{kind: "add", ids: []int{2}}, {kind: "remove", ids: []int{0}}}},
		{name: "2c/cold/add-races-with-first-call", bound: B, tf: false, maxPen: 2, nClients: 2, base: []int{1, 1, 0},
			callers: [][]c40op{{do}, {dt}, {dd}}, member: []c40mem{{kind: "add", ids: []int{2}}}},
		{name: "2c/warm/remove-all-then-add-then-calls", bound: B, tf: true, maxPen: 2, nClients: 2, base: []int{0, 0, 0}, plan: [][]bool{F, F, T}, warm: true,
			callers: [][]c40op{{do}, {after(sec, dt)}, {after(2*sec, dd)}}, member: []c40mem{{kind: "remove", ids: []int{0, 1}}, {pause: 2 * sec, kind: "add", ids: []int{2}}}},
	}
	// full-scale witness: the real bound 300, sequentially: 310 failing calls 1 ms apart on the same client
	w := make([]c40op, 310)
	for i := range w {
		w[i] = do
	}
	scns = append(scns, &c40scn{name: "witness/maxPenalty300/310-failures", bound: 0, tf: false, horizon: 60000, maxPen: 300, nClients: 2, base: []int{0, 1000},
		hold: []time.Duration{time.Millisecond, 0}, plan: [][]bool{T, F}, callers: [][]c40op{w}})
	if r.Thorough() {
		scns = append(scns,
			&c40scn{name: "3c/c0-c1-fail/longer/no-timer-first", bound: 2, tf: false, maxPen: 2, nClients: 3, base: []int{0, 0, 1}, plan: [][]bool{T, {true, false, true}, F},
				callers: [][]c40op{{do, do}, {dt, after(3*sec, dt)}, {dd}}},
			&c40scn{name: "3c/warm/add-remove-mix", bound: 2, tf: true, maxPen: 2, nClients: 2, base: []int{0, 0, 0}, hold: []time.Duration{sec, 0, 0}, plan: [][]bool{F, T, F}, warm: true,
				callers: [][]c40op{{do, do}, {dt, dt}, {after(sec, dd)}}, member: []c40mem{{kind: "add", ids: []int{2}}, {kind: "remove", ids: []int{1}}, {pause: sec, kind: "remove", ids: []int{0, 2}}}})
	}
	var scs []mcx.Scenario
	for _, s := range scns {
		h := s.horizon
		if h == 0 {
			h = 4000
		}
		scs = append(scs, mcx.Scenario{Name: s.name, Cfg: mcrt.Config{Bound: s.bound, TimerFirst: s.tf, Horizon: h}, Body: c40body(s), Check: c40check})
	}
	r.Set("preemption_bound", fmt.Sprintf("%d (smaller systems: %d)", b, B))
	mcx.Run(r, scs)
}
