//go:build verif && verif_mc

package fasthttp

import (
	"bufio"
	"bytes"
	stdgzip "compress/gzip"
	stdzlib "compress/zlib"
	"errors"
	"fmt"
	"io"
	"net/http"
	"strconv"
	"strings"

	"github.com/andybalholm/brotli"
	"github.com/klauspost/compress/zstd"
	"github.com/valyala/bytebufferpool"
	"github.com/valyala/fasthttp/internal/verif/mcrt"
	"github.com/valyala/fasthttp/internal/verif/vnet"
	"github.com/valyala/fasthttp/internal/verif/vrt"
)

// C22 part A: sequential round trips. Every case runs inside its own single-caller mcrt execution (the rewritten
// stackless package needs a controlled world for its select statement; the stackless workers and the body-stream
// goroutines are controlled threads scheduled by the default rule "run until blocked"). Each case performs its
// operation TWICE in the same world so that the second run goes through the pooled writers (Reset path).

// ---- bodies --------------------------------------------------------------------------------------------------------

type c22BodyT struct {
	Name string
	B    []byte
}

func c22Rand(seed uint64, n int) []byte {
	b := make([]byte, n)
	s := seed*2685821657736338717 + 1442695040888963407
	for i := range b {
		s ^= s << 13
		s ^= s >> 7
		s ^= s << 17
		b[i] = byte(s >> 24)
	}
	return b
}

func c22Text(n int) []byte {
	const para = "The quick brown fox jumps over the lazy dog; pack my box with five dozen liquor jugs. <p class=\"x\">lorem ipsum dolor sit amet</p>\n"
	b := make([]byte, 0, n+len(para))
	for i := 0; len(b) < n; i++ {
		b = append(b, para...)
		b = strconv.AppendInt(b, int64(i*7919), 10)
	}
	return b[:n]
}

var c22BodiesV []c22BodyT

func c22Bodies() []c22BodyT {
	if c22BodiesV != nil {
		return c22BodiesV
	}
	big := make([]byte, 0, 1<<20)
	for i := 0; len(big) < 1<<20; i++ {
		if i%3 == 2 {
			big = append(big, c22Rand(uint64(i), 40000)...)
		} else {
			big = append(big, c22Text(90000+i)...)
		}
	}
	big = big[:1<<20]
	c22BodiesV = []c22BodyT{
		{"empty", []byte{}},
		{"1B", []byte("x")},
		{"199B", c22Text(minCompressLen - 1)},
		{"200B", c22Text(minCompressLen)},
		{"201B", c22Text(minCompressLen + 1)},
		{"4KiB-text", c22Text(4096)},
		{"64KiB-random", c22Rand(7, 65536)},
		{"1MiB-mixed", big},
	}
	return c22BodiesV
}

// ---- reference decoders (independent of the code under test: standard library / the codec libraries directly) --------

var c22ZstdDec *zstd.Decoder

// c22RefDecode decodes b per content coding enc with the reference decoder. Results for small streams are memoised:
// the schedule explorations judge the same few streams hundreds of thousands of times, and setting up a brotli or
// zstd decoder costs far more than the execution being judged.
func c22RefDecode(enc string, b []byte) ([]byte, error) {
	if len(b) > 1024 || enc == "" || enc == "identity" {
		return c22RefDecode1(enc, b)
	}
	key := enc + "\x00" + string(b)
	if m, ok := c22DecMemo[key]; ok {
		return m.out, m.err
	}
	out, err := c22RefDecode1(enc, b)
	if len(c22DecMemo) < 4096 {
		if c22DecMemo == nil {
			c22DecMemo = map[string]c22DecRes{}
		}
		c22DecMemo[key] = c22DecRes{out, err}
	}
	return out, err
}

type c22DecRes struct {
	out []byte
	err error
}

var c22DecMemo map[string]c22DecRes

func c22RefDecode1(enc string, b []byte) ([]byte, error) {
	switch enc {
	case "", "identity":
		return b, nil
	case "gzip":
		br := bytes.NewReader(b)
		zr, err := stdgzip.NewReader(br)
		if err != nil {
			return nil, err
		}
		zr.Multistream(false)
		out, err := io.ReadAll(zr)
		if err != nil {
			return out, err
		}
		if br.Len() != 0 {
			return out, fmt.Errorf("%d bytes after the end of the gzip member", br.Len())
		}
		return out, nil
	case "deflate":
		br := bytes.NewReader(b)
		zr, err := stdzlib.NewReader(br)
		if err != nil {
			return nil, err
		}
		out, err := io.ReadAll(zr)
		if err != nil {
			return out, err
		}
		if br.Len() != 0 {
			return out, fmt.Errorf("%d bytes after the end of the zlib stream", br.Len())
		}
		return out, nil
	case "br":
		if len(b) == 0 {
			return nil, errors.New("empty brotli stream")
		}
		return io.ReadAll(brotli.NewReader(bytes.NewReader(b)))
	case "zstd":
		if c22ZstdDec == nil {
			d, err := zstd.NewReader(nil, zstd.WithDecoderConcurrency(1))
			if err != nil {
				return nil, err
			}
			c22ZstdDec = d
		}
		// a zstd stream is a sequence of frames; zero frames decode to zero bytes (klauspost's encoder emits no frame
		// for empty input by default)
		return c22ZstdDec.DecodeAll(b, nil)
	}
	return nil, fmt.Errorf("unknown content coding %q", enc)
}

// c22Shape names how got differs from want (part of the violation signature).
func c22Shape(got, want []byte) string {
	switch {
	case bytes.Equal(got, want):
		return "equal"
	case len(got) == 0:
		return "empty"
	case len(got) < len(want) && bytes.Equal(got, want[:len(got)]):
		return "truncated"
	case len(got) > len(want) && bytes.Equal(got[:len(want)], want):
		return "extra-bytes"
	}
	return "differs"
}

// ---- Accept-Encoding reference (RFC 9110 12.5.3) -------------------------------------------------------------------

// c22Accepts reports whether the header value accepts content coding enc, and why not. A missing header accepts
// everything. Anything this lenient reader cannot parse counts as acceptable (the oracle never asks more than the
// statement: "q=0 / absent tokens never used").
func c22Accepts(present bool, ae, enc string) (bool, string) {
	if !present {
		return true, ""
	}
	star, starQ0 := false, false
	listed, listedQ0 := false, false
	for _, el := range strings.Split(ae, ",") {
		parts := strings.Split(el, ";")
		tok := strings.ToLower(strings.TrimSpace(parts[0]))
		if tok == "" {
			continue
		}
		q0 := false
		for _, p := range parts[1:] {
			kv := strings.SplitN(p, "=", 2)
			if len(kv) == 2 && strings.EqualFold(strings.TrimSpace(kv[0]), "q") {
				if f, err := strconv.ParseFloat(strings.TrimSpace(kv[1]), 64); err == nil && f == 0 {
					q0 = true
				}
			}
		}
		switch tok {
		case enc:
			if q0 {
				listedQ0 = true
			} else {
				listed = true
			}
		case "*":
			if q0 {
				starQ0 = true
			} else {
				star = true
			}
		}
	}
	switch {
	case listed && !listedQ0:
		return true, ""
	case listed && listedQ0:
		return true, "" // contradictory duplicates: lenient
	case listedQ0:
		return false, "q0"
	case star:
		return true, ""
	case starQ0:
		return false, "star-q0"
	}
	return false, "absent"
}

// ---- handler round trips -------------------------------------------------------------------------------------------

type c22HCase struct {
	Part    string `json:"part"` // "H"
	Wrap    int    `json:"wrap"` // 0 CompressHandler, 1 CompressHandlerLevel(Level), 2 CompressHandlerBrotliLevel(BrLevel, Level)
	Level   int    `json:"level"`
	BrLevel int    `json:"br_level"`
	Body    int    `json:"body"`
	BodyN   string `json:"body_name"`
	HasAE   bool   `json:"has_ae"`
	AE      string `json:"ae"`
	Mode    int    `json:"mode"` // 0 SetBody, 1 SetBodyStream(size), 2 SetBodyStream(-1), 3 SetBodyStreamWriter, 4 SetBodyRaw, 5 ctx.Write x2
	PreCE   string `json:"pre_ce"`
	PreVary string `json:"pre_vary"`
	CT      string `json:"ct"`
}

var c22ModeNames = []string{"buffered", "stream-sized", "stream-unsized", "stream-writer", "buffered-raw", "buffered-write"}
var c22WrapNames = []string{"CompressHandler", "CompressHandlerLevel", "CompressHandlerBrotliLevel"}

type c22nopLogger struct{}

func (c22nopLogger) Printf(string, ...any) {}

type c22HRes struct {
	sig, what string
	enc       []string // declared encoding per response
	notes     string
}

func c22HandlerFor(cs *c22HCase, body []byte) RequestHandler {
	h := func(ctx *RequestCtx) {
		if cs.CT != "" {
			ctx.SetContentType(cs.CT)
		}
		if cs.PreCE != "" {
			ctx.Response.Header.SetContentEncoding(cs.PreCE)
		}
		if cs.PreVary != "" {
			ctx.Response.Header.Set("Vary", cs.PreVary)
		}
		switch cs.Mode {
		case 0:
			ctx.SetBody(body)
		case 1:
			ctx.SetBodyStream(bytes.NewReader(body), len(body))
		case 2:
			ctx.SetBodyStream(bytes.NewReader(body), -1)
		case 3:
			ctx.SetBodyStreamWriter(func(w *bufio.Writer) {
				h := len(body) / 2
				w.Write(body[:h]) //nolint:errcheck
				w.Flush()         //nolint:errcheck
				w.Write(body[h:]) //nolint:errcheck
			})
		case 4:
			ctx.Response.SetBodyRaw(body)
		case 5:
			h := len(body) / 3
			ctx.Write(body[:h]) //nolint:errcheck
			ctx.Write(body[h:]) //nolint:errcheck
		}
	}
	switch cs.Wrap {
	case 0:
		return CompressHandler(h)
	case 1:
		return CompressHandlerLevel(h, cs.Level)
	}
	return CompressHandlerBrotliLevel(h, cs.BrLevel, cs.Level)
}

func c22VaryHas(h http.Header) bool {
	for _, v := range h.Values("Vary") {
		for _, t := range strings.Split(v, ",") {
			if strings.EqualFold(strings.TrimSpace(t), "Accept-Encoding") {
				return true
			}
		}
	}
	return false
}

// c22RunH serves the request twice on one scripted keep-alive connection through the real Server.ServeConn and
// judges both responses as read back by net/http.
func c22RunH(cs *c22HCase) c22HRes {
	body := c22Bodies()[cs.Body].B
	var res c22HRes
	var out []byte
	var serveErr error
	x := c22World(func() {
		s := &Server{Handler: c22HandlerFor(cs, body), Logger: c22nopLogger{}}
		req := "GET /c22 HTTP/1.1\r\nHost: c22\r\n"
		if cs.HasAE {
			req += "Accept-Encoding: " + cs.AE + "\r\n"
		}
		req += "\r\n"
		c := vnet.NewConn([]byte(req + req))
		serveErr = s.ServeConn(c)
		out = c.Output()
	})
	desc := fmt.Sprintf("%s(level %d, brotli level %d) body=%s mode=%s Accept-Encoding=%s pre-set Content-Encoding=%q Vary=%q Content-Type=%q",
		c22WrapNames[cs.Wrap], cs.Level, cs.BrLevel, c22Bodies()[cs.Body].Name, c22ModeNames[cs.Mode], c22AEDesc(cs.HasAE, cs.AE), cs.PreCE, cs.PreVary, cs.CT)
	if s, w := c22WorldFailure(x); s != "" {
		res.sig, res.what = "handler-"+s, desc+": "+w
		return res
	}
	_ = serveErr
	br := bufio.NewReader(bytes.NewReader(out))
	for k := 0; k < 2; k++ {
		resp, err := http.ReadResponse(br, &http.Request{Method: "GET"})
		if err != nil {
			res.sig, res.what = "handler-response-unreadable-"+c22ModeNames[cs.Mode], fmt.Sprintf("%s: response %d of 2 cannot be read back: %v (wire %d bytes, ServeConn err %v)", desc, k+1, err, len(out), serveErr)
			return res
		}
		raw, err := io.ReadAll(resp.Body)
		resp.Body.Close()
		if err != nil {
			res.sig, res.what = "handler-response-body-framing-"+c22ModeNames[cs.Mode], fmt.Sprintf("%s: response %d body framing broken: %v", desc, k+1, err)
			return res
		}
		ces := resp.Header.Values("Content-Encoding")
		if cs.PreCE != "" {
			// the wrapped handler declared an encoding itself: body and declaration must pass through untouched
			if len(ces) != 1 || ces[0] != cs.PreCE {
				res.sig, res.what = "preset-content-encoding-changed", fmt.Sprintf("%s: response %d declares Content-Encoding %q", desc, k+1, ces)
				return res
			}
			if !bytes.Equal(raw, body) {
				res.sig = "preset-content-encoding-body-recoded-" + c22Shape(raw, body)
				res.what = fmt.Sprintf("%s: the handler's already-encoded body (%d bytes) was changed on the wire (%d bytes): compressed twice", desc, len(body), len(raw))
				return res
			}
			res.enc = append(res.enc, "preset")
			continue
		}
		if len(ces) > 1 || (len(ces) == 1 && strings.Contains(ces[0], ",")) {
			res.sig, res.what = "multiple-content-encodings", fmt.Sprintf("%s: response %d declares Content-Encoding %q", desc, k+1, ces)
			return res
		}
		enc := ""
		if len(ces) == 1 {
			enc = strings.ToLower(strings.TrimSpace(ces[0]))
		}
		dec, derr := c22RefDecode(enc, raw)
		if derr != nil {
			res.sig = fmt.Sprintf("handler-%s-%s-undecodable", c22ModeNames[cs.Mode], c22EncName(enc))
			res.what = fmt.Sprintf("%s: response %d declares Content-Encoding %q but its %d body bytes do not decode: %v (decoded %d of %d bytes)", desc, k+1, enc, len(raw), derr, len(dec), len(body))
			return res
		}
		if !bytes.Equal(dec, body) {
			res.sig = fmt.Sprintf("handler-%s-%s-decodes-%s", c22ModeNames[cs.Mode], c22EncName(enc), c22Shape(dec, body))
			res.what = fmt.Sprintf("%s: response %d (Content-Encoding %q, %d wire bytes) decodes to %d bytes, the handler produced %d", desc, k+1, enc, len(raw), len(dec), len(body))
			return res
		}
		if enc != "" && enc != "identity" {
			if ok, why := c22Accepts(cs.HasAE, cs.AE, enc); !ok {
				res.sig = "encoding-not-accepted-" + why
				res.what = fmt.Sprintf("%s: response %d uses Content-Encoding %q which the request does not accept (%s)", desc, k+1, enc, why)
				return res
			}
			if !c22VaryHas(resp.Header) {
				res.sig = "compressed-without-vary-accept-encoding"
				res.what = fmt.Sprintf("%s: response %d is %s-compressed but Vary is %q", desc, k+1, enc, resp.Header.Values("Vary"))
				return res
			}
		}
		res.enc = append(res.enc, c22EncName(enc))
	}
	if br.Buffered() != 0 {
		res.sig, res.what = "handler-extra-bytes-after-responses", fmt.Sprintf("%s: %d bytes follow the second response", desc, br.Buffered())
	}
	return res
}

func c22EncName(enc string) string {
	if enc == "" {
		return "identity"
	}
	return enc
}

func c22AEDesc(has bool, ae string) string {
	if !has {
		return "(absent)"
	}
	return strconv.Quote(ae)
}

// c22World runs f as the main thread of a fresh single-caller world at the real queue size.
func c22World(f func()) *mcrt.Exec {
	cfg := mcrt.Config{Horizon: 1 << 30}
	c22SetGC(400)
	return mcrt.RunOnce(&cfg, nil, func() {
		mcrt.SetParam("stackless:lit:2048", 2048)
		f()
	})
}

func c22WorldFailure(x *mcrt.Exec) (sig, what string) {
	switch {
	case x.Out.Panic != "":
		l := strings.Split(x.Out.Panic, "\n")
		// the class of a panic is its message (without the thread prefix and addresses)
		msg := l[0]
		if i := strings.Index(msg, "): "); i >= 0 {
			msg = msg[i+3:]
		}
		slug := make([]byte, 0, 40)
		for i := 0; i < len(msg) && len(slug) < 40; i++ {
			c := msg[i]
			switch {
			case c >= 'a' && c <= 'z', c >= '0' && c <= '9':
				slug = append(slug, c)
			case c >= 'A' && c <= 'Z':
				slug = append(slug, c+32)
			case len(slug) > 0 && slug[len(slug)-1] != '-':
				slug = append(slug, '-')
			}
		}
		if len(l) > 14 {
			l = l[:14]
		}
		return "panic-" + strings.Trim(string(slug), "-"), strings.Join(l, " | ")
	case x.Out.Fatal != "":
		return "fatal", x.Out.Fatal
	case x.Out.Deadlock:
		return "deadlock", strings.Join(x.Out.Blocked, "; ")
	case x.Out.Horizon:
		return "horizon", "step horizon exceeded"
	}
	return "", ""
}

// ---- codec pairs ---------------------------------------------------------------------------------------------------

type c22PCase struct {
	Part  string `json:"part"` // "P"
	Codec int    `json:"codec"`
	Named bool   `json:"default_level_api"` // use the API without a level argument (AppendGzipBytes, WriteGzip, ...)
	Level int    `json:"level"`
	Body  int    `json:"body"`
	BodyN string `json:"body_name"`
	Form  int    `json:"form"` // 0 Append*Bytes(dst with prefix), 1 Write*(*bytes.Buffer), 2 Write*(*bytebufferpool.ByteBuffer), 3 Write*(plain io.Writer)
}

var c22FormNames = []string{"append", "write-bytes.Buffer", "write-ByteBuffer", "write-io.Writer"}

type c22CodecT struct {
	Name        string // content-coding name
	AppendLevel func(dst, src []byte, level int) []byte
	Append      func(dst, src []byte) []byte
	WriteLevel  func(w io.Writer, p []byte, level int) (int, error)
	Write       func(w io.Writer, p []byte) (int, error) // nil: no such API
	AppendUn    func(dst, src []byte) ([]byte, error)
	WriteUn     func(w io.Writer, p []byte) (int, error)
}

var c22Codecs = []c22CodecT{
	{"gzip", AppendGzipBytesLevel, AppendGzipBytes, WriteGzipLevel, WriteGzip, AppendGunzipBytes, WriteGunzip},
	{"deflate", AppendDeflateBytesLevel, AppendDeflateBytes, WriteDeflateLevel, WriteDeflate, AppendInflateBytes, WriteInflate},
	{"br", AppendBrotliBytesLevel, AppendBrotliBytes, WriteBrotliLevel, WriteBrotli, AppendUnbrotliBytes, WriteUnbrotli},
	{"zstd", AppendZstdBytesLevel, AppendZstdBytes, WriteZstdLevel, nil, AppendUnzstdBytes, WriteUnzstd},
}

// c22PlainWriter is an io.Writer that is none of the three types the Write* functions special-case.
type c22PlainWriter struct{ b []byte }

func (w *c22PlainWriter) Write(p []byte) (int, error) { w.b = append(w.b, p...); return len(p), nil }

// c22Compress performs one compression call of the given form; returns the produced stream and the error the call
// reported (Append* cannot report one).
func c22Compress(cd *c22CodecT, form int, named bool, level int, src []byte) (out []byte, err error, what string) {
	const pfx = "PFX:"
	switch form {
	case 0:
		var dst []byte
		if named {
			dst = cd.Append([]byte(pfx), src)
		} else {
			dst = cd.AppendLevel([]byte(pfx), src, level)
		}
		if !bytes.HasPrefix(dst, []byte(pfx)) {
			return dst, nil, "dst-prefix-lost"
		}
		return dst[len(pfx):], nil, ""
	case 1:
		var w bytes.Buffer
		if named {
			_, err = cd.Write(&w, src)
		} else {
			_, err = cd.WriteLevel(&w, src, level)
		}
		return w.Bytes(), err, ""
	case 2:
		var w bytebufferpool.ByteBuffer
		if named {
			_, err = cd.Write(&w, src)
		} else {
			_, err = cd.WriteLevel(&w, src, level)
		}
		return w.B, err, ""
	}
	w := &c22PlainWriter{}
	if named {
		_, err = cd.Write(w, src)
	} else {
		_, err = cd.WriteLevel(w, src, level)
	}
	return w.b, err, ""
}

type c22PRes struct{ sig, what string }

func c22RunP(cs *c22PCase) c22PRes {
	cd := &c22Codecs[cs.Codec]
	src := c22Bodies()[cs.Body].B
	var outs [2][]byte
	var errs [2]error
	var notes [2]string
	var own1, own2 [2][]byte
	var ownErr1, ownErr2 [2]error
	x := c22World(func() {
		for k := 0; k < 2; k++ {
			o, err, note := c22Compress(cd, cs.Form, cs.Named, cs.Level, src)
			outs[k], errs[k], notes[k] = append([]byte(nil), o...), err, note
			// the library's own decompression counterparts
			own1[k], ownErr1[k] = cd.AppendUn([]byte("Q"), outs[k])
			var w bytes.Buffer
			_, ownErr2[k] = cd.WriteUn(&w, outs[k])
			own2[k] = w.Bytes()
		}
	})
	lv := fmt.Sprintf("level %d", cs.Level)
	if cs.Named {
		lv = "default-level API"
	}
	desc := fmt.Sprintf("%s %s %s input=%s", cd.Name, c22FormNames[cs.Form], lv, c22Bodies()[cs.Body].Name)
	if s, w := c22WorldFailure(x); s != "" {
		return c22PRes{"codec-" + cd.Name + "-" + s, desc + ": " + w}
	}
	for k := 0; k < 2; k++ {
		if notes[k] != "" {
			return c22PRes{"codec-" + cd.Name + "-" + notes[k], desc + ": " + notes[k]}
		}
		if errs[k] != nil {
			// a reported error is not a silent failure, but a single sequential call has no reason to fail
			return c22PRes{"codec-" + cd.Name + "-sequential-call-error", fmt.Sprintf("%s: call %d returned error %v with no concurrent load", desc, k+1, errs[k])}
		}
		dec, err := c22RefDecode(cd.Name, outs[k])
		if err != nil {
			return c22PRes{fmt.Sprintf("codec-%s-%s-undecodable", cd.Name, c22FormNames[cs.Form]), fmt.Sprintf("%s: call %d produced %d bytes that the reference decoder rejects: %v", desc, k+1, len(outs[k]), err)}
		}
		if !bytes.Equal(dec, src) {
			return c22PRes{fmt.Sprintf("codec-%s-%s-decodes-%s", cd.Name, c22FormNames[cs.Form], c22Shape(dec, src)), fmt.Sprintf("%s: call %d output (%d bytes) decodes to %d bytes, input had %d", desc, k+1, len(outs[k]), len(dec), len(src))}
		}
		if ownErr1[k] != nil || len(own1[k]) < 1 || own1[k][0] != 'Q' || !bytes.Equal(own1[k][1:], src) {
			return c22PRes{fmt.Sprintf("codec-%s-own-append-decoder-roundtrip", cd.Name), fmt.Sprintf("%s: call %d: AppendUn* gives err=%v, %d bytes (want 1+%d)", desc, k+1, ownErr1[k], len(own1[k]), len(src))}
		}
		if ownErr2[k] != nil || !bytes.Equal(own2[k], src) {
			return c22PRes{fmt.Sprintf("codec-%s-own-write-decoder-roundtrip", cd.Name), fmt.Sprintf("%s: call %d: WriteUn* gives err=%v, %d bytes (want %d)", desc, k+1, ownErr2[k], len(own2[k]), len(src))}
		}
	}
	return c22PRes{}
}

// ---- enumeration ---------------------------------------------------------------------------------------------------

var c22AEs = []string{
	// single tokens
	"gzip", "deflate", "br", "zstd", "identity", "*", "", "compress", "x-gzip",
	// lists
	"gzip, deflate", "deflate, gzip", "gzip, deflate, br", "br, gzip", "gzip, deflate, br, zstd", "zstd, br", "deflate, zstd", "zstd, gzip",
	"gzip,deflate", "gzip , deflate", "deflate,gzip", "compress, gzip", "x-gzip, gzip", "identity, br",
	// q-values, exclusions
	"gzip;q=0", "gzip;q=0, deflate", "deflate, gzip;q=0", "gzip;q=0, deflate;q=0, br", "br;q=0, gzip", "gzip;q=1.0", "gzip;q=0.5, deflate;q=0.8",
	"gzip; q=0", "gzip;q=0.0", "gzip;q=0.000, zstd", "*;q=0", "identity;q=0", "gzip, *;q=0", "*;q=0, gzip", "gzip;q=0, *",
	"zstd;q=0, br;q=0, deflate;q=0, gzip;q=0", "br;q=0, zstd", "deflate;q=0, zstd", "gzip;q=0,deflate", "deflate;q=0 , gzip", "zstd;q=0, deflate",
	"br;q=0", "zstd;q=0", "deflate;q=0", "deflate;q=0, br;q=0, zstd;q=0, gzip", "gzip;q=0, br;q=0, zstd;q=0, deflate",
	// case
	"GZIP", "Gzip", "DEFLATE, gzip", "BR", "Zstd", "gzip;Q=0", "GZIP;q=0, deflate", "Deflate;q=0, gzip",
	// substrings of other tokens
	"gzipx", "notbr", "br2", "xbr, gzip", "zstdx, deflate", "deflate64",
}

var c22Levels = []int{-5, -4, -3, -2, -1, 0, 1, 2, 3, 4, 5, 6, 7, 8, 9, 10, 11, 12}

// c22SeqCases builds the sequential case list (deterministic order; the same list in every process).
func c22SeqCases(thorough bool) (hs []c22HCase, ps []c22PCase) {
	bodies := c22Bodies()
	addH := func(c c22HCase) {
		c.Part = "H"
		c.BodyN = bodies[c.Body].Name
		hs = append(hs, c)
	}
	const bEmpty, b200, b201, b4k = 0, 3, 4, 5
	// levels that differ in kind: below range, none, fastest, default, best, above range
	keyLevel := func(lv int) bool { return lv == -5 || lv == -2 || lv == 0 || lv == 1 || lv == 6 || lv == 9 || lv == 12 }
	// (1) every Accept-Encoding value (and the absent header) x the three wrappers x {201 B, 4 KiB} x 4 modes (thorough)
	for wrap := 0; wrap < 3; wrap++ {
		for _, body := range []int{b201, b4k} {
			for mode := 0; mode < 4; mode++ {
				if !thorough && !((body == b201 && mode == 0) || (body == b4k && mode == 2 && wrap != 0)) {
					continue // quick: 201 B buffered through all three wrappers, 4 KiB streamed through the two level wrappers
				}
				addH(c22HCase{Wrap: wrap, Level: CompressDefaultCompression, BrLevel: CompressBrotliDefaultCompression, Body: body, Mode: mode})
				for _, ae := range c22AEs {
					addH(c22HCase{Wrap: wrap, Level: CompressDefaultCompression, BrLevel: CompressBrotliDefaultCompression, Body: body, HasAE: true, AE: ae, Mode: mode})
				}
			}
		}
	}
	// (2) level x codec (selected by a single-token Accept-Encoding) x body x {buffered, stream-unsized}: all 18 levels
	// on {200 B, 4 KiB} (every body in the thorough tier), the levels that differ in kind on the others
	for _, tok := range []string{"gzip", "deflate", "br", "zstd"} {
		for body := range bodies {
			for _, lv := range c22Levels {
				if !thorough && body != b200 && body != b4k && !keyLevel(lv) {
					continue
				}
				if !thorough && body == 7 && !(lv == -5 || lv == 0 || lv == 6 || lv == 12) {
					continue
				}
				for _, mode := range []int{0, 2} {
					if tok == "br" {
						addH(c22HCase{Wrap: 2, Level: CompressDefaultCompression, BrLevel: lv, Body: body, HasAE: true, AE: tok, Mode: mode})
					} else {
						addH(c22HCase{Wrap: 1, Level: lv, Body: body, HasAE: true, AE: tok, Mode: mode})
						if body == b4k || thorough {
							addH(c22HCase{Wrap: 2, Level: lv, BrLevel: CompressBrotliDefaultCompression, Body: body, HasAE: true, AE: tok, Mode: mode})
						}
					}
				}
			}
		}
	}
	// (3) all bodies x all modes x the three wrappers with a browser-like header
	for wrap := 0; wrap < 3; wrap++ {
		for body := range bodies {
			for mode := 0; mode < 4; mode++ {
				addH(c22HCase{Wrap: wrap, Level: CompressDefaultCompression, BrLevel: CompressBrotliDefaultCompression, Body: body, HasAE: true, AE: "gzip, deflate, br, zstd", Mode: mode})
			}
		}
	}
	// (5) the other ways of setting a buffered body (SetBodyRaw, repeated ctx.Write) x every coding x wrappers x bodies
	for _, mode := range []int{4, 5} {
		for body := range bodies {
			if !thorough && body != b200 && body != b4k && body != 6 {
				continue
			}
			for _, tok := range []string{"gzip", "deflate", "br", "zstd", "gzip, deflate, br, zstd"} {
				for wrap := 0; wrap < 3; wrap++ {
					addH(c22HCase{Wrap: wrap, Level: CompressDefaultCompression, BrLevel: CompressBrotliDefaultCompression, Body: body, HasAE: true, AE: tok, Mode: mode})
				}
			}
		}
	}
	// (4) handler-declared Content-Encoding / Vary / Content-Type x (wrapper, token) x mode x body {200 B, 4 KiB}
	type wt struct {
		wrap int
		tok  string
	}
	wts := []wt{{0, "gzip"}, {1, "deflate"}, {1, "zstd"}, {2, "br"}, {2, "gzip, deflate, br, zstd"}}
	if thorough {
		wts = nil
		for wrap := 0; wrap < 3; wrap++ {
			for _, tok := range []string{"gzip", "deflate", "br", "zstd", "gzip, deflate, br, zstd"} {
				wts = append(wts, wt{wrap, tok})
			}
		}
	}
	for _, pre := range []struct{ ce, vary, ct string }{
		{"gzip", "", ""}, {"br", "", ""}, {"identity", "", ""}, {"x-custom", "", ""}, {"deflate", "Origin", ""},
		{"", "Origin", ""}, {"", "accept-encoding", ""}, {"", "Accept-Encoding", ""}, {"", "Origin, Accept-Encoding", ""}, {"", "*", ""}, {"", "X-Accept-Encoding", ""},
		{"", "", "image/png"}, {"", "", "application/json"}, {"", "", "image/svg+xml"}, {"", "", "video/mp4"},
	} {
		for _, w := range wts {
			for _, body := range []int{b200, b4k} {
				for mode := 0; mode < 4; mode++ {
					addH(c22HCase{Wrap: w.wrap, Level: CompressDefaultCompression, BrLevel: CompressBrotliDefaultCompression, Body: body, HasAE: true, AE: w.tok, Mode: mode,
						PreCE: pre.ce, PreVary: pre.vary, CT: pre.ct})
				}
			}
		}
	}
	// codec pairs: codec x level x body x call form, plus the APIs without a level argument. Quick tier: all 18 levels on
	// {empty, 201 B, 4 KiB} x {append, io.Writer}; the levels that differ in kind on every body x every form.
	for ci := range c22Codecs {
		for body := range bodies {
			for form := 0; form < 4; form++ {
				for _, lv := range c22Levels {
					full := (body == bEmpty || body == b201 || body == b4k) && (form == 0 || form == 3)
					if !thorough && !full && !keyLevel(lv) {
						continue
					}
					if !thorough && body == 7 && ((form != 0 && form != 3) || !(lv == -5 || lv == 0 || lv == 6 || lv == 12) || (ci == 2 && lv == 12 && form != 0)) {
						continue // 1 MiB: the two writer paths x {below range, none, default, above range}; other forms: default-level API
					}
					ps = append(ps, c22PCase{Part: "P", Codec: ci, Level: lv, Body: body, BodyN: bodies[body].Name, Form: form})
				}
				if form == 0 || c22Codecs[ci].Write != nil {
					ps = append(ps, c22PCase{Part: "P", Codec: ci, Named: true, Body: body, BodyN: bodies[body].Name, Form: form})
				}
			}
		}
	}
	return hs, ps
}

// c22RunSeqCase runs one sequential case, confirms a failure twice more (determinism) and records it.
func c22RunSeqH(r *vrt.R, cs *c22HCase) {
	res := c22RunH(cs)
	if res.sig != "" {
		for i := 0; i < 2; i++ {
			if again := c22RunH(cs); again.sig != res.sig {
				r.ToolError("C22 handler case %+v: violation %q did not reproduce (got %q)", *cs, res.sig, again.sig)
			}
		}
		r.Violation(res.sig, res.what, cs)
		return
	}
	compressed := false
	for _, e := range res.enc {
		r.AddMap("seq_handler_responses_by_declared_encoding", e, 1)
		if e != "identity" {
			compressed = true
		}
	}
	if compressed {
		r.Nontrivial(fmt.Sprintf("H%+v", *cs))
		r.AddMap("seq_handler_compressed_by_mode", c22ModeNames[cs.Mode], 1)
	}
	if cs.HasAE && strings.Contains(strings.ToLower(cs.AE), "q=0") {
		r.Add("seq_handler_cases_with_q0_exclusion", 1)
	}
}

func c22RunSeqP(r *vrt.R, cs *c22PCase) {
	res := c22RunP(cs)
	if res.sig != "" {
		for i := 0; i < 2; i++ {
			if again := c22RunP(cs); again.sig != res.sig {
				r.ToolError("C22 codec case %+v: violation %q did not reproduce (got %q)", *cs, res.sig, again.sig)
			}
		}
		r.Violation(res.sig, res.what, cs)
		return
	}
	r.Nontrivial(fmt.Sprintf("P%+v", *cs))
	r.AddMap("seq_codec_roundtrips", c22Codecs[cs.Codec].Name+"/"+c22FormNames[cs.Form], 1)
}
