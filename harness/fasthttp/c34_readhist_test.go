//go:build verif

package fasthttp

// C34, reading side: histories of body streams.
//
// The stream a consumer reads a request or response body from (Request.BodyStream with the streaming reader,
// Response.BodyStream with StreamBody) is a pooled object. A case is a short HISTORY of such bodies handled one after
// the other on one goroutine: every body has its own framing (chunked with a chunk split / fixed length, partly
// pre-read or not / until connection close) and its own consumer, which reads with a given buffer size and either goes
// on to the end or gives the stream up after a given number of bytes (or loses the connection in the middle of the
// body) before the stream is closed. Whatever an earlier body and its consumer did, every stream must hand out exactly
// the bytes its own message carries.

import (
	"bufio"
	"bytes"
	"fmt"
	"io"
	"strconv"
	"strings"
	"sync"

	"github.com/valyala/fasthttp/internal/verif/vrt"
)

type c34RBody struct {
	Side    string // "req" | "resp": the kind of message the body belongs to
	Frame   string // "chunked" | "fixed" (Content-Length) | "identity" (responses: body ends with the connection)
	Parts   []int  // chunked: payload sizes of the chunks; fixed / identity: one element, the body size
	Trailer bool   `json:",omitempty"` // chunked: a trailer field follows the last chunk
	Max     int    `json:",omitempty"` // maxBodySize handed to the reader; 0: the default (request: DefaultMaxRequestBodySize, response: unlimited)
	Cut     int    `json:",omitempty"` // the connection ends this many bytes before the end of the message (0: complete message)
	Buf     int    // size of the buffer the consumer reads with
	Stop    int    // the consumer gives up after this many body bytes; -1: it reads until io.EOF or an error
	End     string // how the stream is ended: "close" = CloseBodyStream, "reset" = Reset of the message
}

const c34Sentinel = "NEXT-MESSAGE-ON-THE-SAME-CONNECTION"

func (b *c34RBody) total() int {
	n := 0
	for _, x := range b.Parts {
		n += x
	}
	return n
}

// frameKey identifies the message on the wire (not the consumer).
func (b *c34RBody) frameKey() string {
	return fmt.Sprintf("%s/%s/%v/%v", b.Side, b.Frame, b.Parts, b.Trailer)
}

// c34RWire builds the message of body number idx: header block, body bytes as framed, and the payload a reader must
// hand out. Different positions in a history carry different payload bytes, so data that leaks from one body into the
// next can never pass for the right bytes.
func c34RWire(b *c34RBody, idx int) (head, body, payload []byte) {
	payload = c03Pattern[idx*11:][:b.total()]
	h := make([]byte, 0, 96)
	var w []byte
	if b.Side == "resp" {
		h = append(h, "HTTP/1.1 200 OK\r\n"...)
	} else {
		h = append(h, "POST /p HTTP/1.1\r\nHost: h\r\n"...)
	}
	switch b.Frame {
	case "chunked":
		h = append(h, "Transfer-Encoding: chunked\r\n"...)
		if b.Trailer {
			h = append(h, "Trailer: X-T\r\n"...)
		}
		w = make([]byte, 0, len(payload)+8*len(b.Parts)+16)
		off := 0
		for _, sz := range b.Parts {
			w = strconv.AppendInt(w, int64(sz), 16)
			w = append(w, "\r\n"...)
			w = append(w, payload[off:off+sz]...)
			w = append(w, "\r\n"...)
			off += sz
		}
		w = append(w, "0\r\n"...)
		if b.Trailer {
			w = append(w, "X-T: v\r\n"...)
		}
		w = append(w, "\r\n"...)
	case "fixed":
		h = append(h, "Content-Length: "...)
		h = strconv.AppendInt(h, int64(len(payload)), 10)
		h = append(h, "\r\n"...)
		w = payload
	case "identity":
		w = payload
	}
	h = append(h, "\r\n"...)
	return h, w, payload
}

// c34RVerifyFrame cross-checks the harness's own encoder with the two independent decoders (own splitter, net/http).
func c34RVerifyFrame(b *c34RBody) string {
	head, body, payload := c34RWire(b, 0)
	msg := append(append([]byte(nil), head...), body...)
	if b.Frame == "identity" {
		return "" // delimited by the end of the connection: nothing to decode
	}
	full := append(append([]byte(nil), msg...), c34Sentinel...)
	w, err := c03Split(full, b.Side == "resp", false)
	if err != nil {
		return fmt.Sprintf("own splitter rejects the harness's message %s: %v", vrt34Q(msg), err)
	}
	if !bytes.Equal(w.Body, payload) || w.End != len(msg) {
		return fmt.Sprintf("own splitter decodes the harness's message %s to %d bytes ending at %d, want %d bytes ending at %d", vrt34Q(msg), len(w.Body), w.End, len(payload), len(msg))
	}
	n, err := c03NetHTTP(msg, b.Side == "resp", false)
	if err != nil {
		return fmt.Sprintf("net/http rejects the harness's message %s: %v", vrt34Q(msg), err)
	}
	if !bytes.Equal(n.Body, payload) {
		return fmt.Sprintf("net/http decodes the harness's message %s to %d bytes, want %d", vrt34Q(msg), len(n.Body), len(payload))
	}
	return ""
}

func vrt34Q(b []byte) string { return fmt.Sprintf("%q", c03Clip(b)) }

// c34RNet delivers a byte script in pieces of at most step bytes (0: as much as the caller takes), then io.EOF.
type c34RNet struct {
	b    []byte
	step int
}

func (n *c34RNet) Read(p []byte) (int, error) {
	if len(n.b) == 0 {
		return 0, io.EOF
	}
	if n.step > 0 && len(p) > n.step {
		p = p[:n.step]
	}
	k := copy(p, n.b)
	n.b = n.b[k:]
	return k, nil
}

// c34RIsolate makes sure the next stream acquired on this goroutine does not carry state from an earlier CASE: pooled
// objects that are not in the state of a new object are dropped. (Within a history nothing is dropped: re-use of the
// object released by the previous body is what the history is about.)
func c34RIsolate() {
	for i := 0; i < 1000; i++ {
		rs := requestStreamPool.Get().(*requestStream) //nolint:forcetypeassert
		if *rs == (requestStream{}) {
			requestStreamPool.Put(rs)
			return
		}
	}
}

// abandon names what the consumer of a body did, for violation classes.
func (b *c34RBody) abandon() string {
	t := b.total()
	switch {
	case b.Cut > 0:
		return "connection-lost-mid-body"
	case b.Stop < 0:
		return "read-to-eof"
	case b.Stop == 0:
		return "given-up-before-first-read"
	case b.Stop >= t:
		return "given-up-before-the-end-marker"
	}
	if b.Frame == "chunked" {
		off := 0
		for _, sz := range b.Parts {
			off += sz
			if b.Stop == off {
				return "given-up-on-a-chunk-boundary"
			}
		}
		return "given-up-mid-chunk"
	}
	if b.Frame == "fixed" && b.Side == "req" && (b.Max == 0 || b.Stop < b.Max) {
		return "given-up-in-the-pre-read-part"
	}
	return "given-up-mid-body"
}

func (b *c34RBody) class() string {
	s := b.Side + ":" + b.Frame
	if b.Trailer {
		s += "+trailer"
	}
	if b.Frame == "fixed" && b.Max > 0 && b.total() > b.Max {
		s += "+over-limit"
	}
	s += ":" + b.abandon()
	if b.End != "close" {
		s += ":" + b.End
	}
	return s
}

func c34RSig(sym string, c *c34Case) string {
	parts := make([]string, 0, len(c.Hist))
	for i := range c.Hist {
		parts = append(parts, c.Hist[i].class())
	}
	s := sym + "[read-history;" + strings.Join(parts, ">")
	if c.Split > 0 {
		s += fmt.Sprintf(";net-reads-of-%d", c.Split)
	}
	return s + "]"
}

// the connection readers are the harness's own and carry no state over (Reset)
var c34RReaders = sync.Pool{New: func() any { return bufio.NewReaderSize(nil, 4096) }}

type c34RStats struct {
	pooled   int  // bodies read through a pooled stream object
	reusable int  // adjacent pooled streams in the history
	reused   int  // ... of which the later one got the object the earlier one released
	abandons int  // bodies that were not read to the end
	eofShort bool // a body cut off by the connection was reported with a clean io.EOF (observed, not judged)
}

// c34ExecHist runs the history (again, up to 8 times, until every stream got the object its predecessor released, so
// that the verdict does not depend on the scheduler moving the goroutine between the two pool operations). Findings
// are kept only if a second such run shows them again: what a history does is a function of the history alone, whereas
// a goroutine that is moved to another processor between c34RIsolate and its first acquire can (under a defective
// library only) pick up an object another shard has just released.
func c34ExecHist(c *c34Case, o *c34Out) {
	once := func() (*c34RStats, []c34Finding) {
		var st *c34RStats
		var finds []c34Finding
		for attempt := 0; attempt < 8; attempt++ {
			o.finds = nil
			st = c34RunHist(c, o)
			finds = o.finds
			if st.reused == st.reusable {
				break
			}
		}
		return st, finds
	}
	st, finds := once()
	if len(finds) > 0 {
		_, again := once()
		var kept []c34Finding
		for _, f := range finds {
			for _, g := range again {
				if g.sym == f.sym {
					kept = append(kept, f)
					break
				}
			}
		}
		finds = kept
	}
	o.hist, o.finds = st, finds
}

func c34RunHist(c *c34Case, o *c34Out) *c34RStats {
	st := &c34RStats{}
	c34RIsolate()
	var prev *requestStream
	for i := range c.Hist {
		b := &c.Hist[i]
		head, body, payload := c34RWire(b, i)
		wire := append(append(make([]byte, 0, len(head)+len(body)+len(c34Sentinel)), head...), body...)
		complete := b.Cut == 0
		if complete {
			if b.Frame != "identity" {
				wire = append(wire, c34Sentinel...)
			}
		} else {
			wire = wire[:len(wire)-b.Cut]
		}
		br := c34RReaders.Get().(*bufio.Reader) //nolint:forcetypeassert
		br.Reset(&c34RNet{b: wire, step: c.Split})
		defer c34RReaders.Put(br)
		var resp Response
		var req Request
		var err error
		var bs io.Reader
		if b.Side == "resp" {
			resp.StreamBody = true
			err = resp.ReadLimitBody(br, b.Max)
			bs = resp.BodyStream()
		} else {
			max := b.Max
			if max == 0 {
				max = DefaultMaxRequestBodySize
			}
			if err = req.Header.Read(br); err == nil {
				err = req.readBodyStream(br, max, false, true)
			}
			bs = req.BodyStream()
		}
		where := c34RWhere{c, i}
		if err != nil {
			if complete {
				o.add("streaming-reader-rejects-wellformed-message", "%s: reading the message head/body start fails: %v", where, err)
			}
			// a connection lost inside the part that is pre-read: no stream to consume
			resp.Reset()
			req.Reset()
			continue
		}
		if bs == nil {
			if len(payload) > 0 && complete {
				o.add("no-body-stream-for-a-message-with-a-body", "%s: BodyStream() is nil", where)
			}
			resp.Reset()
			req.Reset()
			continue
		}
		if rs, ok := bs.(*requestStream); ok {
			st.pooled++
			if prev != nil {
				st.reusable++
				if prev == rs {
					st.reused++
				}
			}
			prev = rs
		}
		// ---- the consumer
		buf := make([]byte, b.Buf)
		var got []byte
		var rerr error
		idle := 0
		for b.Stop < 0 || len(got) < b.Stop {
			p := buf
			if b.Stop >= 0 && b.Stop-len(got) < len(p) {
				p = p[:b.Stop-len(got)]
			}
			n, e := bs.Read(p)
			if n < 0 || n > len(p) {
				o.add("stream-read-returns-impossible-count", "%s: Read(%d bytes) returned n=%d", where, len(p), n)
				n = 0
				e = io.ErrNoProgress
			}
			got = append(got, p[:n]...)
			if e != nil {
				rerr = e
				break
			}
			if n == 0 {
				if idle++; idle > 100 {
					o.add("stream-read-makes-no-progress", "%s: 100 successive Reads returned (0, nil) after %d bytes", where, len(got))
					break
				}
			} else {
				idle = 0
			}
		}
		// ---- what it was given
		switch {
		case bytes.HasPrefix(payload, got):
		case bytes.HasPrefix(got, payload):
			o.add("stream-delivers-bytes-beyond-its-body", "%s: the body has %d bytes, the stream handed out %d: ...%q", where, len(payload), len(got), c03Clip(got[len(payload):]))
		default:
			d := c34Diff(got, payload)
			o.add("stream-delivers-wrong-bytes", "%s: after %d right bytes the stream handed out %q where the body has %q", where, d, c03Clip(got[d:]), c03Clip(payload[d:]))
		}
		if complete {
			if rerr != nil && rerr != io.EOF {
				o.add("stream-read-fails-on-wellformed-body", "%s: Read failed after %d of %d bytes: %v", where, len(got), len(payload), rerr)
			}
			if rerr == io.EOF && len(got) < len(payload) {
				o.add("stream-ends-before-its-body-does", "%s: io.EOF after %d of %d bytes", where, len(got), len(payload))
			}
		} else if rerr == io.EOF && len(got) < len(payload) {
			st.eofShort = true
		}
		if rerr == io.EOF {
			// the end is sticky and takes nothing more off the connection
			n, e := bs.Read(buf)
			if n != 0 || e != io.EOF {
				o.add("stream-read-after-eof-not-eof", "%s: a Read after io.EOF returned (%d, %v)", where, n, e)
			}
			if complete && b.Frame != "identity" && bytes.Equal(got, payload) {
				rest, _ := io.ReadAll(br)
				if !bytes.Equal(rest, []byte(c34Sentinel)) {
					if len(rest) < len(c34Sentinel) {
						o.add("stream-consumes-bytes-after-its-message", "%s: after io.EOF %d of the %d bytes that follow the message are left on the connection", where, len(rest), len(c34Sentinel))
					} else {
						o.add("stream-leaves-message-bytes-on-the-connection", "%s: after io.EOF the connection still holds %q before the next message", where, c03Clip(rest[:len(rest)-len(c34Sentinel)]))
					}
				}
			}
		} else {
			st.abandons++
		}
		// ---- the stream is ended
		if b.End == "reset" {
			resp.Reset()
			req.Reset()
		} else {
			if b.Side == "resp" {
				err = resp.CloseBodyStream()
			} else {
				err = req.CloseBodyStream()
			}
			if err != nil {
				o.add("close-of-read-side-stream-fails", "%s: CloseBodyStream: %v", where, err)
			}
			if resp.BodyStream() != nil || req.BodyStream() != nil {
				o.add("stream-kept-after-close", "%s: BodyStream() is still set after CloseBodyStream", where)
			}
			resp.Reset()
			req.Reset()
		}
	}
	return st
}

// c34ShrinkHist drops bodies and simplifies the remaining ones while the symptom persists.
// c34RWhere is formatted only when a finding is written.
type c34RWhere struct {
	c *c34Case
	i int
}

func (w c34RWhere) String() string {
	return fmt.Sprintf("body %d of %d (%s)", w.i+1, len(w.c.Hist), w.c.Hist[w.i].class())
}

func c34ShrinkHist(c c34Case, sym string) c34Case {
	clone := func(x c34Case) c34Case {
		y := x
		y.Hist = make([]c34RBody, len(x.Hist))
		for i := range x.Hist {
			y.Hist[i] = x.Hist[i]
			y.Hist[i].Parts = append([]int(nil), x.Hist[i].Parts...)
		}
		return y
	}
	try := func(cand c34Case) bool {
		if cand.key() == c.key() {
			return false
		}
		if c34Has(c34Exec(&cand), sym) {
			c = cand
			return true
		}
		return false
	}
	for changed, rounds := true, 0; changed && rounds < 20; rounds++ {
		changed = false
		for i := 0; i < len(c.Hist) && len(c.Hist) > 1; i++ {
			cand := clone(c)
			cand.Hist = append(cand.Hist[:i], cand.Hist[i+1:]...)
			if try(cand) {
				changed = true
				i--
			}
		}
		if c.Split != 0 {
			cand := clone(c)
			cand.Split = 0
			changed = try(cand) || changed
		}
		for i := range c.Hist {
			for _, f := range []func(b *c34RBody) bool{
				func(b *c34RBody) bool { b.Trailer = false; return true },
				func(b *c34RBody) bool {
					// without the trailer field the framed body is 8 bytes shorter: keep the place where the connection is lost
					if !b.Trailer || b.Cut <= 8 {
						return false
					}
					b.Trailer, b.Cut = false, b.Cut-8
					return true
				},
				func(b *c34RBody) bool { b.Max = 0; return true },
				func(b *c34RBody) bool { b.End = "close"; return true },
				func(b *c34RBody) bool { b.Buf = 64; return true },
				func(b *c34RBody) bool { b.Cut, b.Stop = 0, -1; return true },
				func(b *c34RBody) bool {
					if len(b.Parts) < 2 {
						return false
					}
					b.Parts = b.Parts[:len(b.Parts)-1]
					if b.Stop > b.total() {
						b.Stop = b.total()
					}
					return true
				},
				func(b *c34RBody) bool {
					for k, sz := range b.Parts {
						if sz > 3 && b.Stop < 3 {
							b.Parts[k] = 3
							return true
						}
					}
					return false
				},
				func(b *c34RBody) bool {
					if b.Stop > 1 {
						b.Stop = 1
						return true
					}
					return false
				},
			} {
				cand := clone(c)
				if f(&cand.Hist[i]) {
					changed = try(cand) || changed
				}
			}
		}
	}
	return c
}

// ---------------------------------------------------------------------------------------------------------------
// the enumerated space

type c34RSpace struct {
	frames []c34RBody   // every message shape (consumer fields unset)
	firsts [][]c34RBody // per frame: every consumer of a body that is followed by another one
	reps   [][]c34RBody // per frame: the representative consumers used for the inner bodies of longer histories
	lasts  [][]c34RBody // per frame: the consumers of the last body of a history (they read to the end)
}

func c34RBuildSpace(partSizes []int, maxParts int, bufs []int) *c34RSpace {
	sp := &c34RSpace{}
	var seqs [][]int
	var rec func(cur []int)
	rec = func(cur []int) {
		seqs = append(seqs, append([]int(nil), cur...))
		if len(cur) == maxParts {
			return
		}
		for _, s := range partSizes {
			rec(append(cur, s))
		}
	}
	rec(nil)
	for _, side := range []string{"req", "resp"} {
		for _, q := range seqs {
			for _, tr := range []bool{false, true} {
				sp.frames = append(sp.frames, c34RBody{Side: side, Frame: "chunked", Parts: q, Trailer: tr})
			}
		}
		for _, sz := range append([]int{0}, partSizes...) {
			for _, max := range []int{0, 2} {
				sp.frames = append(sp.frames, c34RBody{Side: side, Frame: "fixed", Parts: []int{sz}, Max: max})
			}
		}
		if side == "resp" {
			for _, sz := range partSizes[1:] {
				sp.frames = append(sp.frames, c34RBody{Side: side, Frame: "identity", Parts: []int{sz}})
			}
		}
	}
	for _, f := range sp.frames {
		_, body, _ := c34RWire(&f, 0)
		t := f.total()
		var firsts, reps, lasts []c34RBody
		mk := func(stop, cut, buf int, end string) c34RBody {
			b := f
			b.Stop, b.Cut, b.Buf, b.End = stop, cut, buf, end
			return b
		}
		for _, buf := range bufs {
			lasts = append(lasts, mk(-1, 0, buf, "close"))
			for _, end := range []string{"close", "reset"} {
				for stop := -1; stop <= t; stop++ {
					firsts = append(firsts, mk(stop, 0, buf, end))
				}
				if f.Frame != "identity" {
					for cut := 1; cut <= len(body); cut++ {
						firsts = append(firsts, mk(-1, cut, buf, end))
					}
				}
			}
		}
		// representatives: to the end, nothing, one byte, first chunk boundary and one byte past it, everything but the
		// end marker; connection lost after one byte of the framed body, in its middle and one byte before its end
		stops := map[int]bool{-1: true, 0: true}
		for _, s := range []int{1, f.parts0(), f.parts0() + 1, t} {
			if s <= t {
				stops[s] = true
			}
		}
		for stop := -1; stop <= t; stop++ {
			if stops[stop] {
				reps = append(reps, mk(stop, 0, 64, "close"))
			}
		}
		if f.Frame != "identity" {
			cuts := map[int]bool{}
			for _, cut := range []int{1, len(body) / 2, len(body) - 1} {
				if cut >= 1 && cut <= len(body) && !cuts[cut] {
					cuts[cut] = true
					reps = append(reps, mk(-1, cut, 64, "close"))
				}
			}
		}
		sp.firsts, sp.reps, sp.lasts = append(sp.firsts, firsts), append(sp.reps, reps), append(sp.lasts, lasts)
	}
	return sp
}

func (b *c34RBody) parts0() int {
	if len(b.Parts) == 0 {
		return 0
	}
	return b.Parts[0]
}

func c34Flatten(x [][]c34RBody) []c34RBody {
	var out []c34RBody
	for _, l := range x {
		out = append(out, l...)
	}
	return out
}

const c34RRule = "Read-side stream histories: every history of 2 and of 3 bodies handled one after the other on one goroutine, each read through the streaming readers " +
	"(Request.readBodyStream / Response.ReadLimitBody with StreamBody, whose stream objects are pooled); body = {request, response} x {chunked with every sequence of at most 2 chunks of %v bytes, with/without a trailer field; " +
	"Content-Length %v with the body limit {default, 2} (pre-read / over-limit streaming); read-until-close (responses)}; consumer of a body that is followed by another one = Read buffer %v x " +
	"{reads to io.EOF, gives up after every byte count 0..size (incl. all data but not the end marker), the connection is lost at every offset of the framed body} x stream ended by {CloseBodyStream, Reset}; " +
	"the last body is read to io.EOF with %s; network read size %v. Histories of 3: the first two bodies use the representative consumers {to EOF, 0, 1, first chunk, first chunk+1, all data; connection lost after 1 byte / mid-way / 1 byte before the end} " +
	"with a 64-byte buffer (%s), the last body is read to io.EOF with a 64-byte buffer. " +
	"Oracle per body: the bytes handed out are a prefix of the body of its own message (never bytes of another body, framing bytes or bytes after the message), a complete message read to the end yields exactly its body and io.EOF without a Read error, " +
	"a Read after io.EOF returns (0, io.EOF), and the bytes that follow the message are all still on the connection; no library panic. A history is re-run (at most 8 times) until each stream got the pooled object its predecessor released; " +
	"non-trivial: histories in which a body was given up or cut off and a later body was read through the very object released by it."

// c34ReadHistories enumerates the read-side histories.
func c34RParams(thorough bool) (partSizes, bufs, splits []int) {
	if thorough {
		return []int{1, 3, 17}, []int{1, 5, 64}, []int{0, 1}
	}
	return []int{1, 3, 17}, []int{1, 64}, []int{0}
}

func c34RRuleText(thorough bool) string {
	partSizes, bufs, splits := c34RParams(thorough)
	lastBufs, mid := "a 64-byte buffer", "quick tier: the middle body is a fixed-length or read-until-close body that is read to its end, i.e. one that does not itself touch the chunk state"
	if thorough {
		lastBufs, mid = "every buffer size", "thorough tier: every representative as the middle body"
	}
	return fmt.Sprintf(c34RRule, partSizes, append([]int{0}, partSizes...), bufs, lastBufs, splits, mid)
}

func c34ReadHistories(r *vrt.R, rp *c34Reporter, merge func(map[string]int64)) {
	partSizes, bufs, splits := c34RParams(r.Thorough())
	sp := c34RBuildSpace(partSizes, 2, bufs)
	for i := range sp.frames {
		if e := c34RVerifyFrame(&sp.frames[i]); e != "" {
			r.ToolError("%s", e)
		}
	}
	firsts, reps, lasts := c34Flatten(sp.firsts), c34Flatten(sp.reps), c34Flatten(sp.lasts)
	var lasts64, midQuick []c34RBody
	for _, b := range lasts {
		if b.Buf == 64 {
			lasts64 = append(lasts64, b)
		}
	}
	for _, b := range reps {
		if r.Thorough() || b.Frame != "chunked" && b.Stop < 0 && b.Cut == 0 {
			midQuick = append(midQuick, b)
		}
	}
	if !r.Thorough() {
		lasts = lasts64
	}
	r.Set("read_history_message_shapes", len(sp.frames))
	r.Set("read_history_first_body_variants", len(firsts))
	r.Set("read_history_last_body_variants", len(lasts))
	r.Set("read_history_representative_variants", len(reps))
	r.Set("read_histories_of_2", len(firsts)*len(lasts)*len(splits))
	r.Set("read_histories_of_3", len(reps)*len(midQuick)*len(lasts64))

	var stopped bool
	var smu sync.Mutex
	expired := func(what string, i, n int) bool {
		smu.Lock()
		defer smu.Unlock()
		if !stopped && r.Expired() {
			stopped = true
			r.NotExhaustive(fmt.Sprintf("time budget reached in the read-side histories (%s, shard %d of %d)", what, i, n))
		}
		return stopped
	}
	run := func(c c34Case, local map[string]int64, hash uint64) {
		o := c34Exec(&c)
		if len(o.finds) > 0 || o.toolErr != "" {
			rp.report(c, o)
		}
		local["read_histories"]++
		if st := o.hist; st != nil {
			local["read_history_bodies_through_pooled_stream"] += int64(st.pooled)
			local["read_history_bodies_not_read_to_the_end"] += int64(st.abandons)
			local["read_history_stream_object_reuse_possible"] += int64(st.reusable)
			local["read_history_stream_object_reuse_confirmed"] += int64(st.reused)
			if st.reused < st.reusable {
				local["read_histories_without_confirmed_reuse"]++
			}
			if st.eofShort {
				local["observed_cut_off_body_reported_as_clean_eof"]++
			}
			if hash != 0 && st.abandons > 0 && st.reused > 0 && st.reused == st.reusable {
				r.NontrivialHash(hash)
			}
		}
	}
	mix := func(a, b, c, d int) uint64 {
		h := uint64(0x9e3779b97f4a7c15)
		for _, x := range []int{a, b, c, d} {
			h = (h ^ uint64(x+1)) * 0x100000001b3
			h ^= h >> 29
		}
		return h | 1<<63
	}
	// ---- histories of two bodies
	r.Par(len(firsts), func(i int) {
		if rp.toolErr() != "" || expired("histories of 2", i, len(firsts)) {
			return
		}
		local := map[string]int64{}
		for si, split := range splits {
			for j := range lasts {
				c := c34Case{Kind: "readhist", Split: split, Hist: []c34RBody{firsts[i], lasts[j]}}
				h := mix(2, i, j, 0) // distinct non-trivial histories are counted up to the network read size
				if si > 0 {
					h = 0
				}
				run(c, local, h)
				if i%97 == 5 && j == 3 && split == 0 && firsts[i].Stop > 0 && r.WantSample() {
					r.Sample(map[string]any{"case": c, "class": c34RSig("", &c)})
				}
			}
		}
		r.Eval(int(local["read_histories"]))
		merge(local)
	})
	// ---- histories of three bodies
	r.Par(len(reps), func(i int) {
		if rp.toolErr() != "" || expired("histories of 3", i, len(reps)) {
			return
		}
		local := map[string]int64{}
		for m := range midQuick {
			for j := range lasts64 {
				c := c34Case{Kind: "readhist", Hist: []c34RBody{reps[i], midQuick[m], lasts64[j]}}
				h := mix(3, i, m, 0) // ... and, for three bodies, up to the shape of the last body
				if j > 0 {
					h = 0
				}
				run(c, local, h)
			}
		}
		r.Eval(int(local["read_histories"]))
		merge(local)
	})
}
