//go:build verif

package fasthttpadaptor

// C36: fasthttpadaptor handlers behave like the same handler under net/http.
//
// Part A (differential, NewFastHTTPHandler): every handler program (op sequence up to a stated length over a fixed op
// alphabet) is executed by ONE http.Handler value that is mounted (1) on a real net/http server and (2) on a
// fasthttp.Server through NewFastHTTPHandler, both on in-memory listeners. The same request bytes are written to
// both; the final responses (1xx interim responses skipped on both sides) are compared on status code, handler-set
// header fields (multiset per canonical name) and body.
//
// Part B (ConvertRequest): every request of a slot product is parsed by net/http.ReadRequest and by
// fasthttp.Request.Read + ConvertRequest; Method, URL, Proto*, Host, Header and body are compared.

import (
	"bufio"
	"bytes"
	"encoding/json"
	"fmt"
	"io"
	"log"
	"net"
	"net/http"
	"os"
	"runtime"
	"sort"
	"strconv"
	"strings"
	"sync"
	"sync/atomic"
	"testing"
	"time"

	"github.com/valyala/fasthttp"
	"github.com/valyala/fasthttp/internal/verif/seqx"
	"github.com/valyala/fasthttp/internal/verif/vrt"
)

// ---------------------------------------------------------------------------------------------------------------
// Part A: handler programs

const (
	c36KindWriteHeader = iota
	c36KindAdd
	c36KindSet
	c36KindWrite
	c36KindFlush
)

type c36Op struct {
	Name string
	Kind int
	Code int
	K, V string
	Data []byte
}

var c36Big = bytes.Repeat([]byte("0123456789"), 60) // 600 bytes > the 512-byte sniffing window

var c36Ops = []c36Op{
	{Name: "WriteHeader(103)", Kind: c36KindWriteHeader, Code: 103},
	{Name: "WriteHeader(200)", Kind: c36KindWriteHeader, Code: 200},
	{Name: "WriteHeader(204)", Kind: c36KindWriteHeader, Code: 204},
	{Name: "WriteHeader(404)", Kind: c36KindWriteHeader, Code: 404},
	{Name: `Header().Add("X-A","1")`, Kind: c36KindAdd, K: "X-A", V: "1"},
	{Name: `Header().Add("X-A","2")`, Kind: c36KindAdd, K: "X-A", V: "2"},
	{Name: `Header().Set("X-B","v")`, Kind: c36KindSet, K: "X-B", V: "v"},
	{Name: `Header().Set("Content-Type","text/x")`, Kind: c36KindSet, K: "Content-Type", V: "text/x"},
	{Name: `Write("")`, Kind: c36KindWrite, Data: []byte{}},
	{Name: `Write("short")`, Kind: c36KindWrite, Data: []byte("short")},
	{Name: `Write("<html>..")`, Kind: c36KindWrite, Data: []byte("<html><body>x</body></html>")},
	{Name: "Write(600 bytes)", Kind: c36KindWrite, Data: c36Big},
	{Name: "Flush()", Kind: c36KindFlush},
}

// c36Names are the header fields a program can set; only these are compared (DESIGN 3.7: fields either server adds
// by itself are outside the comparison; Content-Type only when the program sets it explicitly).
var c36Names = []string{"X-A", "X-B", "Content-Type"}

const c36CTOp = 7

func c36ProgString(prog []int) string {
	if len(prog) == 0 {
		return "-"
	}
	var sb strings.Builder
	for i, p := range prog {
		if i > 0 {
			sb.WriteByte(',')
		}
		sb.WriteString(strconv.Itoa(p))
	}
	return sb.String()
}

func c36ParseProg(s string) ([]int, bool) {
	if s == "-" {
		return nil, true
	}
	if s == "" {
		return nil, false
	}
	var out []int
	for _, f := range strings.Split(s, ",") {
		n, err := strconv.Atoi(f)
		if err != nil || n < 0 || n >= len(c36Ops) {
			return nil, false
		}
		out = append(out, n)
	}
	return out, true
}

// c36Handler is the single http.Handler both servers run: it interprets the program named by the X-Prog field.
func c36Handler(w http.ResponseWriter, r *http.Request) {
	prog, ok := c36ParseProg(r.Header.Get("X-Prog"))
	if !ok {
		w.WriteHeader(599) // the program did not reach the handler: shows up as a status difference
		return
	}
	for _, i := range prog {
		op := &c36Ops[i]
		switch op.Kind {
		case c36KindWriteHeader:
			w.WriteHeader(op.Code)
		case c36KindAdd:
			w.Header().Add(op.K, op.V)
		case c36KindSet:
			w.Header().Set(op.K, op.V)
		case c36KindWrite:
			w.Write(op.Data) //nolint:errcheck // ErrBodyNotAllowed (204, HEAD) is part of the behaviour under test
		case c36KindFlush:
			if f, ok := w.(http.Flusher); ok {
				f.Flush()
			}
		}
	}
}

type c36ReqKind struct {
	Method string
	Proto  string
}

func c36Request(k c36ReqKind, prog []int) []byte {
	var b bytes.Buffer
	fmt.Fprintf(&b, "%s /p HTTP/%s\r\nHost: h\r\nX-Prog: %s\r\nConnection: close\r\n", k.Method, k.Proto, c36ProgString(prog))
	if k.Method == "POST" {
		b.WriteString("Content-Length: 5\r\n\r\nhello")
	} else {
		b.WriteString("\r\n")
	}
	return b.Bytes()
}

// c36Resp is what a client observed.
type c36Resp struct {
	Status   int // 0: no final response arrived
	Interim  []int
	H        map[string][]string // only c36Names
	Body     []byte
	BodyErr  string
	Err      string
	TimedOut bool // the harness watchdog fired (never part of a verdict)
}

// c36Listener is an in-memory listener over net.Pipe (standard library; synchronous, supports deadlines that
// interrupt a blocked Read, which net/http's server relies on in abortPendingRead). fasthttputil.InmemoryListener is
// not used for the reference side: its pipe conns do not wake a Read that is already blocked when SetReadDeadline is
// called, so a net/http server with a close-delimited (HTTP/1.0, flushed) response never closes the connection.
type c36Listener struct {
	ch     chan net.Conn
	closed chan struct{}
	once   sync.Once
}

func c36NewListener() *c36Listener {
	return &c36Listener{ch: make(chan net.Conn), closed: make(chan struct{})}
}

func (l *c36Listener) Accept() (net.Conn, error) {
	select {
	case c := <-l.ch:
		return c, nil
	case <-l.closed:
		return nil, net.ErrClosed
	}
}

func (l *c36Listener) Close() error {
	l.once.Do(func() { close(l.closed) })
	return nil
}

func (l *c36Listener) Addr() net.Addr { return &net.TCPAddr{IP: net.IPv4(127, 0, 0, 1), Port: 80} }

func (l *c36Listener) Dial() (net.Conn, error) {
	c1, c2 := net.Pipe()
	select {
	case l.ch <- c2:
		return c1, nil
	case <-l.closed:
		c1.Close()
		c2.Close()
		return nil, net.ErrClosed
	}
}

type c36Env struct {
	hln, fln *c36Listener
	hs       *http.Server
	fs       *fasthttp.Server
	done     sync.WaitGroup
}

type c36NopLogger struct{}

func (c36NopLogger) Printf(string, ...any) {}

func c36NewEnv() *c36Env {
	e := &c36Env{hln: c36NewListener(), fln: c36NewListener()}
	h := http.HandlerFunc(c36Handler)
	e.hs = &http.Server{Handler: h, ErrorLog: log.New(io.Discard, "", 0)}
	e.fs = &fasthttp.Server{Handler: NewFastHTTPHandler(h), Logger: c36NopLogger{}}
	e.done.Add(2)
	go func() { defer e.done.Done(); e.hs.Serve(e.hln) }() //nolint:errcheck
	go func() { defer e.done.Done(); e.fs.Serve(e.fln) }() //nolint:errcheck
	return e
}

func (e *c36Env) close() {
	e.hln.Close()
	e.fln.Close()
	e.hs.Close()
	e.done.Wait()
}

// c36WatchdogDumped makes the first watchdog hit dump all goroutine stacks to stderr (diagnosis of a stalled case).
var c36WatchdogDumped atomic.Bool

const c36WatchdogTimeout = 60 * time.Second

// c36Failed is set before a tool error is raised so that the deferred End does not replace the tool-error result
// and so that the remaining shards stop.
var c36Failed atomic.Bool

func c36ToolError(r *vrt.R, format string, a ...any) {
	c36Failed.Store(true)
	r.ToolError(format, a...)
}

// c36RoundTrip writes req on a fresh connection and reads responses until the final (non-1xx) one is complete.
// c36RoundTripRetry repeats a round trip whose watchdog fired (handler programs are stateless, so a repetition is
// the same case). The watchdog is not an oracle: a case that stalls three times is a tool error; a case that completes
// is judged on its complete response only.
func c36RoundTripRetry(r *vrt.R, ln *c36Listener, req []byte, method, side string) c36Resp {
	for attempt := 0; ; attempt++ {
		res := c36RoundTrip(ln, req, method)
		if !res.TimedOut {
			return res
		}
		r.Add("a_watchdog_retries_"+side, 1)
		if c36WatchdogDumped.CompareAndSwap(false, true) {
			buf := make([]byte, 4<<20)
			buf = buf[:runtime.Stack(buf, true)]
			fmt.Fprintf(os.Stderr, "C36 watchdog (%s side) for %q: %s\n%s\n", side, req, res.Err+res.BodyErr, buf)
		}
		if attempt == 2 {
			c36ToolError(r, "watchdog: the %s side did not complete a response within %v in 3 attempts for %q", side, c36WatchdogTimeout, req)
		}
	}
}

func c36RoundTrip(ln *c36Listener, req []byte, method string) c36Resp {
	var res c36Resp
	c, err := ln.Dial()
	if err != nil {
		res.Err = "dial: " + err.Error()
		return res
	}
	defer c.Close()
	// Watchdog only (a hit is a tool error, never a verdict): every explored case completes in microseconds.
	c.SetDeadline(time.Now().Add(c36WatchdogTimeout)) //nolint:errcheck
	if _, err := c.Write(req); err != nil {
		if ne, ok := err.(net.Error); ok && ne.Timeout() {
			res.TimedOut = true
		}
		res.Err = "write: " + err.Error()
		return res
	}
	br := bufio.NewReader(c)
	hreq := &http.Request{Method: method}
	for {
		resp, err := http.ReadResponse(br, hreq)
		if err != nil {
			if ne, ok := err.(net.Error); ok && ne.Timeout() {
				res.TimedOut = true
			}
			res.Err = err.Error()
			return res
		}
		if resp.StatusCode >= 100 && resp.StatusCode <= 199 && resp.StatusCode != 101 {
			res.Interim = append(res.Interim, resp.StatusCode)
			continue
		}
		res.Status = resp.StatusCode
		res.H = map[string][]string{}
		for _, n := range c36Names {
			if v := resp.Header.Values(n); len(v) > 0 {
				res.H[n] = append([]string(nil), v...)
			}
		}
		body, err := io.ReadAll(resp.Body)
		res.Body = body
		if err != nil {
			if ne, ok := err.(net.Error); ok && ne.Timeout() {
				res.TimedOut = true
			}
			res.BodyErr = err.Error()
		}
		return res
	}
}

// c36Model is an independent transcription of the documented http.ResponseWriter contract (WriteHeader: first
// non-informational call wins and snapshots the header map; Write/Flush imply WriteHeader(200); no body for HEAD,
// 1xx, 204, 304). It is NOT the oracle: the oracle is the response of the real net/http server. The model is
// cross-validated against that server on every case (tool error on disagreement) and is used to name the shape
// of a difference (which op was "late").
type c36Model struct {
	Status     int
	H          map[string][]string // committed snapshot
	Final      map[string][]string // header map when the handler returned
	AtFlush    map[string][]string // header map at the first Flush (nil: no flush)
	Body       []byte
	CommitBy   int    // op kind that committed the header (-1: handler return)
	CommitAt   int    // index in the program (len(prog): handler return)
	LateStatus []int  // WriteHeader codes (non-1xx) called after the commit
	Info       []int  // informational codes called before the commit
	InfoFirst  bool   // the first WriteHeader call of the program is informational
	LateHdr    bool   // some Header() mutation happened after the commit
	Flushed    bool   // program flushes
	AnyWH      bool   // an explicit non-1xx status was written before commit
	Repeated   bool   // committed snapshot holds a repeated field
	BigBody    bool   // body longer than 512 bytes
	Sniffed    bool   // body written without committed Content-Type
	Nontrivial bool   // differs from the canonical (empty program) response
	_          string // keep vet quiet about unkeyed fields
}

func c36CloneH(h map[string][]string) map[string][]string {
	o := make(map[string][]string, len(h))
	for k, v := range h {
		o[k] = append([]string(nil), v...)
	}
	return o
}

func c36RunModel(prog []int, method string) *c36Model {
	m := &c36Model{CommitBy: -1, CommitAt: len(prog)}
	h := map[string][]string{}
	committed := false
	commit := func(code, kind, at int) {
		m.Status, m.H, m.CommitBy, m.CommitAt = code, c36CloneH(h), kind, at
		committed = true
	}
	seenWH := false
	for at, i := range prog {
		op := &c36Ops[i]
		switch op.Kind {
		case c36KindWriteHeader:
			info := op.Code >= 100 && op.Code <= 199
			if !seenWH {
				seenWH = true
				m.InfoFirst = info
			}
			switch {
			case committed:
				if !info {
					m.LateStatus = append(m.LateStatus, op.Code)
				}
			case info:
				m.Info = append(m.Info, op.Code)
			default:
				m.AnyWH = true
				commit(op.Code, c36KindWriteHeader, at)
			}
		case c36KindAdd:
			h[op.K] = append(h[op.K], op.V)
			if committed {
				m.LateHdr = true
			}
		case c36KindSet:
			h[op.K] = []string{op.V}
			if committed {
				m.LateHdr = true
			}
		case c36KindWrite:
			if !committed {
				commit(200, c36KindWrite, at)
			}
			if method != "HEAD" && m.Status != 204 && m.Status != 304 {
				m.Body = append(m.Body, op.Data...)
			}
		case c36KindFlush:
			if !m.Flushed {
				m.AtFlush = c36CloneH(h)
			}
			m.Flushed = true
			if !committed {
				commit(200, c36KindFlush, at)
			}
		}
	}
	if !committed {
		commit(200, -1, len(prog))
	}
	m.Final = h
	m.Repeated = len(m.H["X-A"]) > 1
	m.BigBody = len(m.Body) > 512
	m.Sniffed = len(m.Body) > 0 && len(m.H["Content-Type"]) == 0
	m.Nontrivial = m.Status != 200 || len(m.H) > 0 || len(m.Body) > 0 || len(m.Info) > 0
	return m
}

func c36SameSet(a, b []string) bool {
	if len(a) != len(b) {
		return false
	}
	x := append([]string(nil), a...)
	y := append([]string(nil), b...)
	sort.Strings(x)
	sort.Strings(y)
	for i := range x {
		if x[i] != y[i] {
			return false
		}
	}
	return true
}

func c36HasOp(prog []int, op int) bool {
	for _, p := range prog {
		if p == op {
			return true
		}
	}
	return false
}

var c36KindWord = map[int]string{c36KindWriteHeader: "writeheader", c36KindWrite: "write", c36KindFlush: "flush", -1: "return"}

type c36Artefact struct {
	Part    string   `json:"part"`
	Prog    []int    `json:"prog,omitempty"`
	Ops     []string `json:"ops,omitempty"`
	Method  string   `json:"method,omitempty"`
	Proto   string   `json:"proto,omitempty"`
	Request string   `json:"request"` // Go-quoted bytes
	// Part C: the whole sequence converted into one reused http.Request (Go-quoted), Request is its last element
	Requests  []string `json:"requests,omitempty"`
	ForServer bool     `json:"for_server,omitempty"`
}

type c36Counters struct {
	cases, nontrivial, explicitStatus, informational, repeated, bigBody, flushed, lateHdr, lateStatus, sniffed, head, post, http10, interimSeen int64
}

func (c *c36Counters) flush(r *vrt.R) {
	r.Add("a_cases", c.cases)
	r.Add("a_cases_nontrivial", c.nontrivial)
	r.Add("a_cases_explicit_status", c.explicitStatus)
	r.Add("a_cases_informational_before_final", c.informational)
	r.Add("a_cases_repeated_header_field", c.repeated)
	r.Add("a_cases_body_over_512", c.bigBody)
	r.Add("a_cases_flushed", c.flushed)
	r.Add("a_cases_header_mutated_after_commit", c.lateHdr)
	r.Add("a_cases_writeheader_after_commit", c.lateStatus)
	r.Add("a_cases_content_type_sniffed", c.sniffed)
	r.Add("a_cases_head", c.head)
	r.Add("a_cases_post_with_body", c.post)
	r.Add("a_cases_http10", c.http10)
	r.Add("a_cases_nethttp_sent_1xx_interim", c.interimSeen)
	*c = c36Counters{}
}

// c36CheckA runs one (program, request kind) case on both servers and evaluates the oracle.
func c36CheckA(r *vrt.R, e *c36Env, prog []int, k c36ReqKind, cnt *c36Counters) {
	req := c36Request(k, prog)
	want := c36RoundTripRetry(r, e.hln, req, k.Method, "nethttp")
	got := c36RoundTripRetry(r, e.fln, req, k.Method, "adaptor")
	m := c36RunModel(prog, k.Method)

	art := func() c36Artefact {
		a := c36Artefact{Part: "A", Prog: append([]int{}, prog...), Method: k.Method, Proto: k.Proto, Request: vrt.Q(req)}
		for _, p := range prog {
			a.Ops = append(a.Ops, c36Ops[p].Name)
		}
		return a
	}
	desc := func() string {
		a := art()
		return fmt.Sprintf("%s HTTP/%s handler{%s}", k.Method, k.Proto, strings.Join(a.Ops, "; "))
	}

	// --- reference sanity: the net/http server must have produced a complete final response that the transcribed
	// ResponseWriter contract explains. Otherwise the harness (not the adaptor) is wrong.
	if want.Status == 0 || want.Err != "" || want.BodyErr != "" {
		c36ToolError(r, "net/http reference produced no complete final response for %s: %+v", desc(), want)
	}
	if want.Status != m.Status || !bytes.Equal(want.Body, m.Body) {
		c36ToolError(r, "net/http reference disagrees with the ResponseWriter contract model for %s: status %d/%d body %d/%d bytes",
			desc(), want.Status, m.Status, len(want.Body), len(m.Body))
	}
	for _, n := range c36Names {
		if n == "Content-Type" && len(m.H[n]) == 0 {
			continue // sniffed or absent: not handler-set
		}
		if !c36SameSet(want.H[n], m.H[n]) {
			c36ToolError(r, "net/http reference disagrees with the ResponseWriter contract model for %s: field %s %q/%q", desc(), n, want.H[n], m.H[n])
		}
	}

	// --- coverage
	cnt.cases++
	if m.Nontrivial {
		cnt.nontrivial++
		r.Nontrivial("A|" + k.Method + k.Proto + "|" + c36ProgString(prog))
	}
	if m.AnyWH {
		cnt.explicitStatus++
	}
	if len(m.Info) > 0 {
		cnt.informational++
	}
	if m.Repeated {
		cnt.repeated++
	}
	if m.BigBody {
		cnt.bigBody++
	}
	if m.Flushed {
		cnt.flushed++
	}
	if m.LateHdr {
		cnt.lateHdr++
	}
	if len(m.LateStatus) > 0 {
		cnt.lateStatus++
	}
	if m.Sniffed {
		cnt.sniffed++
	}
	switch k.Method {
	case "HEAD":
		cnt.head++
	case "POST":
		cnt.post++
	}
	if k.Proto == "1.0" {
		cnt.http10++
	}
	if len(want.Interim) > 0 {
		cnt.interimSeen++
	}
	if r.WantSample() && len(prog) >= 3 && m.Nontrivial {
		r.Sample(map[string]any{"part": "A", "case": desc(), "nethttp_status": want.Status, "adaptor_status": got.Status,
			"nethttp_fields": want.H, "adaptor_fields": got.H, "body_len": len(want.Body)})
	}

	// --- oracle: final status
	if got.Status == 0 {
		sig := "A:no-final-response"
		if m.InfoFirst {
			// the adaptor kept the informational code as the status of the only response it sent
			sig = "A:informational-status-sent-as-final"
		}
		r.Violation(sig, fmt.Sprintf("%s: net/http answers %d, through the adaptor the client receives interim %v and then no final response (%s)",
			desc(), want.Status, got.Interim, got.Err), art())
		return
	}
	if got.Status != want.Status {
		sig := fmt.Sprintf("A:status-differs-%d-for-%d", got.Status, want.Status)
		switch {
		case got.Status == 599:
			sig = "A:request-header-lost-before-handler"
		case m.CommitBy != c36KindWriteHeader && len(m.LateStatus) > 0 && m.LateStatus[0] == got.Status:
			sig = "A:writeheader-after-" + c36KindWord[m.CommitBy] + "-changes-status"
		case m.CommitBy == c36KindWriteHeader && len(m.LateStatus) > 0 && m.LateStatus[len(m.LateStatus)-1] == got.Status:
			sig = "A:second-writeheader-wins"
		}
		r.Violation(sig, fmt.Sprintf("%s: net/http answers %d, the adaptor answers %d", desc(), want.Status, got.Status), art())
	}

	// --- oracle: handler-set header fields
	for _, n := range c36Names {
		w, g := want.H[n], got.H[n]
		if n == "Content-Type" {
			if !c36HasOp(prog, c36CTOp) {
				continue // never handler-set: sniffed / default values are server-added
			}
			if len(m.H[n]) == 0 {
				// set only after the commit: net/http's value (if any) is sniffed; the handler's late value must not be sent
				if len(g) == 1 && g[0] == c36Ops[c36CTOp].V {
					r.Violation("A:header-set-after-"+c36KindWord[m.CommitBy]+"-is-sent",
						fmt.Sprintf("%s: Content-Type set after the header was committed; net/http sends %q, the adaptor sends the late value %q", desc(), w, g), art())
				}
				continue
			}
		}
		if c36SameSet(w, g) {
			continue
		}
		sig := "A:header-differs-" + n
		switch {
		case c36SameSet(w, m.H[n]) && ((m.AtFlush == nil && c36SameSet(g, m.Final[n])) || (m.AtFlush != nil && c36SameSet(g, m.AtFlush[n]))):
			// the adaptor sent the header map as it was at the first Flush / at handler return instead of the
			// map as it was when the header was committed
			sig = "A:header-set-after-" + c36KindWord[m.CommitBy] + "-is-sent"
		case len(g) < len(w) && len(g) > 0:
			sig = "A:repeated-header-value-dropped"
		case len(g) == 0:
			sig = "A:handler-header-missing"
			if got.Status == 204 || got.Status == 304 {
				sig += "-on-" + strconv.Itoa(got.Status)
			}
		case len(g) > len(w):
			sig = "A:header-value-duplicated"
		}
		r.Violation(sig, fmt.Sprintf("%s: field %s: net/http sends %q, the adaptor sends %q", desc(), n, w, g), art())
	}

	// --- oracle: body (when the statuses differ and one of them forbids a body, the body difference is the status
	// difference seen again, not a second defect)
	noBody := func(code int) bool { return code == 204 || code == 304 }
	if got.Status != want.Status && (noBody(got.Status) || noBody(want.Status)) {
		return
	}
	if !bytes.Equal(got.Body, want.Body) || got.BodyErr != "" {
		sig := "A:body-differs"
		switch {
		case got.BodyErr != "":
			sig = "A:body-incomplete"
		case len(want.Body) == 0 && (want.Status == 204 || want.Status == 304):
			sig = "A:body-sent-with-" + strconv.Itoa(want.Status)
		case len(want.Body) == 0 && k.Method == "HEAD":
			sig = "A:body-sent-for-head"
		case len(got.Body) == 0:
			sig = "A:body-lost"
		case bytes.HasPrefix(want.Body, got.Body):
			sig = "A:body-truncated"
		case bytes.HasPrefix(got.Body, want.Body):
			sig = "A:body-extra-bytes"
		}
		if m.Flushed {
			sig += "-flushed"
		}
		r.Violation(sig, fmt.Sprintf("%s: net/http sends a %d-byte body, the adaptor a %d-byte body (%s)", desc(), len(want.Body), len(got.Body), got.BodyErr), art())
	}
}

// ---------------------------------------------------------------------------------------------------------------
// Part B: ConvertRequest vs net/http.ReadRequest

type c36Slot struct {
	Name string
	Vals []string
}

func c36SlotsB(thorough bool) []c36Slot {
	s := []c36Slot{
		{"method", []string{"GET", "POST", "PUT", "PURGE", "OPTIONS"}},
		{"target", []string{"/", "/a?b=c", "/a%20b?x=%20", "http://h/x", "*"}},
		{"proto", []string{"HTTP/1.1", "HTTP/1.0"}},
		{"host", []string{"Host: example.com\r\n", "Host: example.com:8080\r\n", ""}},
		{"fields", []string{
			"",
			"X-A: 1\r\nX-A: 2\r\n",
			"Cookie: a=1\r\nCookie: b=2\r\n",
			"Cookie: a=1; b=2\r\n",
			"X-A: 1\r\nCookie: a=1\r\nX-A: 2\r\nCookie: b=2\r\n",
			"x-b: v\r\n",
			"X-B: \t v \t\r\n",
			"X-B:\r\n",
		}},
		{"body", []string{"none", "cl", "chunked"}},
	}
	if thorough {
		s[0].Vals = append(s[0].Vals, "HEAD", "DELETE", "PATCH")
		s[1].Vals = append(s[1].Vals, "/a/../b", "//x//y", "/a;p=1?q=1&q=2", "http://h:81/x?q=%41", "/%41%2f", "/?")
		s[3].Vals = append(s[3].Vals, "host: EXAMPLE.com\r\n", "Host: [::1]:80\r\n")
		s[4].Vals = append(s[4].Vals, "X-A: 1\r\nx-a: 2\r\nX-a: 3\r\n", "Accept: a\r\nAccept: b\r\nUser-Agent: u\r\nContent-Type: t/x\r\n", "Cookie: a=1\r\nCookie: b=2\r\nCookie: c=3\r\n")
		s[5].Vals = append(s[5].Vals, "cl0", "chunked2")
	}
	return s
}

func c36BuildReqB(slots []c36Slot, idx []int) []byte {
	v := func(i int) string { return slots[i].Vals[idx[i]] }
	var b bytes.Buffer
	fmt.Fprintf(&b, "%s %s %s\r\n%s%s", v(0), v(1), v(2), v(3), v(4))
	switch v(5) {
	case "none":
		b.WriteString("\r\n")
	case "cl":
		b.WriteString("Content-Length: 5\r\n\r\nhello")
	case "cl0":
		b.WriteString("Content-Length: 0\r\n\r\n")
	case "chunked":
		b.WriteString("Transfer-Encoding: chunked\r\n\r\n5\r\nhello\r\n0\r\n\r\n")
	case "chunked2":
		b.WriteString("Transfer-Encoding: chunked\r\n\r\n3\r\nhel\r\n2\r\nlo\r\n0\r\n\r\n")
	}
	return b.Bytes()
}

type c36Parsed struct {
	Method, URL, Path, RawPath, RawQuery, Scheme, URLHost string
	Proto                                                 string
	Major, Minor                                          int
	Host                                                  string
	Header                                                map[string][]string
	Body                                                  []byte
	BodyErr                                               string
}

func c36Snapshot(hr *http.Request) c36Parsed {
	p := c36Parsed{Method: hr.Method, Proto: hr.Proto, Major: hr.ProtoMajor, Minor: hr.ProtoMinor, Host: hr.Host,
		Header: c36CloneH(hr.Header)}
	if hr.URL != nil {
		p.URL, p.Path, p.RawPath, p.RawQuery, p.Scheme, p.URLHost = hr.URL.String(), hr.URL.Path, hr.URL.RawPath, hr.URL.RawQuery, hr.URL.Scheme, hr.URL.Host
	}
	if hr.Body != nil {
		b, err := io.ReadAll(hr.Body)
		p.Body = b
		if err != nil {
			p.BodyErr = err.Error()
		}
	}
	return p
}

type c36CountersB struct {
	cases, skippedRef, skippedFast, repeated, cookies2, body, chunked, http10, absolute int64
}

func c36CheckB(r *vrt.R, raw []byte, cnt *c36CountersB) {
	art := c36Artefact{Part: "B", Request: vrt.Q(raw)}
	cnt.cases++
	hr, err := http.ReadRequest(bufio.NewReader(bytes.NewReader(raw)))
	if err != nil {
		cnt.skippedRef++ // net/http does not parse these bytes: outside the statement ("net/http's parse of the same bytes")
		return
	}
	want := c36Snapshot(hr)
	if want.BodyErr != "" {
		cnt.skippedRef++
		return
	}

	var ctx fasthttp.RequestCtx
	var empty fasthttp.Request
	ctx.Init(&empty, &net.TCPAddr{IP: net.IPv4(10, 0, 0, 1), Port: 1234}, c36NopLogger{})
	if err := ctx.Request.Read(bufio.NewReader(bytes.NewReader(raw))); err != nil {
		// fasthttp refuses the request before the adaptor is involved; ConvertRequest has no input here.
		cnt.skippedFast++
		r.Add("b_fasthttp_rejects:"+c36ErrWord(err), 1)
		return
	}
	if len(want.Header["X-A"]) > 1 {
		cnt.repeated++
	}
	if len(want.Header["Cookie"]) > 1 {
		cnt.cookies2++
	}
	if len(want.Body) > 0 {
		cnt.body++
	}
	if bytes.Contains(raw, []byte("chunked")) {
		cnt.chunked++
	}
	if want.Minor == 0 {
		cnt.http10++
	}
	if want.Scheme != "" {
		cnt.absolute++
	}
	r.Nontrivial("B|" + string(raw))

	var cr http.Request
	if err := ConvertRequest(&ctx, &cr, true); err != nil {
		r.Violation("B:convert-error-"+c36ErrWord(err), fmt.Sprintf("ConvertRequest fails with %v for %s which net/http parses", err, vrt.Q(raw)), art)
		return
	}
	got := c36Snapshot(&cr)
	if r.WantSample() && len(want.Header) > 1 && len(want.Body) > 0 {
		r.Sample(map[string]any{"part": "B", "request": vrt.Q(raw), "nethttp": map[string]any{"method": want.Method, "url": want.URL, "proto": want.Proto, "host": want.Host, "header": want.Header, "body": string(want.Body)},
			"converted": map[string]any{"method": got.Method, "url": got.URL, "proto": got.Proto, "minor": got.Minor, "host": got.Host, "header": got.Header, "body": string(got.Body)}})
	}
	for _, d := range c36CompareParsed(raw, &want, &got) {
		r.Violation("B:"+d.Sig, fmt.Sprintf("%s: %s", vrt.Q(raw), d.What), art)
	}
}

// c36Diff is one difference between a converted request and net/http's parse, with the class it belongs to.
type c36Diff struct{ Sig, What string }

// c36CompareParsed is the oracle of Part B and Part C: every field the statement lists, including that the Header
// map has no key net/http's parse does not have (a key with an empty value list is still a key).
func c36CompareParsed(raw []byte, want, got *c36Parsed) []c36Diff {
	var out []c36Diff
	viol := func(sig, what string) {
		out = append(out, c36Diff{sig, what})
	}
	if got.Method != want.Method {
		viol("method-differs", fmt.Sprintf("Method %q, net/http %q", got.Method, want.Method))
	}
	if got.URL != want.URL || got.Path != want.Path || got.RawPath != want.RawPath || got.RawQuery != want.RawQuery || got.Scheme != want.Scheme || got.URLHost != want.URLHost {
		shape := "origin-form"
		switch {
		case want.Scheme != "":
			shape = "absolute-form"
		case want.Path == "*":
			shape = "asterisk-form"
		}
		viol("url-differs-"+shape, fmt.Sprintf("URL %q (path %q rawpath %q query %q host %q), net/http %q (path %q rawpath %q query %q host %q)",
			got.URL, got.Path, got.RawPath, got.RawQuery, got.URLHost, want.URL, want.Path, want.RawPath, want.RawQuery, want.URLHost))
	}
	if got.Proto != want.Proto {
		viol("proto-string-differs", fmt.Sprintf("Proto %q, net/http %q", got.Proto, want.Proto))
	}
	if got.Major != want.Major {
		viol("protomajor-differs", fmt.Sprintf("ProtoMajor %d, net/http %d", got.Major, want.Major))
	}
	if got.Minor != want.Minor {
		sig := "protominor-differs"
		if want.Minor == 0 && got.Minor == 1 {
			sig = "protominor-1-for-http10"
		}
		viol(sig, fmt.Sprintf("ProtoMinor %d (Proto %q), net/http %d", got.Minor, got.Proto, want.Minor))
	}
	if got.Host != want.Host {
		sig := "host-differs"
		switch {
		case want.Scheme != "":
			sig = "host-differs-absolute-form"
		case want.Host == "":
			sig = "host-invented-when-absent"
		case strings.EqualFold(got.Host, want.Host):
			sig = "host-case-changed"
		}
		viol(sig, fmt.Sprintf("Host %q, net/http %q", got.Host, want.Host))
	}
	names := map[string]bool{}
	for n := range want.Header {
		names[n] = true
	}
	for n := range got.Header {
		names[n] = true
	}
	sorted := make([]string, 0, len(names))
	for n := range names {
		sorted = append(sorted, n)
	}
	sort.Strings(sorted)
	for _, n := range sorted {
		w, g := want.Header[n], got.Header[n]
		if _, inGot := got.Header[n]; inGot && len(g) == 0 {
			if _, inWant := want.Header[n]; !inWant {
				viol("header-key-with-no-values", fmt.Sprintf("Header has the key %q with an empty value list, net/http's Header has no such key", n))
				continue
			}
		}
		if len(w) == len(g) {
			same := true
			for i := range w {
				same = same && w[i] == g[i]
			}
			if same {
				continue
			}
		}
		sig := "header-differs-" + n
		switch {
		case n == "Host" && len(w) == 0:
			sig = "host-kept-in-header"
		case n == "Cookie" && len(w) > 1 && len(g) == 1 && g[0] == strings.Join(w, "; "):
			sig = "cookie-lines-joined"
		case n == "Content-Length" && len(w) == 0:
			sig = "content-length-invented"
			if len(want.Body) == 0 {
				sig += "-no-body"
			}
		case n == "Content-Length" && len(g) == 0:
			sig = "content-length-dropped"
		case len(g) == 0:
			sig = "header-dropped-" + n
		case len(w) == 0:
			sig = "header-invented-" + n
		case c36SameSet(w, g):
			sig = "header-values-reordered-" + n
		case len(g) < len(w):
			sig = "header-values-lost-" + n
		case len(g) == len(w):
			sig = "header-value-differs-" + n
		}
		viol(sig, fmt.Sprintf("Header[%q] = %q, net/http %q", n, g, w))
	}
	if !bytes.Equal(got.Body, want.Body) || got.BodyErr != "" {
		sig := "body-differs"
		switch {
		case len(got.Body) == 0 && (want.Method == "GET" || want.Method == "HEAD"):
			sig = "body-lost-for-" + strings.ToLower(want.Method)
		case len(got.Body) == 0:
			sig = "body-lost"
		}
		if bytes.Contains(raw, []byte("chunked")) {
			sig += "-chunked"
		}
		viol(sig, fmt.Sprintf("body %q (%s), net/http %q", got.Body, got.BodyErr, want.Body))
	}
	return out
}

// ---------------------------------------------------------------------------------------------------------------
// Part C: ConvertRequest into ONE reused http.Request (the documented usage: "Memory in use by the http.Request will
// be reused"). After each conversion of a sequence the reused request must equal net/http's parse of that request's
// bytes alone, exactly as in Part B.

type c36ReuseItem struct {
	raw       []byte
	want      c36Parsed
	ctx       *fasthttp.RequestCtx
	fresh     [2]c36Parsed       // conversion into a fresh http.Request, forServer=false/true
	freshDiff [2]map[string]bool // differences (Sig+What) the fresh conversion already has against net/http (Part B's business)
}

// c36ReuseRequests returns the requests of the slot product with at most maxDev non-canonical slots that both
// parsers accept.
func c36ReuseRequests(slots []c36Slot, maxDev int) [][]byte {
	dims := make([]int, len(slots))
	for i, s := range slots {
		dims[i] = len(s.Vals)
	}
	var out [][]byte
	seqx.Product(dims, maxDev, func(idx []int) bool {
		raw := c36BuildReqB(slots, idx)
		if hr, err := http.ReadRequest(bufio.NewReader(bytes.NewReader(raw))); err != nil {
			return true
		} else if _, err := io.ReadAll(hr.Body); err != nil {
			return true
		}
		var req fasthttp.Request
		if req.Read(bufio.NewReader(bytes.NewReader(raw))) != nil {
			return true
		}
		out = append(out, raw)
		return true
	})
	return out
}

// c36ReuseItems parses every request (own RequestCtx objects: ConvertRequest mutates lazily parsed state of the ctx,
// so they are never shared between shards).
func c36ReuseItems(r *vrt.R, reqs [][]byte) []*c36ReuseItem {
	items := make([]*c36ReuseItem, len(reqs))
	for i, raw := range reqs {
		it := &c36ReuseItem{raw: raw, ctx: new(fasthttp.RequestCtx)}
		hr, err := http.ReadRequest(bufio.NewReader(bytes.NewReader(raw)))
		if err != nil {
			c36ToolError(r, "reuse: net/http rejects %s: %v", vrt.Q(raw), err)
		}
		it.want = c36Snapshot(hr)
		var empty fasthttp.Request
		it.ctx.Init(&empty, &net.TCPAddr{IP: net.IPv4(10, 0, 0, 1), Port: 1234}, c36NopLogger{})
		if err := it.ctx.Request.Read(bufio.NewReader(bytes.NewReader(raw))); err != nil {
			c36ToolError(r, "reuse: fasthttp rejects %s: %v", vrt.Q(raw), err)
		}
		for mode := 0; mode < 2; mode++ {
			var cr http.Request
			if err := ConvertRequest(it.ctx, &cr, mode == 1); err != nil {
				c36ToolError(r, "reuse: ConvertRequest fails for %s: %v", vrt.Q(raw), err)
			}
			it.fresh[mode] = c36Snapshot(&cr)
			it.freshDiff[mode] = map[string]bool{}
			for _, d := range c36CompareParsed(raw, &it.want, &it.fresh[mode]) {
				it.freshDiff[mode][d.Sig+"|"+d.What] = true
			}
		}
		items[i] = it
	}
	return items
}

func c36ParsedEqual(a, b *c36Parsed) bool {
	if a.Method != b.Method || a.URL != b.URL || a.Path != b.Path || a.RawPath != b.RawPath || a.RawQuery != b.RawQuery ||
		a.Scheme != b.Scheme || a.URLHost != b.URLHost || a.Proto != b.Proto || a.Major != b.Major || a.Minor != b.Minor ||
		a.Host != b.Host || a.BodyErr != b.BodyErr || !bytes.Equal(a.Body, b.Body) || len(a.Header) != len(b.Header) {
		return false
	}
	for k, av := range a.Header {
		bv, ok := b.Header[k]
		if !ok || len(av) != len(bv) {
			return false
		}
		for i := range av {
			if av[i] != bv[i] {
				return false
			}
		}
	}
	return true
}

type c36CountersC struct {
	seqs, convs, staleKeys, prevBody, protoChange, targetChange int64
}

func (c *c36CountersC) flush(r *vrt.R) {
	r.Add("c_sequences", c.seqs)
	r.Add("c_conversions_into_reused_request", c.convs)
	r.Add("c_conversions_previous_had_header_key_absent_now", c.staleKeys)
	r.Add("c_conversions_previous_had_body_now_none", c.prevBody)
	r.Add("c_conversions_proto_changed", c.protoChange)
	r.Add("c_conversions_target_changed", c.targetChange)
	*c = c36CountersC{}
}

// c36CheckC converts items[seq[0]], items[seq[1]], ... into one http.Request and judges the request after each step.
func c36CheckC(r *vrt.R, items []*c36ReuseItem, seq []int, forServer bool, cnt *c36CountersC) {
	mode := 0
	if forServer {
		mode = 1
	}
	var hr http.Request
	cnt.seqs++
	for step, idx := range seq {
		it := items[idx]
		cnt.convs++
		if step > 0 {
			prev := items[seq[step-1]]
			for k := range prev.want.Header {
				if _, ok := it.want.Header[k]; !ok {
					cnt.staleKeys++
					break
				}
			}
			if len(prev.want.Body) > 0 && len(it.want.Body) == 0 {
				cnt.prevBody++
			}
			if prev.want.Proto != it.want.Proto {
				cnt.protoChange++
			}
			if prev.want.URL != it.want.URL {
				cnt.targetChange++
			}
		}
		art := func() c36Artefact {
			a := c36Artefact{Part: "C", ForServer: forServer, Request: vrt.Q(it.raw)}
			for _, j := range seq[:step+1] {
				a.Requests = append(a.Requests, vrt.Q(items[j].raw))
			}
			return a
		}
		if err := ConvertRequest(it.ctx, &hr, forServer); err != nil {
			r.Violation("B:reuse-convert-error-"+c36ErrWord(err), fmt.Sprintf("ConvertRequest into a reused http.Request fails with %v at step %d", err, step), art())
			return
		}
		got := c36Snapshot(&hr)
		if c36ParsedEqual(&got, &it.fresh[mode]) {
			continue // identical to the conversion into a fresh http.Request, which Part B judges against net/http
		}
		reported := false
		for _, d := range c36CompareParsed(it.raw, &it.want, &got) {
			if it.freshDiff[mode][d.Sig+"|"+d.What] {
				continue // the same difference exists without reuse: Part B reports it under its own class
			}
			reported = true
			r.Violation("B:reuse-"+d.Sig, fmt.Sprintf("conversion %d into one reused http.Request (forServer=%v), after %s, of %s: %s",
				step+1, forServer, vrt.Q(items[seq[step-min(step, 1)]].raw), vrt.Q(it.raw), d.What), art())
		}
		if !reported {
			c36ToolError(r, "reuse: the reused request differs from the fresh conversion but the oracle names no difference: %+v vs %+v", got, it.fresh[mode])
		}
	}
}

func c36ErrWord(err error) string {
	s := strings.TrimPrefix(err.Error(), "error when reading request headers: ")
	s = strings.TrimPrefix(s, "fasthttp: ")
	if i := strings.IndexAny(s, ":"); i > 0 {
		s = s[:i]
	}
	s = strings.Map(func(r rune) rune {
		switch {
		case r >= 'a' && r <= 'z', r >= '0' && r <= '9':
			return r
		case r >= 'A' && r <= 'Z':
			return r + 32
		}
		return '-'
	}, s)
	if len(s) > 40 {
		s = s[:40]
	}
	return s
}

// ---------------------------------------------------------------------------------------------------------------

var c36ReqKinds = []c36ReqKind{{"GET", "1.1"}, {"HEAD", "1.1"}, {"POST", "1.1"}, {"GET", "1.0"}, {"HEAD", "1.0"}, {"POST", "1.0"}}

func TestVerif_C36(t *testing.T) {
	r := vrt.Begin(t, "C36", "exploration")
	defer func() {
		if !c36Failed.Load() {
			r.End()
		}
	}()

	if rp := r.Replay(); rp != nil {
		var a c36Artefact
		if err := json.Unmarshal(rp, &a); err != nil {
			c36ToolError(r, "replay: %v", err)
		}
		switch a.Part {
		case "A":
			e := c36NewEnv()
			defer e.close()
			var cnt c36Counters
			c36CheckA(r, e, a.Prog, c36ReqKind{a.Method, a.Proto}, &cnt)
			r.Eval(1)
		case "B":
			raw, err := strconv.Unquote(a.Request)
			if err != nil {
				c36ToolError(r, "replay: bad request quoting: %v", err)
			}
			var cnt c36CountersB
			c36CheckB(r, []byte(raw), &cnt)
			r.Eval(1)
		case "C":
			var reqs [][]byte
			for _, q := range a.Requests {
				raw, err := strconv.Unquote(q)
				if err != nil {
					c36ToolError(r, "replay: bad request quoting: %v", err)
				}
				reqs = append(reqs, []byte(raw))
			}
			seq := make([]int, len(reqs))
			for i := range seq {
				seq[i] = i
			}
			var cnt c36CountersC
			c36CheckC(r, c36ReuseItems(r, reqs), seq, a.ForServer, &cnt)
			r.Eval(1)
		default:
			c36ToolError(r, "replay: unknown part %q", a.Part)
		}
		return
	}

	maxOps := vrt.Pick(r, 4, 5)
	nOps := len(c36Ops)
	var opNames []string
	for _, o := range c36Ops {
		opNames = append(opNames, o.Name)
	}
	slots := c36SlotsB(r.Thorough())
	dims := make([]int, len(slots))
	for i, s := range slots {
		dims[i] = len(s.Vals)
	}
	r.Rule(fmt.Sprintf("Part A: every handler program of at most %d ops over %q x requests {GET, HEAD, POST with 5-byte body} x {HTTP/1.1, HTTP/1.0}; "+
		"the same http.Handler value runs on a net/http server and on fasthttp.Server+NewFastHTTPHandler (in-memory listeners, one connection per case, Connection: close); "+
		"oracle: final (non-1xx) response has equal status, equal multiset of values for each handler-set field (X-A, X-B, Content-Type when the program sets it) and equal body bytes; "+
		"the net/http response is itself cross-checked against a transcription of the ResponseWriter contract (tool error on disagreement). "+
		"Part B: full product of request slots %v parsed by http.ReadRequest and by fasthttp Request.Read+ConvertRequest; oracle: equal Method, URL (String/Path/RawPath/RawQuery/Scheme/Host), Proto/ProtoMajor/ProtoMinor, Host, Header (ordered values per canonical name) and body bytes. "+
		"Part C: all ordered sequences of 2 (quick) / 3 (thorough; plus pairs over the larger thorough slot values) requests drawn from the requests of the Part B slot product with at most 2 non-canonical slots, converted one after the other into ONE reused http.Request with forServer false and true; oracle after every conversion: the Part B comparison against net/http's parse of that request alone, and no Header key net/http does not have (even with an empty value list). "+
		"Non-trivial: A-cases whose reference response differs from the empty program's (status, handler field, body or interim response); B-cases both parsers accept.",
		maxOps, opNames, dims))
	r.Assume("net/http (server, ReadRequest, ReadResponse) is the reference the statement names",
		"net.Pipe (standard library) is the transport for both servers",
		"Date, Server, Content-Length, Transfer-Encoding, Connection, sniffed/default Content-Type and header order are outside the comparison (DESIGN 3.7)")
	r.Set("a_max_ops", maxOps)
	r.Set("a_op_alphabet", opNames)
	r.Set("a_request_kinds", len(c36ReqKinds))
	r.Set("a_programs", seqx.CountStrings(nOps, maxOps))
	r.Set("b_slots", slots)

	// C36_PART=A|B restricts a run to one part (debugging aid; the registered check always runs both)
	only := os.Getenv("C36_PART")
	if only != "" {
		r.NotExhaustive("C36_PART=" + only + ": only one part was run")
	}

	// ---- Part B (cheap, first)
	if only != "A" {
		var cnt c36CountersB
		seqx.Product(dims, -1, func(idx []int) bool {
			c36CheckB(r, c36BuildReqB(slots, idx), &cnt)
			return true
		})
		r.Eval(int(cnt.cases))
		r.Add("b_cases", cnt.cases)
		r.Add("b_skipped_nethttp_rejects", cnt.skippedRef)
		r.Add("b_skipped_fasthttp_rejects", cnt.skippedFast)
		r.Add("b_cases_repeated_field", cnt.repeated)
		r.Add("b_cases_two_cookie_lines", cnt.cookies2)
		r.Add("b_cases_with_body", cnt.body)
		r.Add("b_cases_chunked", cnt.chunked)
		r.Add("b_cases_http10", cnt.http10)
		r.Add("b_cases_absolute_form", cnt.absolute)
	}

	// ---- Part C (reuse of one http.Request)
	if only != "A" {
		quickSlots := c36SlotsB(false)
		type job struct {
			reqs [][]byte
			n    int
		}
		jobs := []job{{c36ReuseRequests(quickSlots, 2), 2}}
		if r.Thorough() {
			jobs = []job{{c36ReuseRequests(quickSlots, 2), 3}, {c36ReuseRequests(slots, 2), 2}}
		}
		for ji, jb := range jobs {
			r.Set(fmt.Sprintf("c_job%d", ji), fmt.Sprintf("all ordered sequences of %d requests over %d requests x forServer{false,true}", jb.n, len(jb.reqs)))
			r.Par(len(jb.reqs), func(first int) {
				if c36Failed.Load() {
					return
				}
				items := c36ReuseItems(r, jb.reqs)
				var cnt c36CountersC
				seq := make([]int, jb.n)
				seq[0] = first
				var rec func(pos int) bool
				rec = func(pos int) bool {
					if pos == jb.n {
						c36CheckC(r, items, seq, false, &cnt)
						c36CheckC(r, items, seq, true, &cnt)
						return true
					}
					for j := range items {
						seq[pos] = j
						if !rec(pos + 1) {
							return false
						}
					}
					if pos == 1 && (c36Failed.Load() || r.Expired()) {
						return false
					}
					return true
				}
				if !rec(1) && !c36Failed.Load() {
					r.NotExhaustive(fmt.Sprintf("time budget reached inside reuse job %d, first request %d", ji, first))
				}
				r.Eval(int(cnt.seqs))
				if cnt.staleKeys > 0 {
					r.Nontrivial(fmt.Sprintf("C|%d|%d", ji, first))
				}
				cnt.flush(r)
			})
		}
	}

	// ---- Part A
	if only == "B" {
		return
	}
	pool := make(chan *c36Env, 64)
	getEnv := func() *c36Env {
		select {
		case e := <-pool:
			return e
		default:
			return c36NewEnv()
		}
	}
	runProg := func(e *c36Env, prog []int, cnt *c36Counters) {
		for _, k := range c36ReqKinds {
			c36CheckA(r, e, prog, k, cnt)
		}
	}
	// programs of length <= 2 first and in order, so that the recorded witness of a class is a minimal program
	{
		e := getEnv()
		var cnt c36Counters
		seqx.Sequences(nOps, 2, func(seq []int) bool {
			runProg(e, seq, &cnt)
			return true
		})
		r.Eval(int(cnt.cases))
		cnt.flush(r)
		pool <- e
	}
	// longer programs: one shard per two-op prefix
	if maxOps > 2 {
		r.Par(nOps*nOps, func(i int) {
			e := getEnv()
			defer func() { pool <- e }()
			var cnt c36Counters
			prog := make([]int, 0, maxOps)
			prog = append(prog, i/nOps, i%nOps)
			stopped := false
			seqx.Sequences(nOps, maxOps-2, func(suffix []int) bool {
				if len(suffix) == 0 {
					return true // length-2 programs were done above
				}
				p := append(prog[:2], suffix...)
				runProg(e, p, &cnt)
				if cnt.cases >= 600 {
					r.Eval(int(cnt.cases))
					cnt.flush(r)
					if c36Failed.Load() {
						return false
					}
					if r.Expired() {
						stopped = true
						return false
					}
				}
				return true
			})
			r.Eval(int(cnt.cases))
			cnt.flush(r)
			if stopped {
				r.NotExhaustive(fmt.Sprintf("time budget reached inside the shard of programs starting with %s; %s", c36Ops[i/nOps].Name, c36Ops[i%nOps].Name))
			}
		})
	}
	close(pool)
	for e := range pool {
		e.close()
	}
	r.Set("a_goroutines_after_run", runtime.NumGoroutine()) // informational: handler goroutines must not pile up
}
