//go:build verif

package fasthttp

import (
	"bytes"
	"encoding/json"
	"fmt"
	"net/url"
	"strconv"
	"strings"
	"testing"

	"github.com/valyala/fasthttp/internal/verif/seqx"
	"github.com/valyala/fasthttp/internal/verif/vrt"
)

// ---------------------------------------------------------------------------------------------------------------
// C27 — URIs survive serialisation and agree with net/url.
//
// For every enumerated absolute URI that URI.Parse(nil, uri) accepts (path normalisation on) and whose host holds no
// literal '%':  Parse(nil, FullURI()) gives the same scheme, host, path, query arguments (ordered) and fragment, and
// the identical query string when QueryArgs() was not used; Parse(Host(), RequestURI()) gives the same path and
// query arguments.  For every http/https URI accepted by fasthttp AND net/url: Host() == ASCII-lower(net/url Host)
// and QueryString() == RawQuery.  Nothing else is compared (userinfo is not part of the statement).
// ---------------------------------------------------------------------------------------------------------------

type c27Parts struct {
	scheme, host, path, query, hash string
	args                            []string // filled only when asked for
}

func c27Snapshot(u *URI, withArgs bool) c27Parts {
	p := c27Parts{scheme: string(u.Scheme()), host: string(u.Host()), path: string(u.Path()), query: string(u.QueryString()), hash: string(u.Hash())}
	if withArgs {
		p.args = c27Args(u)
	}
	return p
}

func c27Args(u *URI) []string {
	var out []string
	for k, v := range u.QueryArgs().All() {
		out = append(out, strconv.Quote(string(k))+"="+strconv.Quote(string(v)))
	}
	return out
}

// c27Diff names how got differs from want for one string component.
func c27Diff(got, want string) string {
	switch {
	case got == want:
		return ""
	case got == "":
		return "lost"
	case want == "":
		return "gained"
	case strings.EqualFold(got, want):
		return "case-changed"
	}
	return "changed"
}

func c27ListDiff(got, want []string) string {
	if len(got) == len(want) {
		same := true
		for i := range got {
			if got[i] != want[i] {
				same = false
			}
		}
		if same {
			return ""
		}
		return "changed"
	}
	if len(got) < len(want) {
		return "lost"
	}
	return "gained"
}

func c27Lower(s string) string {
	b := []byte(s)
	for i, c := range b {
		if 'A' <= c && c <= 'Z' {
			b[i] = c + 32
		}
	}
	return string(b)
}

type c27Stats struct {
	n, parsed, rejected, pctHost, neturlBoth, neturlOnlyFast, changed, withArgs, withHash, withUser int64
}

func (s *c27Stats) flush(r *vrt.R) {
	r.Eval(int(s.n))
	r.Add("fasthttp_parsed_ok", s.parsed)
	r.Add("fasthttp_rejected", s.rejected)
	r.Add("skipped_host_with_literal_percent", s.pctHost)
	r.Add("compared_with_neturl_both_accept", s.neturlBoth)
	r.Add("fasthttp_accepts_neturl_rejects", s.neturlOnlyFast)
	r.Add("fulluri_differs_from_input", s.changed)
	r.Add("cases_with_query_args", s.withArgs)
	r.Add("cases_with_fragment", s.withHash)
	r.Add("cases_with_userinfo", s.withUser)
	*s = c27Stats{}
}

func c27Check(r *vrt.R, st *c27Stats, uri string) {
	st.n++
	art := map[string]string{"uri": strconv.QuoteToASCII(uri)}
	var u URI
	if err := u.Parse(nil, []byte(uri)); err != nil {
		st.rejected++
		return
	}
	st.parsed++
	orig := c27Snapshot(&u, false) // QueryArgs() NOT used on u before FullURI()/RequestURI()
	if len(u.Username()) > 0 {
		st.withUser++
	}
	if orig.hash != "" {
		st.withHash++
	}

	// ---- net/url agreement (no host exclusion here) ----
	if orig.scheme == "http" || orig.scheme == "https" {
		if nu, err := url.Parse(uri); err == nil {
			st.neturlBoth++
			if want := c27Lower(nu.Host); orig.host != want {
				shape := "changed"
				switch {
				case strings.HasSuffix(want, orig.host) || strings.HasSuffix(orig.host, want):
					shape = "prefix-differs"
				case strings.HasPrefix(want, orig.host) || strings.HasPrefix(orig.host, want):
					shape = "suffix-differs"
				}
				r.Violation("neturl:host-"+shape, fmt.Sprintf("%q: fasthttp Host()=%q, net/url Host lower-cased=%q", uri, orig.host, want), art)
			}
			if orig.query != nu.RawQuery {
				r.Violation("neturl:query-"+c27Diff(orig.query, nu.RawQuery), fmt.Sprintf("%q: fasthttp QueryString()=%q, net/url RawQuery=%q", uri, orig.query, nu.RawQuery), art)
			}
		} else {
			st.neturlOnlyFast++
		}
	}

	// ---- serialise / re-parse ----
	if strings.IndexByte(orig.host, '%') >= 0 {
		st.pctHost++
		return
	}
	full := append([]byte(nil), u.FullURI()...)
	if string(full) != uri {
		st.changed++
		r.NontrivialHash(c27hash(uri))
	}
	cmp := func(stage string, got, want c27Parts, comps string, serial []byte) {
		done := false // one violation per stage: the first component (scheme, host, path, query, fragment, args) that differs
		rep := func(comp, d, g, w string) {
			if d != "" && !done {
				done = true
				r.Violation(stage+":"+comp+"-"+d, fmt.Sprintf("%q -> %q: %s %q, before serialisation %q", uri, serial, comp, g, w), art)
			}
		}
		if strings.Contains(comps, "s") {
			rep("scheme", c27Diff(got.scheme, want.scheme), got.scheme, want.scheme)
		}
		if strings.Contains(comps, "h") {
			rep("host", c27Diff(got.host, want.host), got.host, want.host)
		}
		if strings.Contains(comps, "p") {
			rep("path", c27Diff(got.path, want.path), got.path, want.path)
		}
		if strings.Contains(comps, "q") {
			rep("query-string", c27Diff(got.query, want.query), got.query, want.query)
		}
		if strings.Contains(comps, "f") {
			rep("fragment", c27Diff(got.hash, want.hash), got.hash, want.hash)
		}
		if strings.Contains(comps, "a") {
			rep("query-args", c27ListDiff(got.args, want.args), fmt.Sprint(got.args), fmt.Sprint(want.args))
		}
	}
	// (1) FullURI without QueryArgs: everything incl. identical query string
	var u2 URI
	if err := u2.Parse(nil, full); err != nil {
		r.Violation("fulluri-reparse:rejected", fmt.Sprintf("%q: FullURI()=%q is rejected by Parse: %v", uri, full, err), art)
	} else {
		got := c27Snapshot(&u2, true)
		want := orig
		want.args = c27Args(&u) // now (after serialising) the arguments of the original
		if len(want.args) > 0 {
			st.withArgs++
		}
		cmp("fulluri-reparse", got, want, "shpqfa", full)
	}
	// (2) FullURI after QueryArgs() was used (query re-encoded from the arguments): all but the query string
	var u3 URI
	if err := u3.Parse(nil, []byte(uri)); err != nil {
		r.ToolError("second Parse of %q failed: %v", uri, err)
	}
	want3 := c27Snapshot(&u3, true)
	full3 := append([]byte(nil), u3.FullURI()...)
	var u4 URI
	if err := u4.Parse(nil, full3); err != nil {
		r.Violation("fulluri-after-queryargs-reparse:rejected", fmt.Sprintf("%q: FullURI()=%q (after QueryArgs()) is rejected by Parse: %v", uri, full3, err), art)
	} else {
		cmp("fulluri-after-queryargs-reparse", c27Snapshot(&u4, true), want3, "shpfa", full3)
	}
	// (3) RequestURI against the same host: path and query arguments (both without and with QueryArgs() used before)
	var u5 URI
	if err := u5.Parse(nil, []byte(uri)); err != nil {
		r.ToolError("third Parse of %q failed: %v", uri, err)
	}
	req := append([]byte(nil), u5.RequestURI()...)
	want5 := c27Snapshot(&u5, true)
	var u6 URI
	if err := u6.Parse([]byte(orig.host), req); err != nil {
		r.Violation("requesturi-reparse:rejected", fmt.Sprintf("%q: Parse(%q, RequestURI()=%q) fails: %v", uri, orig.host, req, err), art)
	} else {
		cmp("requesturi-reparse", c27Snapshot(&u6, true), want5, "pa", req)
	}
	req3 := append([]byte(nil), u3.RequestURI()...) // u3 has used QueryArgs()
	var u7 URI
	if err := u7.Parse([]byte(orig.host), req3); err != nil {
		r.Violation("requesturi-after-queryargs-reparse:rejected", fmt.Sprintf("%q: Parse(%q, RequestURI()=%q) fails: %v", uri, orig.host, req3, err), art)
	} else {
		cmp("requesturi-after-queryargs-reparse", c27Snapshot(&u7, true), want3, "pa", req3)
	}
	// harness sanity: the three parses of the same input must agree with each other (fresh URI objects)
	if want3.path != orig.path || want5.path != orig.path || !bytes.Equal([]byte(want3.host), []byte(orig.host)) {
		r.ToolError("Parse of %q is not deterministic", uri)
	}
}

func c27hash(s string) uint64 { // FNV-1a (own copy: C26's helper lives in another file that --solo does not compile)
	h := uint64(14695981039346656037)
	for i := 0; i < len(s); i++ {
		h ^= uint64(s[i])
		h *= 1099511628211
	}
	return h
}

// ---- reuse of one URI object across parses ----------------------------------------------------------------------
// For ordered pairs (A, B) of a reduced URI set: A is parsed into a URI object and fully used (all getters, QueryArgs,
// FullURI, RequestURI), then B is parsed into the SAME object (directly; through ReleaseURI/AcquireURI; or B's URI is
// copied over it with CopyTo). Every getter, the query arguments and the serialise/re-parse results must equal those
// of B parsed into a fresh URI.

type c27Obs struct{ name, val string }

// c27Observe applies a fixed sequence of getters / serialisations / re-parses to u.
func c27Observe(u *URI) []c27Obs {
	var o []c27Obs
	add := func(n, v string) { o = append(o, c27Obs{n, v}) }
	add("scheme", string(u.Scheme()))
	add("host", string(u.Host()))
	add("path", string(u.Path()))
	add("path-original", string(u.PathOriginal()))
	add("query-string", string(u.QueryString()))
	add("fragment", string(u.Hash()))
	add("username", string(u.Username()))
	add("password", string(u.Password()))
	full1 := string(u.FullURI()) // QueryArgs() not used yet on this parse
	add("fulluri", full1)
	add("requesturi", string(u.RequestURI()))
	add("query-args", fmt.Sprint(c27Args(u)))
	add("query-args-len", fmt.Sprint(u.QueryArgs().Len()))
	full2 := string(u.FullURI())
	add("fulluri-after-queryargs", full2)
	req2 := string(u.RequestURI())
	add("requesturi-after-queryargs", req2)
	for i, f := range []string{full1, full2} {
		var v URI
		tag := []string{"fulluri-reparse", "fulluri-after-queryargs-reparse"}[i]
		if err := v.Parse(nil, []byte(f)); err != nil {
			add(tag, "error: "+err.Error())
			continue
		}
		p := c27Snapshot(&v, true)
		add(tag, fmt.Sprintf("%s|%s|%s|%s|%v", p.scheme, p.host, p.path, p.hash, p.args))
	}
	var w URI
	if err := w.Parse(u.Host(), []byte(req2)); err != nil {
		add("requesturi-reparse", "error: "+err.Error())
	} else {
		p := c27Snapshot(&w, true)
		add("requesturi-reparse", fmt.Sprintf("%s|%v", p.path, p.args))
	}
	return o
}

var c27ReuseModes = []string{"same-object", "release-acquire", "copyto-parsed-src", "copyto-unparsed-src"}

func c27ReusePair(r *vrt.R, a, b string, want []c27Obs, mode string) {
	var got []c27Obs
	switch mode {
	case "same-object":
		var u URI
		if err := u.Parse(nil, []byte(a)); err != nil {
			r.ToolError("reuse set: %q rejected: %v", a, err)
		}
		c27Observe(&u)
		if err := u.Parse(nil, []byte(b)); err != nil {
			r.Violation("reuse-"+mode+":second-parse-rejected", fmt.Sprintf("Parse(%q) then Parse(%q) on the same URI: %v", a, b, err), map[string]string{"a": strconv.QuoteToASCII(a), "b": strconv.QuoteToASCII(b), "mode": mode})
			return
		}
		got = c27Observe(&u)
	case "release-acquire":
		u := AcquireURI()
		if err := u.Parse(nil, []byte(a)); err != nil {
			r.ToolError("reuse set: %q rejected: %v", a, err)
		}
		c27Observe(u)
		ReleaseURI(u)
		u = AcquireURI()
		if err := u.Parse(nil, []byte(b)); err != nil {
			r.Violation("reuse-"+mode+":second-parse-rejected", fmt.Sprintf("Parse(%q), ReleaseURI, AcquireURI, Parse(%q): %v", a, b, err), map[string]string{"a": strconv.QuoteToASCII(a), "b": strconv.QuoteToASCII(b), "mode": mode})
			ReleaseURI(u)
			return
		}
		got = c27Observe(u)
		ReleaseURI(u)
	default: // CopyTo over a used URI
		var dst, src URI
		if err := dst.Parse(nil, []byte(a)); err != nil {
			r.ToolError("reuse set: %q rejected: %v", a, err)
		}
		c27Observe(&dst)
		if err := src.Parse(nil, []byte(b)); err != nil {
			r.ToolError("reuse set: %q rejected: %v", b, err)
		}
		if mode == "copyto-parsed-src" {
			src.QueryArgs()
		}
		src.CopyTo(&dst)
		got = c27Observe(&dst)
	}
	for i := range want {
		if i >= len(got) || got[i] != want[i] {
			g := "<missing>"
			if i < len(got) {
				g = got[i].val
			}
			r.Violation("reuse-"+mode+":"+want[i].name+"-"+c27Diff(g, want[i].val),
				fmt.Sprintf("%s: URI object that held %q, then %q: %s = %q, a fresh URI gives %q", mode, a, b, want[i].name, g, want[i].val),
				map[string]string{"a": strconv.QuoteToASCII(a), "b": strconv.QuoteToASCII(b), "mode": mode})
			return
		}
	}
}

func c27ReuseSet(maxDev int) []string {
	schemes := []string{"http", "https"}
	users := []string{"", "u:p@"}
	hosts := []string{"example.com", "h", "[::1]:80"}
	paths := []string{"", "/a/b", "/a%20b/../c"}
	queries := []string{"", "?", "?a=1&b=2", "?x=1&flag", "?flag", "?a=1&a=2&c=3", "?k&l&m", "?a=%20+&b", "?long=value-value-value&s=1&t"}
	frags := []string{"", "#f"}
	var out []string
	seqx.Product([]int{len(schemes), len(users), len(hosts), len(paths), len(queries), len(frags)}, maxDev, func(ix []int) bool {
		out = append(out, schemes[ix[0]]+"://"+users[ix[1]]+hosts[ix[2]]+paths[ix[3]]+queries[ix[4]]+frags[ix[5]])
		return true
	})
	return out
}

func c27Reuse(r *vrt.R) {
	set := c27ReuseSet(vrt.Pick(r, 2, 3))
	wants := make([][]c27Obs, len(set))
	wantsParsed := make([][]c27Obs, len(set)) // reference for a source on which QueryArgs() was already used
	for i, s := range set {
		var u, v URI
		if err := u.Parse(nil, []byte(s)); err != nil {
			r.ToolError("reuse set: %q rejected: %v", s, err)
		}
		wants[i] = c27Observe(&u)
		v.Parse(nil, []byte(s)) //nolint:errcheck
		v.QueryArgs()
		wantsParsed[i] = c27Observe(&v)
	}
	r.Set("reuse_uri_set", len(set))
	r.Par(len(set), func(i int) {
		if r.Expired() {
			r.NotExhaustive("time budget reached in the URI reuse pairs")
			return
		}
		n := 0
		for j := range set {
			for _, mode := range c27ReuseModes {
				w := wants[j]
				if mode == "copyto-parsed-src" {
					w = wantsParsed[j]
				}
				c27ReusePair(r, set[i], set[j], w, mode)
				n++
			}
			if i != j {
				r.NontrivialHash(c27hash("reuse|" + set[i] + "|" + set[j]))
			}
		}
		r.Eval(n)
		r.Add("reuse_pair_cases", int64(n))
	})
	r.Sample(map[string]any{"reuse_pair": []string{set[1], set[len(set)-1]}, "modes": c27ReuseModes})
}

func TestVerif_C27(t *testing.T) {
	r := vrt.Begin(t, "C27", "exploration")
	defer r.End()
	if rp := r.Replay(); rp != nil {
		var a struct{ URI, A, B, Mode string }
		if err := json.Unmarshal(rp, &a); err != nil {
			r.ToolError("replay artefact: %v", err)
		}
		if a.Mode != "" {
			ua, err1 := strconv.Unquote(a.A)
			ub, err2 := strconv.Unquote(a.B)
			if err1 != nil || err2 != nil {
				r.ToolError("replay artefact a/b: %v %v", err1, err2)
			}
			var u URI
			if err := u.Parse(nil, []byte(ub)); err != nil {
				r.ToolError("replay: %q rejected: %v", ub, err)
			}
			if a.Mode == "copyto-parsed-src" {
				u.QueryArgs()
			}
			c27ReusePair(r, ua, ub, c27Observe(&u), a.Mode)
			r.Eval(1)
			return
		}
		s, err := strconv.Unquote(a.URI)
		if err != nil {
			r.ToolError("replay artefact uri: %v", err)
		}
		var st c27Stats
		c27Check(r, &st, s)
		st.flush(r)
		return
	}
	schemes := []string{"http", "https", "HTTP", "ftp"}
	users := []string{"", "u@", "u:p@", "u%40:p@"}
	hosts := []string{"example.com", "EXAMPLE.COM", "127.0.0.1", "[::1]", "[fe80::1%25eth0]", "%41.com", "h%25x",
		"a%2fb", "a%23b", "a%3fb", "a%40b", "a%3ab", "a%2Fb", // escapes that decode to URI delimiters inside the host
		// upper / mixed case for every host kind (the port slot adds the with-port forms)
		"Example.Com", "[::FFFF:127.0.0.1]", "[::ffff:127.0.0.1]", "[2001:DB8::ABCD]", "[2001:db8::AbCd]",
		"[FE80::ABCD%25En0]", "[fe80::abcd%25EN0]", "[FE80::1%25eth0]"}
	ports := []string{"", ":80", ":8080", ":"}
	paths := []string{"", "/", "/a/b", "/a%20b", "/a/../b", "//a", "/%2e", "/a%3Fb%23c"} // last one: added to the assigned list (decoded path holds '?' and '#')
	queries := []string{"", "?", "?a=1", "?a=1&a=2", "?a=%20+&b", "?=&", "?a=b=c"}
	frags := []string{"", "#", "#f", "#f?x"}
	dims := []int{len(schemes), len(users), len(hosts), len(ports), len(paths), len(queries), len(frags)}
	maxDev := vrt.Pick(r, 3, -1)
	alpha := seqx.Sym("/", "?", "#", "@", ":", "%", "[", "]", "a", "%2", "&", "=", "%2f", "%23", "%3f", "%40") // the escapes land in host position when they come first
	maxLen := vrt.Pick(r, 5, 6)
	devText := fmt.Sprintf("at most %d non-canonical slots", maxDev)
	if maxDev < 0 {
		devText = "the full product"
	}
	r.Rule(fmt.Sprintf("absolute URIs scheme%q x userinfo%q x host%q x port%q x path%q x query%q x fragment%q (%s: %d URIs) plus \"http://h\" followed by every string of at most %d symbols of %q (%d URIs); "+
		"oracle: Parse(nil,FullURI()) keeps scheme/host/path/query args/fragment (+identical query string when QueryArgs() unused), Parse(Host(),RequestURI()) keeps path/query args, "+
		"both also after QueryArgs() was used; hosts holding a literal %% are skipped for these; for http/https URIs accepted by fasthttp and net/url: Host()==lower(net/url Host), QueryString()==RawQuery; "+
		"non-trivial: accepted URIs whose FullURI() differs from the input. Reuse: all ordered pairs (A,B) of a reduced URI set (queries with/without values, key-only args, different counts, hosts, paths, fragments, userinfo), "+
		"B parsed into the URI object that held A (same object / ReleaseURI+AcquireURI / CopyTo) must show the getters, query args and re-parse results of B in a fresh URI", schemes, users, hosts, ports, paths, queries, frags, devText, seqx.ProductCount(dims, maxDev), maxLen, alpha, seqx.CountStrings(len(alpha), maxLen)))
	r.Assume("net/url.Parse is the reference for host and raw query of http/https URIs (only where it accepts the URI)")
	r.Set("max_symbols", maxLen)
	r.Set("slot_product_max_deviation", maxDev)

	// ---- slot product ----
	var prod []string
	seqx.Product(dims, maxDev, func(ix []int) bool {
		prod = append(prod, schemes[ix[0]]+"://"+users[ix[1]]+hosts[ix[2]]+ports[ix[3]]+paths[ix[4]]+queries[ix[5]]+frags[ix[6]])
		return true
	})
	r.Set("slot_product_uris", len(prod))
	const chunk = 512
	r.Par((len(prod)+chunk-1)/chunk, func(i int) {
		var st c27Stats
		for _, s := range prod[i*chunk : min(len(prod), (i+1)*chunk)] {
			c27Check(r, &st, s)
		}
		st.flush(r)
	})
	for _, i := range []int{0, len(prod) / 3, len(prod) / 2, len(prod) - 1} {
		var u URI
		err := u.Parse(nil, []byte(prod[i]))
		r.Sample(map[string]any{"uri": strconv.QuoteToASCII(prod[i]), "parse_error": fmt.Sprint(err), "full_uri": strconv.QuoteToASCII(string(u.FullURI()))})
	}

	// ---- one URI object used for two parses ----
	c27Reuse(r)

	// ---- reserved-character strings appended to http://h, sharded by the first two symbols ----
	k := len(alpha)
	r.Par(k*k+k+1, func(i int) {
		var st c27Stats
		defer st.flush(r)
		var pre string
		switch {
		case i == 0:
			c27Check(r, &st, "http://h")
			return
		case i <= k:
			c27Check(r, &st, "http://h"+string(alpha[i-1]))
			return
		default:
			j := i - k - 1
			pre = "http://h" + string(alpha[j/k]) + string(alpha[j%k])
		}
		n := 0
		seqx.AllStrings(alpha, maxLen-2, func(s []byte) bool {
			c27Check(r, &st, pre+string(s))
			n++
			if n&1023 == 0 {
				st.flush(r)
				if r.Expired() {
					r.NotExhaustive("time budget reached inside shard " + strconv.Quote(pre))
					return false
				}
			}
			return true
		})
		if i%29 == 0 {
			s := pre + "a?a=%2&#"
			var u URI
			err := u.Parse(nil, []byte(s))
			r.Sample(map[string]any{"uri": strconv.QuoteToASCII(s), "parse_error": fmt.Sprint(err), "full_uri": strconv.QuoteToASCII(string(u.FullURI()))})
		}
	})
}
