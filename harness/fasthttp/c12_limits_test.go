//go:build verif && verif_mc

package fasthttp

import (
	"bytes"
	"fmt"
	"io"
	"net"
	"os"
	"sort"
	"strconv"
	"strings"
	"testing"
	"time"
	"unsafe"

	"github.com/valyala/fasthttp/fasthttputil"
	"github.com/valyala/fasthttp/internal/verif/mcrt"
	msync "github.com/valyala/fasthttp/internal/verif/mcsync"
	mtime "github.com/valyala/fasthttp/internal/verif/mctime"
	"github.com/valyala/fasthttp/internal/verif/mcx"
	"github.com/valyala/fasthttp/internal/verif/vrt"
)

// C12: Concurrency and MaxConnsPerIP hold for every schedule and their counters balance.
//   kernel scenarios: wrapPerIPConn / perIPConn.Close / perIPConnCounter and tryAcquireConcurrency / releaseConcurrency
//                     driven directly by three threads (deep bounds, cheap);
//   server scenarios: the real Server (Serve over an InmemoryListener, or ServeConn per connection) with 2-3 client
//                     threads from 1-2 IPv4 addresses, handlers held on a harness gate so that connections overlap.

type c12nopLogger struct{}

func (c12nopLogger) Printf(string, ...any) {}

// peek reads the counter behind a (shimmed) atomic without a scheduling point: invariants and WaitUntil conditions
// are evaluated by the scheduler itself and must not call into it. Both the real and the shim typed atomics keep the
// 32-bit value at offset 0.
func c12peek32(p unsafe.Pointer) int32 { return *(*int32)(p) }

func c12mapString(m map[uint32]int) string {
	if len(m) == 0 {
		return ""
	}
	var ks []string
	for k, v := range m {
		ks = append(ks, fmt.Sprintf("%d.%d.%d.%d=%d", byte(k>>24), byte(k>>16), byte(k>>8), byte(k), v))
	}
	sort.Strings(ks)
	return strings.Join(ks, ",")
}

// c12parseResponse reports whether b starts with one complete response (status, Content-Length body) and how long it is.
func c12parseResponse(b []byte) (status, length int, complete bool) {
	if len(b) >= 12 && bytes.HasPrefix(b, []byte("HTTP/1.1 ")) {
		status, _ = strconv.Atoi(string(b[9:12]))
	}
	he := bytes.Index(b, []byte("\r\n\r\n"))
	if he < 0 || status == 0 {
		return status, 0, false
	}
	cl := -1
	for _, ln := range bytes.Split(b[:he], []byte("\r\n"))[1:] {
		if k := bytes.IndexByte(ln, ':'); k > 0 && bytes.EqualFold(bytes.TrimSpace(ln[:k]), []byte("Content-Length")) {
			cl, _ = strconv.Atoi(string(bytes.TrimSpace(ln[k+1:])))
		}
	}
	if cl < 0 || len(b) < he+4+cl {
		return status, 0, false
	}
	return status, he + 4 + cl, true
}

func c12invSplit(msg string) (sig, what string) {
	if k := strings.IndexByte(msg, '|'); k > 0 {
		return msg[:k], msg[k+1:]
	}
	return "invariant", msg
}

// ---------------------------------------------------------------------------------------------------------------
// kernel A: per-IP tracking

type c12stub struct {
	ip     byte
	out    []byte
	closed int
}

func (c *c12stub) Read([]byte) (int, error)    { return 0, io.EOF }
func (c *c12stub) Write(p []byte) (int, error) { c.out = append(c.out, p...); return len(p), nil }
func (c *c12stub) Close() error                { c.closed++; return nil }
func (c *c12stub) LocalAddr() net.Addr         { return &net.TCPAddr{IP: net.IPv4(127, 0, 0, 1), Port: 80} }
func (c *c12stub) RemoteAddr() net.Addr {
	return &net.TCPAddr{IP: net.IPv4(10, 0, 0, c.ip), Port: 4000}
}
func (c *c12stub) SetDeadline(time.Time) error      { return nil }
func (c *c12stub) SetReadDeadline(time.Time) error  { return nil }
func (c *c12stub) SetWriteDeadline(time.Time) error { return nil }

type c12kobs struct {
	live     [4]int // per ip: conns accepted by wrapPerIPConn whose owner has not called Close yet
	maxLive  int
	accepted int
	rejected int
	notes    []string
	final    string
	finalSig string
	pattern  string
	// a wrapper object handed to a new connection while an earlier owner of the same object still has a Close to make
	recycledStale bool
}

func c12perIPKernel(max int, ips []byte) func() {
	return func() {
		o := &c12kobs{}
		mcrt.SetUserData(o)
		n := len(ips)
		// data choices: how often each owner calls Close (1 or 2: net.Conn.Close may be called again, e.g. defer + explicit),
		// and whether it holds the conn until every other thread has tried (gate) or just for one scheduling point
		closes := make([]int, n)
		gate := make([]bool, n)
		cp := mcrt.Pick(1<<n, "close-counts")
		gp := mcrt.Pick(1<<n, "hold-kinds")
		for i := 0; i < n; i++ {
			closes[i] = 1 + (cp>>i)&1
			gate[i] = (gp>>i)&1 == 1
		}
		o.pattern = fmt.Sprintf("closes=%v gate=%v", closes, gate)
		s := &Server{MaxConnsPerIP: max, NoDefaultDate: true, NoDefaultServerHeader: true, Logger: c12nopLogger{}}
		tried := make([]bool, n)
		staleOwners := map[net.Conn]int{} // wrapper -> owners that closed it once and will close it again
		mcrt.Invariant(func() string {
			for ip, l := range o.live {
				if l > max {
					return fmt.Sprintf("conns-per-ip-exceed-limit|%d connections from 10.0.0.%d are tracked as accepted and not yet closed, MaxConnsPerIP=%d (%s)", l, ip, max, o.pattern)
				}
			}
			for k, v := range s.perIPConnCounter.m {
				if v < 0 {
					return fmt.Sprintf("per-ip-count-negative|count for %d is %d", k, v)
				}
			}
			return ""
		})
		use := func(i int, ip byte, hold func()) {
			st := &c12stub{ip: ip}
			pic := wrapPerIPConn(s, st)
			if i >= 0 {
				tried[i] = true
			}
			if pic == nil {
				o.rejected++
				mcrt.Covered("rejected-429")
				stt, l, ok := c12parseResponse(st.out)
				if !ok || stt != StatusTooManyRequests || l != len(st.out) {
					o.notes = append(o.notes, "rejected-response-incomplete|rejected connection got "+vrt.Q(st.out))
				}
				if st.closed != 1 {
					o.notes = append(o.notes, fmt.Sprintf("rejected-conn-not-closed|rejected connection closed %d times", st.closed))
				}
				return
			}
			o.accepted++
			if staleOwners[pic] > 0 {
				o.recycledStale = true
				mcrt.Covered("wrapper-recycled-before-owners-second-close")
			}
			o.live[ip]++
			if o.live[ip] > o.maxLive {
				o.maxLive = o.live[ip]
			}
			hold()
			o.live[ip]--
			k := 1
			if i >= 0 {
				k = closes[i]
			}
			if k == 2 {
				staleOwners[pic]++
				pic.Close()
				pic.Close()
				staleOwners[pic]--
			} else {
				pic.Close()
			}
			if st.closed < 1 {
				o.notes = append(o.notes, "accepted-conn-not-closed-by-Close|Close on the tracked conn did not close the underlying conn")
			}
		}
		var wg msync.WaitGroup
		for i := 0; i < n; i++ {
			wg.Add(1)
			mcrt.GoNamed(fmt.Sprint("conn", i), func() {
				defer wg.Done()
				use(i, ips[i], func() {
					if gate[i] {
						mcrt.WaitUntil("hold-until-others-tried", func() bool {
							for j := range tried {
								if j != i && !tried[j] {
									return false
								}
							}
							return true
						})
					} else {
						mcrt.Yield()
					}
				})
			})
		}
		wg.Wait()
		if ms := c12mapString(s.perIPConnCounter.m); ms != "" {
			o.finalSig, o.final = "per-ip-counts-nonzero-at-quiescence", "every connection is closed, perIPConnCounter.m = {"+ms+"} ("+o.pattern+")"
			return
		}
		// the limit must still be the limit after this history: max+1 simultaneous connections, the invariant watches
		var probes []func()
		for _, ip := range []byte{1, 2} {
			for k := 0; k <= max; k++ {
				st := &c12stub{ip: ip}
				if pic := wrapPerIPConn(s, st); pic != nil {
					o.live[ip]++
					probes = append(probes, func() { o.live[ip]--; pic.Close() })
				}
			}
			mcrt.Yield()
		}
		for _, f := range probes {
			f()
		}
		if ms := c12mapString(s.perIPConnCounter.m); ms != "" {
			o.finalSig, o.final = "per-ip-counts-nonzero-at-quiescence", "after the probe connections are closed, perIPConnCounter.m = {"+ms+"}"
		}
	}
}

func c12kernelCheck(x *mcrt.Exec) (string, string, string) {
	o, _ := x.UserData.(*c12kobs)
	if o == nil || x.Out.Deadlock || x.Out.Panic != "" || x.Out.Horizon || x.Out.Fatal != "" {
		return "", "", ""
	}
	cls := fmt.Sprintf("accepted=%d rejected=%d maxLive=%d", o.accepted, o.rejected, o.maxLive)
	sfx, note := "", ""
	if o.recycledStale {
		sfx, note = "-via-recycled-wrapper", " [a perIPConn wrapper was handed to a new connection between the two Close calls of its previous owner]"
	}
	if x.Out.Invariant != "" {
		sig, what := c12invSplit(x.Out.Invariant)
		return cls, sig + sfx, what + note
	}
	if len(o.notes) > 0 {
		sig, what := c12invSplit(o.notes[0])
		return cls, sig + sfx, what + note
	}
	if o.finalSig != "" {
		return cls, o.finalSig + sfx, o.final + note
	}
	return cls, "", ""
}

// kernel A': the bare counter
func c12counterKernel(ips []byte) func() {
	return func() {
		o := &c12kobs{}
		mcrt.SetUserData(o)
		cc := &perIPConnCounter{}
		held := map[uint32]int{}
		inflight := map[uint32]int{}
		mcrt.Invariant(func() string {
			for ip, h := range held {
				if cc.m[ip] < h || cc.m[ip] > h+inflight[ip] {
					return fmt.Sprintf("per-ip-count-out-of-step|count for ip %d is %d while %d registrations are held and %d Register/Unregister calls are in flight", ip, cc.m[ip], h, inflight[ip])
				}
			}
			return ""
		})
		var wg msync.WaitGroup
		for i := range ips {
			wg.Add(1)
			ip := uint32(ips[i])
			mcrt.GoNamed(fmt.Sprint("reg", i), func() {
				defer wg.Done()
				for round := 0; round < 2; round++ {
					inflight[ip]++
					n := cc.Register(ip)
					held[ip]++
					inflight[ip]--
					if n < 1 || n > len(ips) {
						o.notes = append(o.notes, fmt.Sprintf("register-returns-impossible-count|Register returned %d with %d threads", n, len(ips)))
					}
					if n > o.maxLive {
						o.maxLive = n
					}
					o.accepted++
					mcrt.Yield()
					inflight[ip]++
					held[ip]--
					cc.Unregister(ip)
					inflight[ip]--
				}
			})
		}
		wg.Wait()
		if ms := c12mapString(cc.m); ms != "" {
			o.finalSig, o.final = "per-ip-counts-nonzero-at-quiescence", "all registrations undone, m = {"+ms+"}"
		}
	}
}

// kernel B: concurrency accounting helpers
type c12cobs struct {
	holding, maxHolding, acquired, refused int
	endConc                                uint32
	notes                                  []string
}

func c12concKernel(conc, threads, rounds int) func() {
	return func() {
		o := &c12cobs{}
		mcrt.SetUserData(o)
		s := &Server{Concurrency: conc}
		tried := make([]int, threads)
		gp := mcrt.Pick(1<<threads, "hold-kinds")
		mcrt.Invariant(func() string {
			if o.holding > conc {
				return fmt.Sprintf("served-conns-exceed-concurrency|%d holders of a concurrency slot at once, Concurrency=%d", o.holding, conc)
			}
			if c12peek32(unsafe.Pointer(&s.concurrency)) < 0 {
				return fmt.Sprintf("concurrency-counter-underflow|Server.concurrency = %d", uint32(c12peek32(unsafe.Pointer(&s.concurrency))))
			}
			return ""
		})
		var wg msync.WaitGroup
		for i := 0; i < threads; i++ {
			wg.Add(1)
			mcrt.GoNamed(fmt.Sprint("conn", i), func() {
				defer wg.Done()
				for r := 0; r < rounds; r++ {
					ok := s.tryAcquireConcurrency()
					tried[i]++
					if !ok {
						o.refused++
						mcrt.Covered("rejected-503")
						continue
					}
					o.acquired++
					o.holding++
					if o.holding > o.maxHolding {
						o.maxHolding = o.holding
					}
					if (gp>>i)&1 == 1 && r == 0 {
						mcrt.WaitUntil("hold-until-others-tried", func() bool {
							for j := range tried {
								if j != i && tried[j] == 0 {
									return false
								}
							}
							return true
						})
					} else {
						mcrt.Yield()
					}
					o.holding--
					s.releaseConcurrency()
				}
			})
		}
		wg.Wait()
		o.endConc = s.GetCurrentConcurrency()
		if o.endConc == 0 {
			// a quiescent server must grant exactly Concurrency slots
			got := 0
			for k := 0; k <= conc; k++ {
				if s.tryAcquireConcurrency() {
					got++
					o.holding++
				}
			}
			mcrt.Yield()
			if got != conc {
				o.notes = append(o.notes, fmt.Sprintf("concurrency-slots-lost|after everything was released only %d of %d slots can be acquired", got, conc))
			}
		}
	}
}

func c12concCheck(x *mcrt.Exec) (string, string, string) {
	o, _ := x.UserData.(*c12cobs)
	if o == nil || x.Out.Deadlock || x.Out.Panic != "" || x.Out.Horizon || x.Out.Fatal != "" {
		return "", "", ""
	}
	cls := fmt.Sprintf("acquired=%d refused=%d maxHolding=%d", o.acquired, o.refused, o.maxHolding)
	if x.Out.Invariant != "" {
		sig, what := c12invSplit(x.Out.Invariant)
		return cls, sig, what
	}
	if o.endConc != 0 {
		return cls, "concurrency-counter-nonzero-at-quiescence", fmt.Sprintf("every acquired slot was released, GetCurrentConcurrency() = %d (acquired=%d refused=%d)", o.endConc, o.acquired, o.refused)
	}
	if len(o.notes) > 0 {
		sig, what := c12invSplit(o.notes[0])
		return cls, sig, what
	}
	return cls, "", ""
}

// ---------------------------------------------------------------------------------------------------------------
// server scenarios

const (
	c12close  = 0 // read the response, then close
	c12hijack = 1 // handler hijacks; client reads the response, releases the hijack handler, waits for EOF
	c12abort  = 2 // close right after writing the request
	c12span   = 3 // phase-0 client whose request handler stays in the handler across the idle gap and the burst (its worker is busy while the idle ones are retired)
)

// c12maxIdle: Server.MaxIdleWorkerDuration is left at its default (10 s): the pool's cleaner wakes every 10 s of
// virtual time and retires workers idle for more than 10 s, i.e. a worker released at t=0 goes at t=20.
// Gaps: c12gapLong lets every idle worker be retired; c12gapShort lets the cleaner run once without retiring anybody.
// (The odd half seconds keep the harness timers off the cleaner's 10 s grid: no timer ties.)
const (
	c12maxIdle  = 10 * time.Second
	c12gapLong  = 2*c12maxIdle + 2500*time.Millisecond
	c12gapShort = c12maxIdle/2 + 2500*time.Millisecond
)

type c12client struct {
	ip    byte
	mode  int
	phase int // 0 = warm-up (before the idle gap), 1 = burst after the idle gap; histories without a gap are all phase 0
}

type c12sp struct {
	serve     bool // Serve(InmemoryListener) or one ServeConn per connection
	conc      int
	maxip     int
	keep      bool // KeepHijackedConns: the hijack handler closes the conn itself (twice: defer + explicit)
	gate      bool // handlers wait until every other client has been served, rejected or gone
	clients   []c12client
	staggered bool // client i+1 starts only when client i has finished (sequential reuse of the slots)
	ordered   bool // client i+1 dials only after client i's dial returned (the acceptor serialises arrivals anyway)
	oneByOne  bool // client i+1 dials only after client i has been served (handler entered), rejected or is gone
	// idle > 0: a two-phase history. The phase-0 clients run to quiescence, then nothing arrives for idle (virtual
	// time: every timer of the server that is due fires, in particular the worker pool's cleaner), then the phase-1
	// clients arrive. (staggered / ordered / oneByOne / gate relate clients of the same phase.)
	idle time.Duration
}

type c12cn struct {
	dialed, failed, done bool
	entered              bool
	enteredN             int
	hjEntered, hjDone    bool
	release              bool
	clientClosed         bool
	got                  []byte
	status               int
	complete             bool
	readErr              string
	eof                  bool
	extra                int
	hjEOF                bool
	serveReturned        bool
	workerDone           bool // Serve mode: the server reported StateClosed / StateHijacked for this connection
	serveErr             error
}

type c12obs struct {
	p                   c12sp
	conns               []c12cn
	running, maxRunning int
	baseOpen, endOpen   int32
	endConc             uint32
	endMap              string
	quiesced            bool
	serveDone           bool
	serveRet            error
	clientsDone         int
	phase               int    // 1 once the idle gap is over
	retired             int    // threads that ended during the idle gap (= idle workers retired by the pool's cleaner)
	midSig, mid         string // counters not back to zero at the quiescence before the idle gap
	ticks               int    // watchdog: virtual minutes during which nothing could run
	stuck               string
}

var c12req = []byte("GET / HTTP/1.1\r\nHost: a\r\n\r\n")

func c12server(p c12sp) func() {
	return func() {
		workerChanCap = 1
		n := len(p.clients)
		o := &c12obs{p: p, conns: make([]c12cn, n)}
		mcrt.SetUserData(o)
		s := &Server{Concurrency: p.conc, MaxConnsPerIP: p.maxip, KeepHijackedConns: p.keep,
			NoDefaultDate: true, NoDefaultServerHeader: true, NoDefaultContentType: true, Logger: c12nopLogger{}}
		settled := func(j int) bool {
			c := &o.conns[j]
			return c.entered || c.complete || c.clientClosed || c.failed || c.done
		}
		s.Handler = func(ctx *RequestCtx) {
			i := ctx.RemoteAddr().(*net.TCPAddr).Port - 1000
			cn := &o.conns[i]
			cn.entered = true
			cn.enteredN++
			o.running++
			if o.running > o.maxRunning {
				o.maxRunning = o.running
			}
			switch {
			case p.clients[i].mode == c12span:
				mcrt.Covered("handler-spans-idle-gap")
				mcrt.WaitUntil("span-gate", func() bool {
					for j := 0; j < n; j++ {
						if p.clients[j].phase == 1 && !settled(j) {
							return false
						}
					}
					return o.phase >= 1
				})
			case p.gate:
				mcrt.WaitUntil("handler-gate", func() bool {
					for j := 0; j < n; j++ {
						if j != i && p.clients[j].phase == p.clients[i].phase && !settled(j) {
							return false
						}
					}
					return true
				})
			default:
				mcrt.Yield()
			}
			if p.clients[i].mode == c12hijack {
				ctx.Hijack(func(c net.Conn) {
					cn.hjEntered = true
					mcrt.Covered("hijacked")
					mcrt.WaitUntil("hijack-release", func() bool { return cn.release })
					if p.keep {
						func() {
							defer c.Close()
							c.Close()
						}()
					}
					cn.hjDone = true
				})
			}
			ctx.SetBodyString("ok")
			o.running--
		}
		if p.serve {
			// a closed perIPConn wrapper has no RemoteAddr any more: remember which connection a conn value stands for
			// while it is alive
			byConn := map[net.Conn]int{}
			s.ConnState = func(c net.Conn, st ConnState) {
				i, ok := byConn[c]
				if !ok {
					if st == StateClosed {
						return // turned away before it was ever tracked
					}
					ta, _ := c.RemoteAddr().(*net.TCPAddr)
					if ta == nil {
						return
					}
					i = ta.Port - 1000
					byConn[c] = i
				}
				if st == StateClosed || st == StateHijacked {
					o.conns[i].workerDone = true
					delete(byConn, c)
				}
			}
		}
		mcrt.Invariant(func() string {
			if o.running > p.conc {
				return fmt.Sprintf("handlers-exceed-concurrency|%d request handlers run at once, Concurrency=%d", o.running, p.conc)
			}
			served := 0
			var perIP [4]int
			for i := range o.conns {
				c := &o.conns[i]
				if c.entered && !c.clientClosed && !c.hjDone {
					perIP[p.clients[i].ip]++
					// "being served" is measured by what the server itself does: under ServeConn until that call returns
					// (its deferred releaseConcurrency is the last visible operation, so the flag flips together with the
					// slot), under Serve until the worker reports StateClosed/StateHijacked (which it does before it puts
					// itself back on the ready list). A hijacked connection leaves the count there, NOT when the hijack
					// handler starts: the server spawns that goroutine and may release the slot before it first runs.
					serverDone := c.serveReturned
					if p.serve {
						serverDone = c.workerDone
					}
					if !c.hjEntered && !serverDone {
						served++
					}
				}
			}
			if served > p.conc {
				var st []string
				for i := range o.conns {
					c := &o.conns[i]
					st = append(st, fmt.Sprintf("conn%d{entered=%v clientClosed=%v hjEntered=%v hjDone=%v ServeConnReturned=%v workerDone=%v}", i, c.entered, c.clientClosed, c.hjEntered, c.hjDone, c.serveReturned, c.workerDone))
				}
				return fmt.Sprintf("served-conns-exceed-concurrency|%d connections are being served (request handler entered, client has not closed, ServeConn not returned / worker not finished with it), Concurrency=%d; Server.concurrency=%d; %s", served, p.conc, c12peek32(unsafe.Pointer(&s.concurrency)), strings.Join(st, " "))
			}
			if p.maxip > 0 {
				for ip, k := range perIP {
					if k > p.maxip {
						return fmt.Sprintf("conns-per-ip-exceed-limit|%d accepted connections from 10.0.0.%d are open at once, MaxConnsPerIP=%d", k, ip, p.maxip)
					}
				}
			}
			if v := c12peek32(unsafe.Pointer(&s.concurrency)); v < 0 {
				return fmt.Sprintf("concurrency-counter-underflow|Server.concurrency = %d", uint32(v))
			}
			if v := c12peek32(unsafe.Pointer(&s.open)); v < 0 {
				return fmt.Sprintf("open-counter-underflow|Server.open = %d", v)
			}
			return ""
		})

		var ln *fasthttputil.InmemoryListener
		if p.serve {
			ln = fasthttputil.NewInmemoryListener()
			mcrt.GoNamed("serve", func() {
				o.serveRet = s.Serve(ln)
				o.serveDone = true
			})
			mcrt.WaitUntil("listening", func() bool { return c12peek32(unsafe.Pointer(&s.open)) == 1 })
		}
		o.baseOpen = s.GetOpenConnectionsCount()
		srvAddr := &net.TCPAddr{IP: net.IPv4(127, 0, 0, 1), Port: 80}
		dial := func(i int) (net.Conn, error) {
			local := &net.TCPAddr{IP: net.IPv4(10, 0, 0, p.clients[i].ip), Port: 1000 + i}
			if p.serve {
				return ln.DialWithLocalAddr(local)
			}
			pc := fasthttputil.NewPipeConns()
			pc.SetAddresses(local, srvAddr, srvAddr, local)
			mcrt.GoNamed(fmt.Sprint("serveconn", i), func() {
				o.conns[i].serveErr = s.ServeConn(pc.Conn2())
				o.conns[i].serveReturned = true
			})
			return pc.Conn1(), nil
		}
		var wg msync.WaitGroup
		for i := 0; i < n; i++ {
			wg.Add(1)
			mcrt.GoNamed(fmt.Sprint("client", i), func() {
				defer wg.Done()
				cn := &o.conns[i]
				defer func() { cn.done = true; o.clientsDone++ }()
				if p.clients[i].phase > 0 {
					mcrt.WaitUntil("idle-gap-over", func() bool { return o.phase >= p.clients[i].phase })
				}
				samePhase := i > 0 && p.clients[i-1].phase == p.clients[i].phase
				if p.staggered && samePhase {
					mcrt.WaitUntil("previous-client-finished", func() bool { return o.conns[i-1].done })
				}
				if p.ordered && samePhase {
					mcrt.WaitUntil("previous-client-dialed", func() bool { return o.conns[i-1].dialed || o.conns[i-1].done })
				}
				if p.oneByOne && samePhase {
					mcrt.WaitUntil("previous-client-settled", func() bool { return settled(i - 1) })
				}
				c, err := dial(i)
				if err != nil {
					cn.failed = true
					cn.readErr = "dial: " + err.Error()
					return
				}
				cn.dialed = true
				c.Write(c12req) // may fail if the server already turned the connection away; the verdict is in what can be read
				if p.clients[i].mode == c12abort {
					mcrt.Covered("aborted")
					cn.clientClosed = true
					c.Close()
					return
				}
				buf := make([]byte, 512)
				for !cn.complete {
					k, err := c.Read(buf)
					cn.got = append(cn.got, buf[:k]...)
					st, _, ok := c12parseResponse(cn.got)
					cn.status = st
					if ok {
						cn.complete = true
						break
					}
					if err != nil {
						cn.readErr = err.Error()
						break
					}
				}
				switch {
				case !cn.complete:
				case cn.status == StatusServiceUnavailable || cn.status == StatusTooManyRequests:
					mcrt.Covered(fmt.Sprint("rejected-", cn.status))
					k, err := c.Read(buf)
					cn.extra = k
					cn.eof = err == io.EOF
				case p.clients[i].mode == c12hijack:
					cn.release = true
					k, err := c.Read(buf)
					cn.hjEOF = k == 0 && err == io.EOF
				default:
					mcrt.Covered("served-then-closed")
				}
				cn.clientClosed = true
				c.Close()
			})
		}
		// Quiescence, and a client blocked for good (= deadlock): the main thread waits on the virtual clock, which only
		// advances when every other thread is blocked or finished. (The scheduler's own deadlock report is avoided on
		// purpose: at the time of writing it hangs when the last runnable thread is one that is just exiting.)
		mtime.Sleep(5 * time.Second)
		if p.idle > 0 {
			spans := 0
			for i := range p.clients {
				c := &o.conns[i]
				switch {
				case p.clients[i].phase != 0:
				case p.clients[i].mode == c12span:
					spans++
					if !c.entered {
						o.stuck = "clients"
						return
					}
				case !c.done:
					o.stuck = "clients"
					return
				}
			}
			if spans == 0 { // every connection so far is closed or hijacked and released: the counters must be back already
				hist := "before the idle gap"
				if v := s.GetCurrentConcurrency(); v != 0 {
					o.midSig, o.mid = "concurrency-counter-nonzero-at-quiescence", fmt.Sprintf("%s: GetCurrentConcurrency() = %d", hist, v)
				} else if v := s.GetOpenConnectionsCount(); v != o.baseOpen {
					o.midSig, o.mid = "open-connections-count-not-back-to-baseline", fmt.Sprintf("%s: GetOpenConnectionsCount() = %d, %d before the first connection", hist, v, o.baseOpen)
				} else if ms := c12mapString(s.perIPConnCounter.m); ms != "" {
					o.midSig, o.mid = "per-ip-counts-nonzero-at-quiescence", fmt.Sprintf("%s: perIPConnCounter.m = {%s}", hist, ms)
				}
			}
			live := mcrt.LiveThreads()
			mtime.Sleep(p.idle)
			if o.retired = live - mcrt.LiveThreads(); o.retired > 0 {
				mcrt.Covered(fmt.Sprintf("idle-workers-retired-%d", o.retired))
			}
			o.phase = 1
			mtime.Sleep(5 * time.Second)
		}
		if o.clientsDone != n {
			o.stuck = "clients"
			return
		}
		o.endConc = s.GetCurrentConcurrency()
		o.endOpen = s.GetOpenConnectionsCount()
		o.endMap = c12mapString(s.perIPConnCounter.m)
		o.quiesced = true
		if p.serve {
			ln.Close()
			mtime.Sleep(time.Second)
			if !o.serveDone {
				o.stuck = "serve"
			}
		}
	}
}

func c12serverCheck(x *mcrt.Exec) (string, string, string) {
	o, _ := x.UserData.(*c12obs)
	if o == nil || x.Out.Panic != "" || x.Out.Horizon || x.Out.Fatal != "" {
		return "", "", ""
	}
	p := o.p
	var sts []string
	for i := range o.conns {
		c := &o.conns[i]
		switch {
		case p.clients[i].mode == c12abort:
			sts = append(sts, "abort")
		case c.complete:
			sts = append(sts, fmt.Sprint(c.status))
		default:
			sts = append(sts, "?")
		}
	}
	cls := fmt.Sprintf("%s maxHandlers=%d", strings.Join(sts, ","), o.maxRunning)
	desc := fmt.Sprintf("serve=%v Concurrency=%d MaxConnsPerIP=%d keepHijacked=%v", p.serve, p.conc, p.maxip, p.keep)
	if p.idle > 0 {
		var ph []string
		for i, c := range p.clients {
			ph = append(ph, fmt.Sprintf("conn%d=phase%d/%s", i, c.phase, c12modeName(c.mode)))
		}
		cls += fmt.Sprintf(" retired=%d", o.retired)
		desc += fmt.Sprintf(" history: phase-0 connections, %v without arrivals (%d idle workers retired), then the phase-1 connections [%s]", p.idle, o.retired, strings.Join(ph, " "))
	}
	if x.Out.Invariant != "" {
		sig, what := c12invSplit(x.Out.Invariant)
		return cls, sig, desc + ": " + what
	}
	if x.Out.Deadlock || o.stuck == "clients" {
		for i := range o.conns {
			c := &o.conns[i]
			if c.done {
				continue
			}
			if c.complete && (c.status == StatusServiceUnavailable || c.status == StatusTooManyRequests) {
				return cls, "rejected-conn-not-closed", fmt.Sprintf("%s: connection %d received a complete %d and then neither data nor EOF", desc, i, c.status)
			}
			if c.release {
				return cls, "hijacked-conn-not-closed-after-release", fmt.Sprintf("%s: hijack handler of connection %d was released, the client never saw EOF", desc, i)
			}
		}
		if o.stuck != "" {
			var st []string
			for i := range o.conns {
				c := &o.conns[i]
				st = append(st, fmt.Sprintf("conn %d: dialed=%v entered=%v status=%d complete=%v done=%v", i, c.dialed, c.entered, c.status, c.complete, c.done))
			}
			return cls, "clients-stuck", desc + ": no thread can make progress; " + strings.Join(st, "; ")
		}
		return cls, "", ""
	}
	for i := range o.conns {
		c := &o.conns[i]
		if p.clients[i].mode == c12abort {
			continue
		}
		who := fmt.Sprintf("%s: connection %d (10.0.0.%d)", desc, i, p.clients[i].ip)
		if c.failed {
			return cls, "client-could-not-connect", who + ": " + c.readErr
		}
		if !c.complete {
			if c.status == StatusServiceUnavailable || c.status == StatusTooManyRequests {
				return cls, "rejected-response-incomplete", fmt.Sprintf("%s was turned away with an incomplete response %s then %s", who, vrt.Q(c.got), c.readErr)
			}
			return cls, "connection-dropped-without-response", fmt.Sprintf("%s got %s then %s", who, vrt.Q(c.got), c.readErr)
		}
		switch c.status {
		case StatusServiceUnavailable, StatusTooManyRequests:
			if c.status == StatusTooManyRequests && p.maxip == 0 {
				return cls, "rejected-429-without-per-ip-limit", who
			}
			if c.entered {
				return cls, "rejected-conn-was-served", fmt.Sprintf("%s got %d although its request handler ran", who, c.status)
			}
			if c.extra != 0 || !c.eof {
				return cls, "rejected-conn-not-closed", fmt.Sprintf("%s got a complete %d, then %d more bytes and eof=%v", who, c.status, c.extra, c.eof)
			}
		case StatusOK:
			if !c.entered {
				return cls, "served-conn-without-handler", who
			}
			if p.clients[i].mode == c12hijack && !c.hjEOF {
				return cls, "hijacked-conn-not-closed-after-release", who + ": no clean EOF after the hijack handler was released"
			}
		default:
			return cls, fmt.Sprintf("unexpected-status-%d", c.status), who
		}
	}
	if !o.quiesced {
		return cls, "", ""
	}
	hist := desc + " outcomes=" + strings.Join(sts, ",")
	if o.midSig != "" {
		return cls, o.midSig, hist + " " + o.mid
	}
	if o.endConc != 0 {
		return cls, "concurrency-counter-nonzero-at-quiescence", fmt.Sprintf("%s: every connection is closed or hijacked-and-released, GetCurrentConcurrency() = %d", hist, o.endConc)
	}
	if o.endOpen != o.baseOpen {
		return cls, "open-connections-count-not-back-to-baseline", fmt.Sprintf("%s: GetOpenConnectionsCount() = %d at quiescence, %d before the first connection", hist, o.endOpen, o.baseOpen)
	}
	if o.endMap != "" {
		return cls, "per-ip-counts-nonzero-at-quiescence", fmt.Sprintf("%s: perIPConnCounter.m = {%s} at quiescence", hist, o.endMap)
	}
	if o.stuck == "serve" {
		return cls, "serve-did-not-return-after-listener-close", hist
	}
	if !p.serve {
		for i := range o.conns {
			if o.conns[i].dialed && !o.conns[i].serveReturned {
				return cls, "serveconn-did-not-return", fmt.Sprintf("%s: ServeConn for connection %d has not returned at quiescence", hist, i)
			}
		}
	}
	return cls, "", ""
}

// ---------------------------------------------------------------------------------------------------------------
// history scenarios: the real Server.Serve over a scripted listener. The driver (main thread) plays a history of
// operations; connections are scripted (one request already in the buffer, then EOF), so there are no client threads:
// the threads are the acceptor, the pool's workers and cleaner, hijack handlers and the driver. That keeps a history of
// 5-8 connections with idle periods between them affordable.
//
//	a / b   a connection from 10.0.0.1 / 10.0.0.2 arrives carrying one request (its handler waits for an 'f')
//	e       a connection from 10.0.0.1 arrives and the client is already gone (EOF before a request)
//	h       like a, the handler hijacks; the hijack handler waits for a further 'f'
//	f       let the oldest still-held handler (request handler or hijack handler) go on
//	g / l   nothing arrives for c12gapShort / c12gapLong of virtual time: everything runs until it blocks, then the
//	        server's timers fire (g: the pool's cleaner runs, nobody is old enough; l: every idle worker is retired)
//
// After the history: all handlers are let go, quiescence is checked, then Concurrency+1 probe connections arrive at once
// (the limit must still be the limit after this history), are let go, and quiescence is checked again.

type c12sconn struct {
	ip     byte
	idx    int
	in     []byte
	out    []byte
	closed int
}

func (c *c12sconn) Read(p []byte) (int, error) {
	if c.closed > 0 {
		return 0, net.ErrClosed
	}
	if len(c.in) > 0 {
		n := copy(p, c.in)
		c.in = c.in[n:]
		return n, nil
	}
	return 0, io.EOF
}

func (c *c12sconn) Write(p []byte) (int, error) {
	if c.closed > 0 {
		return 0, net.ErrClosed
	}
	c.out = append(c.out, p...)
	return len(p), nil
}
func (c *c12sconn) Close() error        { c.closed++; return nil }
func (c *c12sconn) LocalAddr() net.Addr { return &net.TCPAddr{IP: net.IPv4(127, 0, 0, 1), Port: 80} }
func (c *c12sconn) RemoteAddr() net.Addr {
	return &net.TCPAddr{IP: net.IPv4(10, 0, 0, c.ip), Port: 1000 + c.idx}
}
func (c *c12sconn) SetDeadline(time.Time) error      { return nil }
func (c *c12sconn) SetReadDeadline(time.Time) error  { return nil }
func (c *c12sconn) SetWriteDeadline(time.Time) error { return nil }

type c12sln struct {
	q      []net.Conn
	closed bool
}

func (l *c12sln) Accept() (net.Conn, error) {
	mcrt.WaitUntil("accept", func() bool { return len(l.q) > 0 || l.closed })
	if len(l.q) > 0 {
		c := l.q[0]
		l.q = l.q[1:]
		return c, nil
	}
	return nil, io.EOF
}
func (l *c12sln) Close() error   { l.closed = true; return nil }
func (l *c12sln) Addr() net.Addr { return &net.TCPAddr{IP: net.IPv4(127, 0, 0, 1), Port: 80} }

type c12hp struct {
	conc, maxip int
	prefix      string // the first operations of the history
	free        int    // then this many further operations, each one any letter of alphabet
	alphabet    string
}

type c12hc struct {
	kind       byte
	probe      bool
	c          *c12sconn
	entered    bool
	exited     bool
	hjEntered  bool
	hjDone     bool
	workerDone bool
	go1, go2   bool // 'f' tokens: request handler may go on / hijack handler may go on
}

type c12hobs struct {
	p                   c12hp
	hist                string
	conns               []*c12hc
	running, maxRunning int
	retired             int
	baseOpen            int32
	quietSig, quiet     string
	serveDone           bool
	stuck               string
}

const c12settle = 1001 * time.Millisecond

func c12history(p c12hp) func() {
	return func() {
		workerChanCap = 1
		o := &c12hobs{p: p}
		mcrt.SetUserData(o)
		ops := p.prefix
		for i := 0; i < p.free; i++ {
			ops += string(p.alphabet[mcrt.Pick(len(p.alphabet), "op")])
		}
		o.hist = ops
		s := &Server{Concurrency: p.conc, MaxConnsPerIP: p.maxip,
			NoDefaultDate: true, NoDefaultServerHeader: true, NoDefaultContentType: true, Logger: c12nopLogger{}}
		s.Handler = func(ctx *RequestCtx) {
			cn := o.conns[ctx.RemoteAddr().(*net.TCPAddr).Port-1000]
			cn.entered = true
			o.running++
			if o.running > o.maxRunning {
				o.maxRunning = o.running
			}
			mcrt.WaitUntil("handler-held", func() bool { return cn.go1 })
			if cn.kind == 'h' {
				ctx.Hijack(func(net.Conn) {
					cn.hjEntered = true
					mcrt.Covered("hijacked")
					mcrt.WaitUntil("hijack-held", func() bool { return cn.go2 })
					cn.hjDone = true
				})
			}
			ctx.SetBodyString("ok")
			o.running--
			cn.exited = true
		}
		byConn := map[net.Conn]int{}
		s.ConnState = func(c net.Conn, st ConnState) {
			i, ok := byConn[c]
			if !ok {
				if st == StateClosed {
					return // turned away before it was ever tracked
				}
				ta, _ := c.RemoteAddr().(*net.TCPAddr)
				if ta == nil {
					return
				}
				i = ta.Port - 1000
				byConn[c] = i
			}
			if st == StateClosed || st == StateHijacked {
				o.conns[i].workerDone = true
				delete(byConn, c)
			}
		}
		mcrt.Invariant(func() string {
			if o.running > p.conc {
				return fmt.Sprintf("handlers-exceed-concurrency|%d request handlers run at once, Concurrency=%d", o.running, p.conc)
			}
			served := 0
			var perIP [5]int
			for _, cn := range o.conns {
				if !cn.entered {
					continue
				}
				if cn.c.closed == 0 {
					perIP[cn.c.ip]++ // admitted, and the server has not closed it yet (it closes before it unregisters)
				}
				if !cn.workerDone && !cn.hjEntered {
					served++
				}
			}
			if served > p.conc {
				return fmt.Sprintf("served-conns-exceed-concurrency|%d connections are being served (request handler entered, worker has not reported StateClosed/StateHijacked), Concurrency=%d; Server.concurrency=%d", served, p.conc, c12peek32(unsafe.Pointer(&s.concurrency)))
			}
			if p.maxip > 0 {
				for ip, k := range perIP {
					if k > p.maxip {
						return fmt.Sprintf("conns-per-ip-exceed-limit|%d admitted connections from 10.0.0.%d are open at once, MaxConnsPerIP=%d", k, ip, p.maxip)
					}
				}
			}
			if v := c12peek32(unsafe.Pointer(&s.concurrency)); v < 0 {
				return fmt.Sprintf("concurrency-counter-underflow|Server.concurrency = %d", uint32(v))
			}
			if v := c12peek32(unsafe.Pointer(&s.open)); v < 0 {
				return fmt.Sprintf("open-counter-underflow|Server.open = %d", v)
			}
			return ""
		})
		ln := &c12sln{}
		mcrt.GoNamed("serve", func() {
			s.Serve(ln)
			o.serveDone = true
		})
		mcrt.WaitUntil("listening", func() bool { return c12peek32(unsafe.Pointer(&s.open)) == 1 })
		o.baseOpen = s.GetOpenConnectionsCount()
		arrive := func(kind byte, ip byte, probe bool) {
			c := &c12sconn{ip: ip, idx: len(o.conns)}
			if kind != 'e' {
				c.in = append([]byte(nil), c12req...)
			}
			o.conns = append(o.conns, &c12hc{kind: kind, probe: probe, c: c})
			ln.q = append(ln.q, c)
			mcrt.Yield() // the arrival is an event of its own: the acceptor may take it before the driver goes on
		}
		letGo := func() bool {
			for _, cn := range o.conns {
				if !cn.go1 {
					cn.go1 = true
					return true
				}
				if cn.kind == 'h' && !cn.go2 {
					cn.go2 = true
					return true
				}
			}
			return false
		}
		quiet := func(when string) bool {
			for {
				if !letGo() {
					break
				}
			}
			mtime.Sleep(c12settle)
			for i, cn := range o.conns {
				if cn.c.closed == 0 {
					o.stuck = fmt.Sprintf("connection %d (%c) is still open %s although every handler was let go and nothing can run", i, cn.kind, when)
					return false
				}
			}
			if v := s.GetCurrentConcurrency(); v != 0 {
				o.quietSig, o.quiet = "concurrency-counter-nonzero-at-quiescence", fmt.Sprintf("%s: GetCurrentConcurrency() = %d", when, v)
			} else if v := s.GetOpenConnectionsCount(); v != o.baseOpen {
				o.quietSig, o.quiet = "open-connections-count-not-back-to-baseline", fmt.Sprintf("%s: GetOpenConnectionsCount() = %d, %d before the first connection", when, v, o.baseOpen)
			} else if ms := c12mapString(s.perIPConnCounter.m); ms != "" {
				o.quietSig, o.quiet = "per-ip-counts-nonzero-at-quiescence", fmt.Sprintf("%s: perIPConnCounter.m = {%s}", when, ms)
			}
			return o.quietSig == ""
		}
		for _, op := range []byte(ops) {
			switch op {
			case 'a', 'e', 'h':
				arrive(op, 1, false)
			case 'b':
				arrive('a', 2, false)
			case 'f':
				letGo()
				mcrt.Yield()
			case 'g':
				mtime.Sleep(c12gapShort)
			case 'l':
				mtime.Sleep(c12settle)
				live := mcrt.LiveThreads()
				mtime.Sleep(c12gapLong)
				if k := live - mcrt.LiveThreads(); k > 0 {
					o.retired += k
					mcrt.Covered("idle-workers-retired")
				}
			}
		}
		if !quiet("after the history") {
			return
		}
		for _, cn := range o.conns {
			if st, _, ok := c12parseResponse(cn.c.out); ok && st != StatusOK {
				mcrt.Covered(fmt.Sprint("history-rejected-", st))
			}
		}
		for k := 0; k <= p.conc; k++ {
			ip := byte(1)
			if p.maxip > 0 {
				ip = byte(k + 1)
			}
			arrive('a', ip, true)
		}
		mtime.Sleep(c12settle)
		if !quiet("after the probe connections") {
			return
		}
		ln.Close()
		mtime.Sleep(c12settle)
		if !o.serveDone {
			o.stuck = "Serve has not returned after the listener was closed"
		}
	}
}

func c12historyCheck(x *mcrt.Exec) (string, string, string) {
	o, _ := x.UserData.(*c12hobs)
	if o == nil || x.Out.Panic != "" || x.Out.Horizon || x.Out.Fatal != "" {
		return "", "", ""
	}
	p := o.p
	var sts []string
	nprobe := 0
	for _, cn := range o.conns {
		st, _, ok := c12parseResponse(cn.c.out)
		switch {
		case cn.probe:
			nprobe++
			if ok && st == StatusOK {
				nprobe += 100
			}
			continue
		case ok:
			sts = append(sts, fmt.Sprint(st))
		case cn.kind == 'e' && len(cn.c.out) == 0:
			sts = append(sts, "gone")
		default:
			sts = append(sts, "?")
		}
	}
	cls := fmt.Sprintf("%s probes-served=%d/%d maxHandlers=%d retired=%d", strings.Join(sts, ","), nprobe/100, nprobe%100, o.maxRunning, o.retired)
	desc := fmt.Sprintf("Serve, Concurrency=%d MaxConnsPerIP=%d, history %q (a/b: request from 10.0.0.1/.2, e: client gone, h: hijacking request, f: oldest held handler goes on, g/l: %v/%v without arrivals; %d idle workers retired)",
		p.conc, p.maxip, o.hist, c12gapShort, c12gapLong, o.retired)
	if x.Out.Invariant != "" {
		sig, what := c12invSplit(x.Out.Invariant)
		return cls, sig, desc + ": " + what
	}
	if x.Out.Deadlock {
		return "", "", ""
	}
	for i, cn := range o.conns {
		c := cn.c
		who := fmt.Sprintf("%s: connection %d (10.0.0.%d, %c)", desc, i, c.ip, cn.kind)
		if cn.probe {
			who += " [probe after the history]"
		}
		st, l, ok := c12parseResponse(c.out)
		if !ok {
			if cn.kind == 'e' && len(c.out) == 0 {
				continue
			}
			if c.closed == 0 {
				continue // reported as stuck below
			}
			if st == StatusServiceUnavailable || st == StatusTooManyRequests {
				return cls, "rejected-response-incomplete", fmt.Sprintf("%s was turned away with an incomplete response %s", who, vrt.Q(c.out))
			}
			return cls, "connection-dropped-without-response", fmt.Sprintf("%s was closed after %s", who, vrt.Q(c.out))
		}
		switch st {
		case StatusServiceUnavailable, StatusTooManyRequests:
			if st == StatusTooManyRequests && p.maxip == 0 {
				return cls, "rejected-429-without-per-ip-limit", who
			}
			if cn.entered {
				return cls, "rejected-conn-was-served", fmt.Sprintf("%s got %d although its request handler ran", who, st)
			}
			if l != len(c.out) {
				return cls, "rejected-conn-not-closed", fmt.Sprintf("%s got a complete %d and then %d more bytes", who, st, len(c.out)-l)
			}
			if c.closed == 0 && o.stuck != "" {
				return cls, "rejected-conn-not-closed", fmt.Sprintf("%s got a complete %d and was never closed", who, st)
			}
		case StatusOK:
			if !cn.entered {
				return cls, "served-conn-without-handler", who
			}
		default:
			return cls, fmt.Sprintf("unexpected-status-%d", st), who
		}
	}
	if o.stuck != "" {
		if strings.HasPrefix(o.stuck, "Serve ") {
			return cls, "serve-did-not-return-after-listener-close", desc
		}
		return cls, "conn-not-closed-at-quiescence", desc + ": " + o.stuck
	}
	if o.quietSig != "" {
		return cls, o.quietSig, desc + " " + o.quiet
	}
	return cls, "", ""
}

func c12modeName(m int) string { return []string{"close", "hijack", "abort", "span"}[m] }

func TestVerif_C12(t *testing.T) {
	r := vrt.Begin(t, "C12", "model_checking")
	defer r.End()
	r.Rule("(a) kernels: 3 threads x {wrapPerIPConn, hold (one step | until the others tried), Close once|twice} on 1-2 IPv4 addresses with MaxConnsPerIP 1-2; bare perIPConnCounter Register/Unregister x2 per thread; " +
		"tryAcquireConcurrency/releaseConcurrency x1-2 per thread with Concurrency 1-2. (b) real Server via Serve(InmemoryListener) and via ServeConn, Concurrency 1-2, MaxConnsPerIP 0-2, 2-3 client threads from 1-2 addresses, " +
		"each dial/write/read then close | hijack+release | abort; handlers held on a gate until every other client is served, rejected or gone (or free-running / staggered); two-phase histories under Serve: 1-2 warm-up connections (closed, hijacked, aborted, or one whose handler stays busy), then 7.5 s | 22.5 s of virtual time without arrivals (the worker pool's cleaner runs; after 22.5 s every idle worker has been retired), then a burst of Concurrency+1 connections. " +
		"(c) histories: Serve over a scripted listener and scripted connections (request already buffered, then EOF; no client threads), the driver plays EVERY operation sequence of length L over an alphabet of {a,b: request connection from address 1,2 arrives and its handler is held; e: connection whose client is gone; h: hijacking request; f: the oldest held request/hijack handler goes on; g,l: 7.5 s / 22.5 s without arrivals} " +
		"with Concurrency 1-2, MaxConnsPerIP 0-2 (quick: L=4-5 over {a,f,g,l} {a,b,f,l} {a,h,f,l}, preemption bound 0-1; thorough: L up to 6, bound up to 2, plus {a,e,f,l}); after every history all handlers are let go, quiescence is checked, Concurrency+1 probe connections arrive at once (exactly the limits must still hold), and quiescence is checked again. " +
		"All schedules up to the preemption bound. " +
		"Invariant in every state: running handlers <= Concurrency; connections with handler entered, not closed by the client, whose ServeConn has not returned (Serve: whose worker has not reported StateClosed/StateHijacked) <= Concurrency; such connections per IP (hijacked ones until their handler returns) <= MaxConnsPerIP; counters never negative. " +
		"Per execution: a turned-away connection reads one complete 503/429 and then EOF (scripted connection: exactly one complete 503/429 written, closed, handler never ran); at every quiescence (before an idle gap, after the history, after the probes) GetCurrentConcurrency()==0, GetOpenConnectionsCount()==pre-traffic value, per-IP map empty. Non-trivial: executions with >=1 deviation")
	r.Assume("mcrt shim semantics (litmus-tested)", "sync.Pool modelled as deterministic LIFO without scheduling points", "workerChanCap fixed to 1 (GOMAXPROCS>1 behaviour)",
		"'open count back to baseline' per DESIGN 3.7: 0 under a listening Serve, -1 for a ServeConn-only server",
		"virtual time: idle gaps are exact and cost no wall time; MaxIdleWorkerDuration left at its default 10 s (cleaner period 10 s, a worker idle since t is retired at the first cleaner run after t+10 s)")
	thorough := r.Thorough()
	var scs []mcx.Scenario
	add := func(name string, bound, horizon int, body func(), chk func(x *mcrt.Exec) (string, string, string)) {
		if f := os.Getenv("VERIF_SCENARIO"); f != "" { // substring filter for debugging; alternatives separated by '|'
			hit := false
			for _, alt := range strings.Split(f, "|") {
				hit = hit || strings.Contains(name, alt)
			}
			if !hit {
				return
			}
		}
		scs = append(scs, mcx.Scenario{Name: name, Cfg: mcrt.Config{Bound: bound, Horizon: horizon}, Body: body, Check: chk})
	}
	// ---- kernels
	kb := vrt.Pick(r, 2, 3)
	for _, max := range []int{1, 2} {
		add(fmt.Sprintf("kernel/perip/max%d/ips-1-1-1", max), kb, 2000, c12perIPKernel(max, []byte{1, 1, 1}), c12kernelCheck)
		add(fmt.Sprintf("kernel/perip/max%d/ips-1-1-2", max), kb, 2000, c12perIPKernel(max, []byte{1, 1, 2}), c12kernelCheck)
	}
	add("kernel/counter/ips-1-1-1", kb+1, 2000, c12counterKernel([]byte{1, 1, 1}), c12kernelCheck)
	add("kernel/counter/ips-1-2-1", kb+1, 2000, c12counterKernel([]byte{1, 2, 1}), c12kernelCheck)
	for _, conc := range []int{1, 2} {
		add(fmt.Sprintf("kernel/concurrency/conc%d/3x1", conc), kb+1, 2000, c12concKernel(conc, 3, 1), c12concCheck)
		add(fmt.Sprintf("kernel/concurrency/conc%d/3x2", conc), kb, 2000, c12concKernel(conc, 3, 2), c12concCheck)
	}
	// ---- server
	type sc struct {
		p     c12sp
		bound int
		tier  int // 0 = quick and thorough, 1 = thorough only
	}
	var list []sc
	cl := func(ms ...int) []c12client { // pairs ip, mode
		var out []c12client
		for i := 0; i+1 < len(ms); i += 2 {
			out = append(out, c12client{ip: byte(ms[i]), mode: ms[i+1]})
		}
		return out
	}
	// two-client shapes: a covering selection of (Concurrency, MaxConnsPerIP, modes, addresses, gate)
	shapes2 := []c12sp{
		{conc: 1, maxip: 0, gate: true, clients: cl(1, c12close, 1, c12close)},
		{conc: 2, maxip: 1, gate: true, clients: cl(1, c12close, 1, c12close)},
		{conc: 2, maxip: 1, gate: true, clients: cl(1, c12close, 2, c12hijack)},
		{conc: 1, maxip: 2, gate: true, clients: cl(1, c12hijack, 1, c12close)},
		{conc: 1, maxip: 1, gate: false, clients: cl(1, c12close, 1, c12abort)},
		{conc: 1, maxip: 1, gate: true, keep: true, clients: cl(1, c12hijack, 1, c12close)},
		{conc: 1, maxip: 1, staggered: true, clients: cl(1, c12close, 1, c12close)},
		{conc: 2, maxip: 2, gate: false, clients: cl(1, c12abort, 1, c12hijack)},
	}
	shapes3 := []c12sp{
		{conc: 2, maxip: 1, gate: true, clients: cl(1, c12close, 1, c12close, 2, c12close)},
		{conc: 1, maxip: 2, gate: false, clients: cl(1, c12close, 1, c12hijack, 1, c12abort)},
		{conc: 2, maxip: 2, gate: true, keep: true, clients: cl(1, c12hijack, 1, c12hijack, 1, c12close)},
		{conc: 2, maxip: 0, staggered: true, clients: cl(1, c12close, 2, c12close, 1, c12close)},
	}
	with := func(p c12sp, f func(*c12sp)) c12sp { f(&p); return p }
	// Cost model (measured): every blocking point with several runnable threads is a free branch, so a scenario costs
	// 10^3..10^5 executions at bound 1 when one of two clients is turned away early, ~10^6 when arrivals are
	// unconstrained under Serve or when three clients run, and x50-100 per extra preemption.
	for k, p := range shapes2 {
		// Serve: arrivals one by one in the quick tier, unconstrained in thorough
		cheap := k == 0 || k == 1 || k == 3 || k == 5 || k == 6 // one client is turned away early
		serveTier := 1
		if k == 0 || k == 1 || k == 3 || k == 5 {
			serveTier = 0 // 1-2.5 x 10^5 executions; the other shapes need > 6 x 10^5
		}
		list = append(list, sc{with(p, func(q *c12sp) { q.serve, q.oneByOne = true, true }), 1, serveTier})
		list = append(list, sc{with(p, func(q *c12sp) { q.serve = true }), 1, 1})
		// ServeConn: fully concurrent arrivals
		list = append(list, sc{p, 1, 0})
		if cheap {
			list = append(list, sc{p, 2, 0})
		} else {
			list = append(list, sc{p, 2, 1})
		}
		if k == 0 || k == 5 {
			list = append(list, sc{p, 3, 1})
			list = append(list, sc{with(p, func(q *c12sp) { q.serve, q.oneByOne = true, true }), 2, 1})
		}
	}
	for k, p := range shapes3 {
		list = append(list, sc{p, 1, 1})
		if k%2 == 0 {
			list = append(list, sc{with(p, func(q *c12sp) { q.serve, q.oneByOne = true, true }), 1, 1})
		}
	}
	// thorough: the full Concurrency x MaxConnsPerIP grid
	for _, conc := range []int{1, 2} {
		for _, maxip := range []int{0, 1, 2} {
			for _, serve := range []bool{true, false} {
				list = append(list,
					sc{c12sp{serve: serve, oneByOne: serve, conc: conc, maxip: maxip, gate: true, clients: cl(1, c12close, 1, c12hijack)}, 1, 1},
					sc{c12sp{serve: serve, oneByOne: serve, conc: conc, maxip: maxip, gate: false, clients: cl(1, c12close, 2, c12abort)}, 1, 1},
				)
			}
		}
	}
	// ---- two-phase histories under Serve: warm-up connections, an idle gap in which the worker pool's cleaner runs
	// (and retires the idle workers if the gap is long enough), then a burst that must still be held to the limits.
	ph := func(warm []c12client, burst []c12client) []c12client {
		out := append([]c12client{}, warm...)
		for _, c := range burst {
			c.phase = 1
			out = append(out, c)
		}
		return out
	}
	phased := []sc{
		// one worker created, used, retired; then Concurrency+1 arrivals
		{c12sp{conc: 1, maxip: 0, gate: true, idle: c12gapLong, clients: ph(cl(1, c12close), cl(1, c12close, 1, c12close))}, 0, 0},
		{c12sp{conc: 1, maxip: 1, gate: true, idle: c12gapLong, clients: ph(cl(1, c12hijack), cl(1, c12close, 2, c12close))}, 0, 1},
		// (a busy worker spanning the gap while the other one is retired - mode span - costs > 2 x 10^6 executions at bound 0
		// with real client threads and > 3 x 10^6 at bound 1 for the first shape: those histories are enumerated by the
		// scripted-listener scenarios below, e.g. "aafl" with Concurrency 2)
		// the cleaner runs but nobody is old enough to go
		{c12sp{conc: 1, maxip: 0, gate: true, idle: c12gapShort, clients: ph(cl(1, c12close), cl(1, c12close, 1, c12close))}, 0, 1},
		// free-running burst after an aborted warm-up connection
		{c12sp{conc: 1, maxip: 2, gate: false, idle: c12gapLong, clients: ph(cl(1, c12abort), cl(1, c12close, 1, c12hijack))}, 0, 1},
	}
	for _, e := range phased {
		e.p.serve, e.p.oneByOne = true, true
		list = append(list, e)
	}
	if os.Getenv("C12_ALL") != "" {
		thorough = true
	}
	seen := map[string]bool{}
	for _, e := range list {
		if e.tier == 1 && !thorough {
			continue
		}
		var cs []string
		for _, c := range e.p.clients {
			nm := fmt.Sprintf("ip%d-%s", c.ip, c12modeName(c.mode))
			if c.phase > 0 {
				nm += "@after"
			}
			cs = append(cs, nm)
		}
		how := "free"
		if e.p.gate {
			how = "gated"
		}
		if e.p.staggered {
			how = "staggered"
		}
		if e.p.ordered {
			how += "-ordered"
		}
		if e.p.oneByOne {
			how += "-onebyone"
		}
		via := "serveconn"
		if e.p.serve {
			via = "serve"
		}
		name := fmt.Sprintf("server/%s/conc%d/maxip%d/%s/%s/b%d", via, e.p.conc, e.p.maxip, strings.Join(cs, "+"), how, e.bound)
		if e.p.keep {
			name += "/keephijacked"
		}
		if e.p.idle > 0 {
			name += fmt.Sprintf("/idle-%v", e.p.idle)
		}
		if seen[name] {
			continue
		}
		seen[name] = true
		add(name, e.bound, 6000, c12server(e.p), c12serverCheck)
	}
	// ---- histories over the scripted listener
	type hs struct {
		conc, maxip int
		alphabet    string
		length      int
		bound       int
		tier        int
	}
	hists := []hs{
		// quick (and thorough)
		{1, 0, "aflg", 5, 0, 0},
		{1, 0, "aflg", 4, 1, 0},
		{1, 1, "abfl", 4, 0, 0},
		{1, 0, "ahfl", 4, 0, 0},
		{2, 0, "aflg", 5, 0, 0},
		{2, 1, "abfl", 4, 0, 0},
		// thorough: longer histories, one more preemption, client-gone and hijacking arrivals with two workers
		{1, 0, "aflg", 6, 0, 1},
		{1, 0, "aflg", 5, 1, 1},
		{1, 0, "aflg", 3, 2, 1},
		{1, 1, "abfl", 5, 0, 1},
		{1, 1, "abfl", 4, 1, 1},
		{2, 1, "abfl", 5, 0, 1},
		{1, 2, "ahfl", 4, 1, 1},
		{2, 0, "aflg", 6, 0, 1},
		{2, 0, "aflg", 4, 1, 1},
		{2, 0, "aefl", 5, 0, 1},
		{2, 2, "ahfl", 5, 0, 1},
		{2, 1, "abfl", 3, 1, 1},
	}
	first := map[string]bool{}
	for _, h := range hists {
		if h.tier == 1 && !thorough || os.Getenv("C12_HIST") != "" {
			continue
		}
		// one scenario per first operation (they run in parallel); the remaining length-1 operations are free choices
		for _, op := range h.alphabet {
			name := fmt.Sprintf("history/conc%d/maxip%d/%c+%dx[%s]/b%d", h.conc, h.maxip, op, h.length-1, h.alphabet, h.bound)
			first[name] = true
			add(name, h.bound, 8000,
				c12history(c12hp{conc: h.conc, maxip: h.maxip, prefix: string(op), free: h.length - 1, alphabet: h.alphabet}), c12historyCheck)
		}
	}
	if hs := os.Getenv("C12_HIST"); hs != "" { // sizing aid: conc,maxip,prefix,free,alphabet,bound;...
		for _, e := range strings.Split(hs, ";") {
			f := strings.Split(e, ",")
			conc, _ := strconv.Atoi(f[0])
			maxip, _ := strconv.Atoi(f[1])
			free, _ := strconv.Atoi(f[3])
			bound, _ := strconv.Atoi(f[5])
			add(fmt.Sprintf("history/conc%d/maxip%d/%s+%dx[%s]/b%d", conc, maxip, f[2], free, f[4], bound), bound, 8000,
				c12history(c12hp{conc: conc, maxip: maxip, prefix: f[2], free: free, alphabet: f[4]}), c12historyCheck)
		}
	}
	r.Set("kernel_preemption_bound", fmt.Sprint(kb))
	// scenarios are dealt round-robin to the worker processes, each of which has its own time cap: the many small history
	// scenarios go first (1-2 minutes per worker in the thorough tier) so that the cap cuts into the tail of one of the
	// multi-million-execution server scenarios, which do not complete their bound anyway, rather than skipping histories
	sort.SliceStable(scs, func(i, j int) bool { return first[scs[i].Name] && !first[scs[j].Name] })
	mcx.Run(r, scs)
}
