//go:build verif

package fasthttp

// C24 — FS responses carry the file's bytes, ranges and validators correctly.
//
// Two enumerations:
//  (1) handler level: file sizes x Range header values (RFC 9110 section 14 grammar, boundary positions, malformed and
//      multi-range forms) x Accept-Encoding x If-Modified-Since x {GET,HEAD} x {os Root, fs.FS} x {cache, SkipCache},
//      every response serialised with Response.Write and re-parsed by net/http.ReadResponse (what a peer would see);
//  (1b) histories of 2..3/4 requests (plain GET, HEAD, GET+gzip, satisfiable range at start / middle / suffix,
//      unsatisfiable range) on one handler instance and one file: pooled readers and cached handles carry state;
//  (2) ParseByteRange alone on every string of at most 7/8 symbols over a small alphabet.
//
// Oracle: c24Eval (own transcription of RFC 9110 14.1.1/14.1.2/14.2/13.1.3), cross-checked on every (size, Range,
// If-Modified-Since, method) against net/http.ServeContent. Documented net/http deviations that are NOT tool errors
// (c24CrossCheck):
//   E1  size 0 and an unsatisfiable int-range: ServeContent answers 200 on purpose (comment in net/http/fs.go);
//   E2  zero-length suffix range "bytes=-0": ServeContent answers 206 with an empty body and "bytes N-(N-1)/N";
//       RFC 9110 14.1.2/14.1.3 make a suffix-length of 0 unsatisfiable, the property statement says 416.
// Interpretation (DESIGN 3.7): only the exact form  bytes=DIGITS-DIGITS / bytes=DIGITS- / bytes=-DIGITS  gets the
// strict 206/416 verdict. Relaxed (200-full, 416 or a self-consistent 206; never wrong bytes): unit case variants,
// whitespace, list syntax, multi-range, invalid int-ranges (last<first), numerals above MaxInt64 whose RFC verdict
// would be 206 (both fasthttp and net/http refuse them gracefully, RFC 9110 14.1.1 only demands no overflow), and a
// non-zero suffix range on an empty file (no Content-Range can describe the empty slice).

import (
	"bufio"
	"bytes"
	"compress/gzip"
	"encoding/json"
	"fmt"
	"io"
	"io/fs"
	"math/big"
	"net/http"
	"net/http/httptest"
	"os"
	"path/filepath"
	"strconv"
	"strings"
	"testing"
	"time"

	"github.com/andybalholm/brotli"
	"github.com/klauspost/compress/zstd"
	"github.com/valyala/fasthttp/internal/verif/seqx"
	"github.com/valyala/fasthttp/internal/verif/vrt"
)

const c24Big = "10000000000000000000" // 10^19 > MaxInt64

var c24Mtime = time.Date(2021, 3, 4, 5, 6, 7, 500_000_000, time.UTC) // sub-second part on purpose

type c24NopLogger struct{}

func (c24NopLogger) Printf(string, ...any) {}

// ---------------------------------------------------------------------------------------------------------------
// reference evaluator

type c24Verdict struct {
	Kind  string // "200" | "206" | "416" | "304" | "relaxed"
	S, E  int    // for 206
	Shape string // symbolic shape of the range, used in signatures
}

func c24Digits(s string) bool {
	for i := 0; i < len(s); i++ {
		if s[i] < '0' || s[i] > '9' {
			return false
		}
	}
	return true
}

var c24MaxInt64 = new(big.Int).SetInt64(1<<63 - 1)

// c24EvalRange evaluates a Range header value against a representation of n bytes (RFC 9110 section 14.1.2).
// present=false means "no Range header" (an empty value is the same as absent for both implementations).
func c24EvalRange(h string, n int) c24Verdict {
	if h == "" {
		return c24Verdict{Kind: "200", Shape: "no-range"}
	}
	const unit = "bytes="
	if !strings.HasPrefix(h, unit) {
		return c24Verdict{Kind: "relaxed", Shape: "not-canonical-bytes-unit"}
	}
	spec := h[len(unit):]
	i := strings.IndexByte(spec, '-')
	if i < 0 || !c24Digits(spec[:i]) || !c24Digits(spec[i+1:]) || len(spec) == 1 {
		return c24Verdict{Kind: "relaxed", Shape: "malformed-or-list"}
	}
	firstS, lastS := spec[:i], spec[i+1:]
	N := big.NewInt(int64(n))
	if firstS == "" { // suffix-range
		k, _ := new(big.Int).SetString(lastS, 10)
		switch {
		case k.Sign() == 0:
			return c24Verdict{Kind: "416", Shape: "suffix:k=0"}
		case n == 0:
			return c24Verdict{Kind: "relaxed", Shape: "suffix:k>0,empty-file"}
		case k.Cmp(c24MaxInt64) > 0:
			return c24Verdict{Kind: "relaxed", Shape: "suffix:k>maxint64"}
		case k.Cmp(N) >= 0:
			sh := "suffix:k=N"
			if k.Cmp(N) > 0 {
				sh = "suffix:k>N"
			}
			return c24Verdict{Kind: "206", S: 0, E: n - 1, Shape: sh}
		}
		return c24Verdict{Kind: "206", S: n - int(k.Int64()), E: n - 1, Shape: "suffix:0<k<N"}
	}
	first, _ := new(big.Int).SetString(firstS, 10)
	var last *big.Int
	if lastS != "" {
		last, _ = new(big.Int).SetString(lastS, 10)
		if last.Cmp(first) < 0 {
			return c24Verdict{Kind: "relaxed", Shape: "int:last<first(invalid)"}
		}
	}
	if first.Cmp(N) >= 0 {
		sh := "int:first=N"
		if first.Cmp(N) > 0 {
			sh = "int:first>N"
		}
		return c24Verdict{Kind: "416", Shape: sh}
	}
	s := int(first.Int64())
	switch {
	case last == nil:
		return c24Verdict{Kind: "206", S: s, E: n - 1, Shape: "int:first<N,open"}
	case last.Cmp(c24MaxInt64) > 0:
		return c24Verdict{Kind: "relaxed", Shape: "int:last>maxint64"}
	case last.Cmp(N) >= 0:
		sh := "int:first<N,last=N"
		if last.Cmp(N) > 0 {
			sh = "int:first<N,last>N"
		}
		return c24Verdict{Kind: "206", S: s, E: n - 1, Shape: sh}
	}
	sh := "int:first<N,last<N-1"
	if int(last.Int64()) == n-1 {
		sh = "int:first<N,last=N-1"
	}
	return c24Verdict{Kind: "206", S: s, E: int(last.Int64()), Shape: sh}
}

// c24NotNewer: RFC 9110 13.1.3, to the second. ok=false when the header is absent or not an HTTP-date (ignored).
func c24NotNewer(ims string, mtime time.Time) (notNewer, ok bool) {
	if ims == "" {
		return false, false
	}
	t, err := time.Parse(http.TimeFormat, ims)
	if err != nil {
		return false, false
	}
	return !mtime.Truncate(time.Second).After(t), true
}

func c24Eval(rng, ims string, n int) c24Verdict {
	v := c24EvalRange(rng, n)
	if nn, ok := c24NotNewer(ims, c24Mtime); ok && nn {
		return c24Verdict{Kind: "304", Shape: v.Shape}
	}
	return v
}

// c24CrossCheck compares the evaluator with net/http.ServeContent; an unexplained disagreement is a tool error.
func c24CrossCheck(r *vrt.R, data []byte, method, rng, ims string, v c24Verdict) {
	req := httptest.NewRequest(method, "/f", nil)
	if rng != "" {
		req.Header.Set("Range", rng)
	}
	if ims != "" {
		req.Header.Set("If-Modified-Since", ims)
	}
	rec := httptest.NewRecorder()
	http.ServeContent(rec, req, "f.bin", c24Mtime, bytes.NewReader(data))
	n := len(data)
	bad := func(why string) {
		r.ToolError("reference models disagree (%s): method=%s size=%d Range=%q IMS=%q: evaluator=%+v, ServeContent=%d Content-Range=%q body=%d bytes",
			why, method, n, rng, ims, v, rec.Code, rec.Header().Get("Content-Range"), rec.Body.Len())
	}
	switch v.Kind {
	case "304":
		if rec.Code != 304 {
			bad("304")
		}
	case "200":
		if rec.Code != 200 || (method == "GET" && !bytes.Equal(rec.Body.Bytes(), data)) {
			bad("200")
		}
	case "206":
		if rec.Code != 206 || rec.Header().Get("Content-Range") != fmt.Sprintf("bytes %d-%d/%d", v.S, v.E, n) ||
			(method == "GET" && !bytes.Equal(rec.Body.Bytes(), data[v.S:v.E+1])) {
			bad("206")
		}
	case "416":
		switch {
		case rec.Code == 416:
		case n == 0 && rec.Code == 200 && strings.HasPrefix(v.Shape, "int:"): // E1
		case v.Shape == "suffix:k=0" && rec.Code == 206 && rec.Body.Len() == 0 &&
			rec.Header().Get("Content-Range") == fmt.Sprintf("bytes %d-%d/%d", n, n-1, n): // E2
		default:
			bad("416")
		}
	case "relaxed":
		// no claim; ServeContent must at least not invent bytes
		if rec.Code == 206 && method == "GET" && rec.Header().Get("Content-Range") != "" {
			if s, e, ok := c24ParseContentRange(rec.Header().Get("Content-Range"), n); ok && !bytes.Equal(rec.Body.Bytes(), data[s:e+1]) {
				bad("relaxed-206-bytes")
			}
		}
	}
}

func c24ParseContentRange(cr string, n int) (s, e int, ok bool) {
	var total int
	if _, err := fmt.Sscanf(cr, "bytes %d-%d/%d", &s, &e, &total); err != nil {
		return 0, 0, false
	}
	if cr != fmt.Sprintf("bytes %d-%d/%d", s, e, total) || total != n || s < 0 || s > e || e >= n {
		return 0, 0, false
	}
	return s, e, true
}

// ---------------------------------------------------------------------------------------------------------------
// files and handlers

func c24Content(kind string, n int) []byte {
	b := make([]byte, 0, n+32)
	if kind == "text" {
		for i := 0; len(b) < n; i++ {
			b = fmt.Appendf(b, "line %07d of the verification file, same words every line\n", i)
		}
		return b[:n]
	}
	x := uint64(0x9E3779B97F4A7C15) // xorshift: incompressible, deterministic
	for len(b) < n {
		x ^= x << 13
		x ^= x >> 7
		x ^= x << 17
		b = append(b, byte(x), byte(x>>8), byte(x>>16), byte(x>>24), byte(x>>32), byte(x>>40), byte(x>>48), byte(x>>56))
	}
	return b[:n]
}

type c24File struct {
	Kind string
	N    int
	name string
	data []byte
}

type c24Variant struct {
	Name      string
	dirfs     bool
	skipCache bool
}

var c24Variants = []c24Variant{
	{"osroot-cache", false, false}, {"osroot-skipcache", false, true},
	{"dirfs-cache", true, false}, {"dirfs-skipcache", true, true},
}

func c24Sizes(r *vrt.R) []int {
	if r.Thorough() {
		return []int{0, 1, 2, 10, 4095, 4096, 4097, 8191, 8192, 8193, 16384, 20000, 65537}
	}
	return []int{0, 1, 10, 8191, 8192, 8193, 20000}
}

func c24MakeFiles(dir string, sizes []int) ([]*c24File, error) {
	var out []*c24File
	for _, kind := range []string{"text", "noise"} {
		for _, n := range sizes {
			f := &c24File{Kind: kind, N: n, data: c24Content(kind, n)}
			f.name = fmt.Sprintf("%s%d.txt", kind, n)
			p := filepath.Join(dir, f.name)
			if err := os.WriteFile(p, f.data, 0o644); err != nil {
				return nil, err
			}
			if err := os.Chtimes(p, c24Mtime, c24Mtime); err != nil {
				return nil, err
			}
			out = append(out, f)
		}
	}
	return out, nil
}

func c24NewHandler(dir string, v c24Variant, stop chan struct{}) RequestHandler {
	f := &FS{AcceptByteRange: true, Compress: true, CompressBrotli: true, CompressZstd: true,
		CacheDuration: time.Hour, SkipCache: v.skipCache, CleanStop: stop}
	if v.dirfs {
		f.FS = os.DirFS(dir)
		f.Root = ""
		f.AllowEmptyRoot = true
	} else {
		f.Root = dir
	}
	return f.NewRequestHandler()
}

// ---------------------------------------------------------------------------------------------------------------
// the Range values

func c24Ranges(n int, thorough bool) []string {
	seen := map[string]bool{}
	var out []string
	add := func(s string) {
		if !seen[s] {
			seen[s] = true
			out = append(out, s)
		}
	}
	add("") // no Range header
	pos := []string{"", "0", "1", strconv.Itoa(n - 1), strconv.Itoa(n), strconv.Itoa(n + 1), c24Big}
	if thorough {
		pos = append(pos, "2", strconv.Itoa(n-2), strconv.Itoa(n/2), "8191", "8192", "9223372036854775807", "9223372036854775808", "18446744073709551616")
	}
	for _, f := range pos {
		for _, l := range pos {
			if strings.HasPrefix(f, "-") || strings.HasPrefix(l, "-") {
				continue // n-1 / n-2 negative for tiny files
			}
			add("bytes=" + f + "-" + l)
		}
	}
	for _, k := range []int{0, 1, n, n + 1} {
		add("bytes=-" + strconv.Itoa(k))
	}
	add("bytes=-00")
	add("bytes=-000000000000000000000000")
	add("bytes=00-01")
	add("bytes=0-0000000000000000000000000")
	add("bytes=0000000000000000000000000-")
	// unit / case / whitespace variants, malformed and list forms
	for _, s := range []string{
		"Bytes=0-0", "BYTES=0-0", "bYtEs=-1", "bytes =0-0", "bytes= 0-0", "bytes=0-0 ", " bytes=0-0", "bytes=0 - 0", "bytes=0- 0", "bytes=0 -0",
		"bytes=\t0-0", "bytes:0-0", "bytes0-0", "byte=0-0", "bytess=0-0", "octets=0-0", "items=0-0", "=0-0", "0-0", "bytes", "bytes=", "bytes==0-0",
		"bytes=-", "bytes=--", "bytes=--1", "bytes=-+1", "bytes=+0-0", "bytes=0-+0", "bytes=0--0", "bytes=0-0-0", "bytes=a-b", "bytes=0-a", "bytes=a-0",
		"bytes=0x0-0x1", "bytes=0.0-1", "bytes=1e0-", "bytes=\xef\xbc\x90-\xef\xbc\x91", "bytes=0", "bytes=0_0", "bytes=0\xe2\x80\x930",
		"bytes=1-0", "bytes=" + strconv.Itoa(n) + "-0",
		"bytes=0-0,1-1", "bytes=0-0, 1-1", "bytes=0-0 ,1-1", "bytes=0-0,", "bytes=,0-0", "bytes=0-0,,", "bytes=,", "bytes=0-0,-1", "bytes=-1,-1",
		"bytes=0-,0-", "bytes=0-0,a", "bytes=a,0-0", "bytes=" + strconv.Itoa(n) + "-,0-0", "bytes=0-0," + strconv.Itoa(n) + "-", "bytes=-0,-0", "bytes=-0,0-0",
		"bytes=0-0;1-1", "bytes=0-0\x00", "bytes=0-0,bytes=1-1",
	} {
		add(s)
	}
	return out
}

type c24IMS struct{ Label, Value string }

func c24IMSValues() []c24IMS {
	base := c24Mtime.Truncate(time.Second)
	return []c24IMS{
		{"absent", ""},
		{"mtime-1s", base.Add(-time.Second).Format(http.TimeFormat)},
		{"=mtime", base.Format(http.TimeFormat)},
		{"mtime+1s", base.Add(time.Second).Format(http.TimeFormat)},
		{"garbage", "yesterday at noon"},
	}
}

func c24AEList(thorough bool) []string {
	if thorough {
		return []string{"", "gzip", "br", "zstd", "gzip, br, zstd", "zstd, gzip", "identity", "deflate", "br;q=1.0, gzip;q=0.5"}
	}
	return []string{"", "gzip", "br", "zstd"}
}

// ---------------------------------------------------------------------------------------------------------------
// one request

type c24Resp struct {
	Status int
	H      http.Header
	Body   []byte
	Err    string // serialisation / framing problem
}

// c24IO holds the per-shard reusable buffers (allocation churn dominated the run time otherwise).
type c24IO struct {
	buf bytes.Buffer
	bw  *bufio.Writer
	br  *bufio.Reader
	zd  *zstd.Decoder
}

func c24NewIO() *c24IO {
	c := &c24IO{}
	c.bw = bufio.NewWriter(&c.buf)
	c.br = bufio.NewReader(&c.buf)
	c.zd, _ = zstd.NewReader(nil, zstd.WithDecoderConcurrency(1))
	return c
}

func c24Do(cio *c24IO, h RequestHandler, ctx *RequestCtx, method, uri, rng, ae, ims string) (res c24Resp) {
	defer func() {
		if e := recover(); e != nil {
			res.Err = fmt.Sprintf("panic: %v", e)
		}
	}()
	ctx.Request.Reset()
	ctx.Response.Reset()
	ctx.Request.Header.SetMethod(method)
	ctx.Request.SetRequestURI(uri)
	ctx.Request.Header.SetHost("h")
	if rng != "" {
		ctx.Request.Header.Set("Range", rng)
	}
	if ae != "" {
		ctx.Request.Header.Set("Accept-Encoding", ae)
	}
	if ims != "" {
		ctx.Request.Header.Set("If-Modified-Since", ims)
	}
	h(ctx)
	if ctx.IsHead() {
		ctx.Response.SkipBody = true // what Server.serveConn does after the handler returns
	}
	buf, bw, br := &cio.buf, cio.bw, cio.br
	buf.Reset()
	bw.Reset(buf)
	if err := ctx.Response.Write(bw); err != nil {
		res.Status = ctx.Response.StatusCode()
		res.Err = "write: " + err.Error()
		ctx.Response.Reset()
		return res
	}
	bw.Flush()
	ctx.Response.Reset()
	br.Reset(buf)
	resp, err := http.ReadResponse(br, &http.Request{Method: method})
	if err != nil {
		res.Err = "unparsable response: " + err.Error()
		return res
	}
	res.Status = resp.StatusCode
	res.H = resp.Header
	body, err := io.ReadAll(resp.Body)
	res.Body = body
	if err != nil {
		res.Err = "body: " + err.Error()
		return res
	}
	if rest, _ := io.ReadAll(br); len(rest) > 0 {
		res.Err = fmt.Sprintf("%d bytes after the framed body", len(rest))
	}
	return res
}

func c24Decode(cio *c24IO, ce string, b []byte) ([]byte, error) {
	switch ce {
	case "":
		return b, nil
	case "gzip":
		zr, err := gzip.NewReader(bytes.NewReader(b))
		if err != nil {
			return nil, err
		}
		return io.ReadAll(zr)
	case "br":
		return io.ReadAll(brotli.NewReader(bytes.NewReader(b)))
	case "zstd":
		return cio.zd.DecodeAll(b, nil)
	}
	return nil, fmt.Errorf("unknown content-encoding %q", ce)
}

type c24Case struct {
	Mode    string `json:"mode"` // "handler" | "parse"
	Variant string `json:"variant,omitempty"`
	Kind    string `json:"kind,omitempty"`
	N       int    `json:"n"`
	Method  string `json:"method,omitempty"`
	Range   string `json:"range"` // strconv-quoted
	AE      string `json:"ae,omitempty"`
	IMS     string `json:"ims,omitempty"` // label
}

type c24Counts struct {
	st200, st206, st304, st416, stOther   int64
	enc, strict206, strict416, relaxed    int64
	v304, headPairs, crossChecks, decoded int64
}

// c24CheckResp applies the verdict to one response. Returns the violation signature ("" = fine) and a description.
func c24CheckResp(cio *c24IO, f *c24File, method, ae string, v c24Verdict, imsLabel string, res c24Resp) (sig, what string) {
	n := f.N
	if res.Err != "" {
		cls := res.Err
		if i := strings.IndexByte(cls, ':'); i > 0 {
			cls = cls[:i]
		}
		return "response-not-well-framed:" + strings.ReplaceAll(cls, " ", "-") + ":" + v.Shape, res.Err
	}
	if method == "HEAD" && len(res.Body) != 0 {
		return "head-has-body:status=" + strconv.Itoa(res.Status), fmt.Sprintf("HEAD response carries %d body bytes", len(res.Body))
	}
	if res.Status == 304 && v.Kind != "304" {
		return "304-although-file-newer-or-no-valid-date:ims=" + imsLabel, "304 without a valid If-Modified-Since at or after the modification time"
	}
	cl := res.H.Get("Content-Length")
	cr := res.H.Get("Content-Range")
	ce := res.H.Get("Content-Encoding")
	check200 := func() (string, string) {
		if ce != "" && !strings.Contains(strings.ToLower(ae), ce) {
			return "200-content-encoding-not-accepted:" + ce, fmt.Sprintf("Content-Encoding %q with Accept-Encoding %q", ce, ae)
		}
		if cr != "" {
			return "200-with-content-range", "200 response carries Content-Range " + cr
		}
		if method == "HEAD" {
			if ce == "" && cl != strconv.Itoa(n) {
				return "200-head-content-length-wrong", fmt.Sprintf("HEAD Content-Length %q for a %d-byte file", cl, n)
			}
			return "", ""
		}
		if cl != strconv.Itoa(len(res.Body)) {
			return "200-content-length-wrong", fmt.Sprintf("Content-Length %q, body %d bytes", cl, len(res.Body))
		}
		dec, err := c24Decode(cio, ce, res.Body)
		if err != nil {
			return "200-body-does-not-decode:" + ce, err.Error()
		}
		if !bytes.Equal(dec, f.data) {
			return "200-body-differs-from-file:ce=" + ce, fmt.Sprintf("decoded body has %d bytes, file %d", len(dec), n)
		}
		return "", ""
	}
	check206 := func(s, e int, label string) (string, string) {
		if ce != "" {
			return "206-with-content-encoding:" + ce, "partial response declares a content coding"
		}
		if cl != strconv.Itoa(e-s+1) {
			return "206-content-length-wrong:" + label, fmt.Sprintf("Content-Length %q for range %d-%d", cl, s, e)
		}
		if method == "GET" && !bytes.Equal(res.Body, f.data[s:e+1]) {
			return "206-wrong-bytes:" + label, fmt.Sprintf("body (%d bytes) is not file[%d:%d]", len(res.Body), s, e+1)
		}
		return "", ""
	}
	switch v.Kind {
	case "304":
		if res.Status != 304 {
			return fmt.Sprintf("not-newer-than-ims-got-%d:ims=%s", res.Status, imsLabel), "file not newer than If-Modified-Since (to the second) but no 304"
		}
	case "200":
		if res.Status != 200 {
			return fmt.Sprintf("plain-request-got-%d", res.Status), "request without Range must be answered 200"
		}
		return check200()
	case "206":
		if res.Status != 206 {
			return fmt.Sprintf("satisfiable-range-got-%d:%s", res.Status, v.Shape), fmt.Sprintf("want 206 bytes %d-%d/%d", v.S, v.E, n)
		}
		if want := fmt.Sprintf("bytes %d-%d/%d", v.S, v.E, n); cr != want {
			return "206-content-range-wrong:" + v.Shape, fmt.Sprintf("Content-Range %q, want %q", cr, want)
		}
		return check206(v.S, v.E, v.Shape)
	case "416":
		if res.Status != 416 {
			return fmt.Sprintf("unsatisfiable-range-got-%d:%s", res.Status, v.Shape), fmt.Sprintf("want 416; got %d Content-Range=%q Content-Length=%q", res.Status, cr, cl)
		}
	case "relaxed":
		switch res.Status {
		case 416:
		case 200:
			return check200()
		case 206:
			s, e, ok := c24ParseContentRange(cr, n)
			if !ok {
				return "206-invalid-content-range:" + v.Shape, fmt.Sprintf("Content-Range %q for a %d-byte file", cr, n)
			}
			return check206(s, e, v.Shape)
		default:
			return fmt.Sprintf("malformed-or-multi-range-got-%d:%s", res.Status, v.Shape), "want 200-full or 416"
		}
	}
	return "", ""
}

var c24CmpHeaders = []string{"Content-Length", "Content-Range", "Content-Type", "Last-Modified", "Content-Encoding", "Accept-Ranges"}

func c24RunCase(r *vrt.R, cio *c24IO, h RequestHandler, ctx *RequestCtx, variant string, f *c24File, rng string, ae string, ims c24IMS, cnt *c24Counts, cross bool) {
	v := c24Eval(rng, ims.Value, f.N)
	var get c24Resp
	for _, method := range []string{"GET", "HEAD"} {
		if cross {
			c24CrossCheck(r, f.data, method, rng, ims.Value, v)
			cnt.crossChecks++
		}
		res := c24Do(cio, h, ctx, method, "/"+f.name, rng, ae, ims.Value)
		art := c24Case{Mode: "handler", Variant: variant, Kind: f.Kind, N: f.N, Method: method, Range: strconv.QuoteToASCII(rng), AE: ae, IMS: ims.Label}
		if sig, what := c24CheckResp(cio, f, method, ae, v, ims.Label, res); sig != "" {
			r.Violation(sig, fmt.Sprintf("%s %s size=%d Range=%q Accept-Encoding=%q If-Modified-Since=%s [%s]: status %d: %s",
				method, f.name, f.N, rng, ae, ims.Label, variant, res.Status, what), art)
		}
		switch res.Status {
		case 200:
			cnt.st200++
		case 206:
			cnt.st206++
		case 304:
			cnt.st304++
		case 416:
			cnt.st416++
		default:
			cnt.stOther++
		}
		if res.H.Get("Content-Encoding") != "" {
			cnt.enc++
		}
		if method == "GET" {
			get = res
			continue
		}
		// HEAD carries the same headers as GET
		cnt.headPairs++
		if get.Err == "" && res.Err == "" {
			if get.Status != res.Status {
				r.Violation(fmt.Sprintf("head-get-status-differs:get=%d,head=%d", get.Status, res.Status),
					fmt.Sprintf("%s Range=%q AE=%q IMS=%s [%s]", f.name, rng, ae, ims.Label, variant), art)
			} else {
				for _, k := range c24CmpHeaders {
					if g, hd := get.H.Get(k), res.H.Get(k); g != hd {
						r.Violation(fmt.Sprintf("head-get-header-differs:%s:status=%d", k, get.Status),
							fmt.Sprintf("%s Range=%q AE=%q IMS=%s [%s]: GET %s=%q, HEAD %s=%q", f.name, rng, ae, ims.Label, variant, k, g, k, hd), art)
					}
				}
			}
		}
	}
	switch v.Kind {
	case "206":
		cnt.strict206++
	case "416":
		cnt.strict416++
	case "304":
		cnt.v304++
	case "relaxed":
		cnt.relaxed++
	}
	if v.Kind != "200" || ae != "" {
		r.Nontrivial(fmt.Sprintf("%s|%d|%s|%s|%s|%s", f.Kind, f.N, rng, ae, ims.Label, v.Kind))
	}
}

func (c *c24Counts) flush(r *vrt.R) {
	r.Add("responses_200", c.st200)
	r.Add("responses_206", c.st206)
	r.Add("responses_304", c.st304)
	r.Add("responses_416", c.st416)
	r.Add("responses_other_status", c.stOther)
	r.Add("responses_with_content_encoding", c.enc)
	r.Add("cases_reference_206", c.strict206)
	r.Add("cases_reference_416", c.strict416)
	r.Add("cases_reference_304", c.v304)
	r.Add("cases_reference_relaxed", c.relaxed)
	r.Add("head_get_pairs_compared", c.headPairs)
	r.Add("servecontent_cross_checks", c.crossChecks)
}

// ---------------------------------------------------------------------------------------------------------------
// request histories on one handler instance (pooled readers and cached file handles carry state between requests)

type c24Op struct {
	Name   string
	Method string
	AE     string
	rng    func(n int) string
}

func c24HistK(n int) int { return max(1, min(100, n/3)) }

var c24Ops = []c24Op{
	{"get", "GET", "", func(int) string { return "" }},
	{"head", "HEAD", "", func(int) string { return "" }},
	{"get-gzip", "GET", "gzip", func(int) string { return "" }},
	{"range-start", "GET", "", func(n int) string { return fmt.Sprintf("bytes=0-%d", c24HistK(n)-1) }},
	{"range-middle", "GET", "", func(n int) string { m := n / 2; return fmt.Sprintf("bytes=%d-%d", m, min(m+c24HistK(n)-1, n-1)) }},
	{"range-suffix", "GET", "", func(n int) string { return fmt.Sprintf("bytes=-%d", c24HistK(n)) }},
	{"range-unsatisfiable", "GET", "", func(n int) string { return fmt.Sprintf("bytes=%d-", n) }},
}

type c24HistCase struct {
	Mode    string   `json:"mode"` // "history"
	Variant string   `json:"variant"`
	Kind    string   `json:"kind"`
	N       int      `json:"n"`
	Ops     []string `json:"ops"`
}

// c24RunHistory issues the ops one after another on a fresh handler instance; every response is judged by the same
// oracle as the independent requests and read completely.
func c24RunHistory(r *vrt.R, cio *c24IO, dir string, vr c24Variant, f *c24File, ops []int, cnt *c24Counts) {
	stop := make(chan struct{})
	defer close(stop)
	h := c24NewHandler(dir, vr, stop)
	var ctx RequestCtx
	ctx.Init(&Request{}, nil, c24NopLogger{})
	prev := "first"
	for i, oi := range ops {
		op := c24Ops[oi]
		rng := op.rng(f.N)
		v := c24Eval(rng, "", f.N)
		res := c24Do(cio, h, &ctx, op.Method, "/"+f.name, rng, op.AE, "")
		if sig, what := c24CheckResp(cio, f, op.Method, op.AE, v, "absent", res); sig != "" {
			names := make([]string, 0, i+1)
			for _, x := range ops[:i+1] {
				names = append(names, c24Ops[x].Name)
			}
			r.Violation("history:"+sig+":op="+op.Name+":after="+prev,
				fmt.Sprintf("request %d of the history %v on one handler [%s], file %s size=%d: %s Range=%q Accept-Encoding=%q: status %d: %s",
					i+1, names, vr.Name, f.name, f.N, op.Method, rng, op.AE, res.Status, what),
				c24HistCase{Mode: "history", Variant: vr.Name, Kind: f.Kind, N: f.N, Ops: names})
		}
		switch res.Status {
		case 200:
			cnt.st200++
		case 206:
			cnt.st206++
		case 416:
			cnt.st416++
		default:
			cnt.stOther++
		}
		prev = op.Name
	}
}

// ---------------------------------------------------------------------------------------------------------------
// ParseByteRange alone

func c24ParseCase(r *vrt.R, s []byte, cl int) (accepted bool) {
	start, end, err := ParseByteRange(s, cl)
	v := c24EvalRange(string(s), cl)
	art := func() c24Case { return c24Case{Mode: "parse", N: cl, Range: vrt.Q(s)} }
	if err == nil {
		if !(0 <= start && start <= end && end < cl) {
			sig := "parse-accepts:"
			switch {
			case v.Shape == "suffix:k=0":
				sig += "zero-length-suffix-range"
			case start < 0:
				sig += "negative-start"
			case end >= cl:
				sig += "end>=length:" + v.Shape
			default:
				sig += "start>end:" + v.Shape
			}
			r.Violation(sig, fmt.Sprintf("ParseByteRange(%q, %d) = (%d, %d, nil): violates 0 <= start <= end < length", s, cl, start, end), art())
		} else if v.Kind == "206" && (start != v.S || end != v.E) {
			r.Violation("parse-wrong-positions:"+v.Shape, fmt.Sprintf("ParseByteRange(%q, %d) = (%d, %d), RFC 9110 gives (%d, %d)", s, cl, start, end, v.S, v.E), art())
		} else if v.Kind == "416" {
			r.Violation("parse-accepts-unsatisfiable:"+v.Shape, fmt.Sprintf("ParseByteRange(%q, %d) = (%d, %d, nil) for an unsatisfiable range", s, cl, start, end), art())
		}
		return true
	}
	if v.Kind == "206" {
		r.Violation("parse-rejects-satisfiable:"+v.Shape, fmt.Sprintf("ParseByteRange(%q, %d) fails (%v); RFC 9110 gives (%d, %d)", s, cl, err, v.S, v.E), art())
	}
	return false
}

// ---------------------------------------------------------------------------------------------------------------

func c24Replay(t *testing.T, r *vrt.R, rp json.RawMessage) {
	var a c24Case
	if err := json.Unmarshal(rp, &a); err != nil {
		r.ToolError("bad replay artefact: %v", err)
	}
	if a.Mode == "history" {
		var hc c24HistCase
		if err := json.Unmarshal(rp, &hc); err != nil {
			r.ToolError("bad history artefact: %v", err)
		}
		dir := t.TempDir()
		files, err := c24MakeFiles(dir, []int{hc.N})
		if err != nil {
			r.ToolError("files: %v", err)
		}
		var ops []int
		for _, name := range hc.Ops {
			for i, op := range c24Ops {
				if op.Name == name {
					ops = append(ops, i)
				}
			}
		}
		var cnt c24Counts
		for _, vr := range c24Variants {
			for _, f := range files {
				if vr.Name == hc.Variant && f.Kind == hc.Kind {
					c24RunHistory(r, c24NewIO(), dir, vr, f, ops, &cnt)
					r.Eval(len(ops))
				}
			}
		}
		return
	}
	rng, err := strconv.Unquote(a.Range)
	if err != nil {
		r.ToolError("bad range in artefact: %v", err)
	}
	r.Eval(1)
	if a.Mode == "parse" {
		c24ParseCase(r, []byte(rng), a.N)
		return
	}
	dir := t.TempDir()
	files, err := c24MakeFiles(dir, []int{a.N})
	if err != nil {
		r.ToolError("files: %v", err)
	}
	stop := make(chan struct{})
	defer close(stop)
	var cnt c24Counts
	for _, vr := range c24Variants {
		if vr.Name != a.Variant {
			continue
		}
		h := c24NewHandler(dir, vr, stop)
		var ctx RequestCtx
		ctx.Init(&Request{}, nil, c24NopLogger{})
		for _, f := range files {
			if f.Kind != a.Kind {
				continue
			}
			for _, ims := range c24IMSValues() {
				if ims.Label == a.IMS {
					c24RunCase(r, c24NewIO(), h, &ctx, vr.Name, f, rng, a.AE, ims, &cnt, true)
				}
			}
		}
	}
}

func TestVerif_C24(t *testing.T) {
	r := vrt.Begin(t, "C24", "exploration")
	defer r.End()
	if rp := r.Replay(); rp != nil {
		c24Replay(t, r, rp)
		return
	}
	sizes := c24Sizes(r)
	c24AEs := c24AEList(r.Thorough())
	alpha := seqx.Sym("bytes=", "0", "1", "9", "-", ",", " ", "a")
	maxLen := vrt.Pick(r, 7, 8)
	r.Rule(fmt.Sprintf("(1) FS handler (AcceptByteRange, Compress+Brotli+Zstd; variants %v) on files of sizes %v (compressible text and incompressible noise, mtime with a sub-second part) "+
		"x every Range value of c24Ranges (first/last in {empty,0,1,N-1,N,N+1,10^19,...}, suffix k in {0,1,N,N+1}, leading zeros, unit/case/whitespace/malformed/multi-range forms) "+
		"x Accept-Encoding %q x If-Modified-Since {absent,mtime-1s,=mtime,mtime+1s,garbage} x {GET,HEAD}; each response is serialised by Response.Write and re-read with net/http.ReadResponse. "+
		"Oracle: RFC 9110 section 14 evaluator (c24Eval), cross-checked against net/http.ServeContent on every (size,Range,IMS,method): strict single range => 206+slice+Content-Range or 416; "+
		"relaxed forms => 200-full/416/self-consistent 206; 304 to the second; 200 bodies decode to the file; HEAD == GET headers, no body. "+
		"(1b) every history of 2..%d requests over the ops {get, head, get-gzip, range-start, range-middle, range-suffix, range-unsatisfiable} on ONE fresh handler instance and one file "+
		"(sizes >= 10 on both sides of the 8 KiB threshold, all variants), each response judged by the same oracle and fully read. "+
		"(2) ParseByteRange on every string of <=%d symbols over %q for contentLength in {0,1,10}: accepted => 0<=start<=end<length, and agreement with the evaluator on strict forms. "+
		"Non-trivial: cases with a Range/IMS/Accept-Encoding dimension active (reference verdict other than a plain 200) and ParseByteRange inputs that are accepted or strict-form.",
		func() []string {
			var s []string
			for _, v := range c24Variants {
				s = append(s, v.Name)
			}
			return s
		}(), sizes, c24AEs, vrt.Pick(r, 3, 4), maxLen, alpha))
	r.Set("accept_encodings", c24AEs)
	r.Assume("net/http.ServeContent as second reference, with two documented deviations (empty file => 200; zero-length suffix => empty 206)",
		"net/http.ReadResponse as the judge of response framing; compress/gzip, andybalholm/brotli and klauspost/compress/zstd decoders",
		"strict 206/416 verdict only for the exact forms bytes=D-D, bytes=D-, bytes=-D (DESIGN 3.7); numerals above MaxInt64, invalid int-ranges, list/whitespace/case variants and a non-zero suffix on an empty file are relaxed",
		"HEAD responses are serialised with Response.SkipBody=true, as Server.serveConn does after the handler returns")
	r.Set("file_sizes", sizes)
	r.Set("parse_max_symbols", maxLen)

	// ---- (1) handler level
	base := t.TempDir()
	stop := make(chan struct{})
	type shard struct {
		v     c24Variant
		dir   string
		f     *c24File
		first bool
	}
	var shards []shard
	for vi, v := range c24Variants {
		dir := filepath.Join(base, v.Name)
		if err := os.Mkdir(dir, 0o755); err != nil {
			r.ToolError("mkdir: %v", err)
		}
		files, err := c24MakeFiles(dir, sizes)
		if err != nil {
			r.ToolError("files: %v", err)
		}
		for _, f := range files {
			shards = append(shards, shard{v: v, dir: dir, f: f, first: vi == 0})
		}
	}
	imsVals := c24IMSValues()
	t0 := time.Now()
	r.Par(len(shards), func(i int) {
		sh := shards[i]
		h := c24NewHandler(sh.dir, sh.v, stop) // one FS instance per (variant, file)
		var ctx RequestCtx
		ctx.Init(&Request{}, nil, c24NopLogger{})
		var cnt c24Counts
		cio := c24NewIO()
		defer cio.zd.Close()
		n := 0
		for _, rng := range c24Ranges(sh.f.N, r.Thorough()) {
			for ai, ae := range c24AEs {
				for _, ims := range imsVals {
					// the reference cross-check does not depend on variant / Accept-Encoding: do it once
					c24RunCase(r, cio, h, &ctx, sh.v.Name, sh.f, rng, ae, ims, &cnt, sh.first && ai == 0)
					n += 2
				}
			}
			if r.Expired() {
				r.NotExhaustive("time budget reached in handler shard " + sh.v.Name + "/" + sh.f.name)
				break
			}
		}
		r.Eval(n)
		cnt.flush(r)
		if sh.f.N == 10 && sh.f.Kind == "text" {
			res := c24Do(cio, h, &ctx, "GET", "/"+sh.f.name, "bytes=1-3", "", "")
			r.Sample(map[string]any{"variant": sh.v.Name, "file": sh.f.name, "range": "bytes=1-3", "status": res.Status,
				"content_range": res.H.Get("Content-Range"), "body": vrt.Q(res.Body)})
		}
	})
	close(stop)
	r.Set("handler_part_wall_s", time.Since(t0).Seconds())
	// every file the handlers created must be a compressed copy next to its original
	_ = filepath.WalkDir(base, func(p string, d fs.DirEntry, err error) error {
		if err == nil && !d.IsDir() {
			r.Add("files_in_tempdir_at_end", 1)
		}
		return nil
	})

	// ---- (1b) histories of requests on one handler instance and one file
	histLen := vrt.Pick(r, 3, 4)
	var histSizes []int
	for _, n := range sizes {
		if n >= 10 { // both sides of the 8 KiB small/big threshold; tiny files have no distinct start/middle/suffix ranges
			histSizes = append(histSizes, n)
		}
	}
	r.Set("history_length", histLen)
	r.Set("history_ops", func() (o []string) {
		for _, op := range c24Ops {
			o = append(o, op.Name)
		}
		return
	}())
	r.Set("history_file_sizes", histSizes)
	type hshard struct {
		v   c24Variant
		dir string
		f   *c24File
	}
	var hshards []hshard
	for _, v := range c24Variants {
		dir := filepath.Join(base, "hist-"+v.Name)
		if err := os.Mkdir(dir, 0o755); err != nil {
			r.ToolError("mkdir: %v", err)
		}
		files, err := c24MakeFiles(dir, histSizes)
		if err != nil {
			r.ToolError("files: %v", err)
		}
		for _, f := range files {
			hshards = append(hshards, hshard{v, dir, f})
		}
	}
	t1 := time.Now()
	r.Par(len(hshards), func(i int) {
		sh := hshards[i]
		cio := c24NewIO()
		defer cio.zd.Close()
		var cnt c24Counts
		n, hn := 0, int64(0)
		seqx.Sequences(len(c24Ops), histLen, func(seq []int) bool {
			if len(seq) < 2 {
				return true // single requests are part (1)
			}
			c24RunHistory(r, cio, sh.dir, sh.v, sh.f, seq, &cnt)
			n += len(seq)
			hn++
			r.NontrivialHash(c24hash([]byte(fmt.Sprint(sh.v.Name, sh.f.name, seq)), len(seq)))
			if hn&63 == 0 && r.Expired() {
				r.NotExhaustive("time budget reached in history shard " + sh.v.Name + "/" + sh.f.name)
				return false
			}
			return true
		})
		r.Eval(n)
		r.Add("histories", hn)
		r.Add("history_requests", int64(n))
		r.Add("history_responses_200", cnt.st200)
		r.Add("history_responses_206", cnt.st206)
		r.Add("history_responses_416", cnt.st416)
		r.Add("history_responses_other_status", cnt.stOther)
	})
	r.Set("history_part_wall_s", time.Since(t1).Seconds())

	// ---- (2) ParseByteRange alone
	k := len(alpha)
	var accepted, strict [3]int64
	lens := []int{0, 1, 10}
	type pc struct{ acc, strict [3]int64 }
	res := make([]pc, k*k+k+1)
	r.Par(k*k+k+1, func(i int) {
		var pre []byte
		used := 0
		switch {
		case i == 0:
		case i <= k:
			pre = alpha[i-1]
			used = -1 // only this string
		default:
			j := i - k - 1
			pre = append(append([]byte{}, alpha[j/k]...), alpha[j%k]...)
			used = 2
		}
		n := 0
		one := func(s []byte) {
			for li, cl := range lens {
				acc := c24ParseCase(r, s, cl)
				if acc {
					res[i].acc[li]++
				}
				if v := c24EvalRange(string(s), cl); v.Kind == "206" || v.Kind == "416" {
					res[i].strict[li]++
					r.NontrivialHash(c24hash(s, cl))
				} else if acc {
					r.NontrivialHash(c24hash(s, cl))
				}
				n++
			}
		}
		if used <= 0 {
			one(pre)
			r.Eval(n)
			return
		}
		buf := make([]byte, 0, 64)
		seqx.AllStrings(alpha, maxLen-used, func(s []byte) bool {
			buf = append(append(buf[:0], pre...), s...)
			one(buf)
			if n&0xffff == 0 && r.Expired() {
				r.NotExhaustive("time budget reached in ParseByteRange shard " + strconv.Quote(string(pre)))
				return false
			}
			return true
		})
		r.Eval(n)
	})
	for _, p := range res {
		for li := range lens {
			accepted[li] += p.acc[li]
			strict[li] += p.strict[li]
		}
	}
	r.Set("parse_accepted_by_content_length_0_1_10", accepted)
	r.Set("parse_strict_form_inputs_by_content_length_0_1_10", strict)
	s, e, err := ParseByteRange([]byte("bytes=-0"), 10)
	r.Sample(map[string]any{"ParseByteRange": "bytes=-0", "contentLength": 10, "start": s, "end": e, "err": fmt.Sprint(err)})
}

func c24hash(s []byte, cl int) uint64 {
	h := uint64(14695981039346656037) ^ uint64(cl+1)*0x9E3779B97F4A7C15
	for i := 0; i < len(s); i++ {
		h ^= uint64(s[i])
		h *= 1099511628211
	}
	return h
}
