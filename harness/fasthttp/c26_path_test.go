//go:build verif

package fasthttp

import (
	"encoding/json"
	"fmt"
	"strconv"
	"strings"
	"testing"

	"github.com/valyala/fasthttp/internal/verif/refs"
	"github.com/valyala/fasthttp/internal/verif/seqx"
	"github.com/valyala/fasthttp/internal/verif/vrt"
)

// c26Class names the shape of a disagreement so that known findings pin one specific defect.
func c26Class(got, want string) string {
	switch {
	case strings.HasSuffix(got, "/.") && want == got[:len(got)-1]:
		return "trailing-dot-segment-kept"
	case !strings.HasPrefix(got, "/"):
		return "no-leading-slash"
	case strings.Contains(got, "//"):
		return "empty-segment"
	}
	for _, seg := range strings.Split(got, "/") {
		if seg == "." {
			return "dot-segment-inside"
		}
		if seg == ".." {
			return "dotdot-segment-remains"
		}
	}
	return "differs-from-remove_dot_segments"
}

func c26Check(r *vrt.R, target string) {
	// split as RFC 3986 does: the path ends at the first '?' or '#'
	rawPath := target
	if i := strings.IndexAny(rawPath, "?#"); i >= 0 {
		rawPath = rawPath[:i]
	}
	want := refs.NormalPath(rawPath)
	if w2 := refs.NormalPathClean(rawPath); w2 != want {
		r.ToolError("reference models disagree on %q: rfc=%q clean=%q", rawPath, want, w2)
	}
	if want != rawPath {
		r.NontrivialHash(c26hash(target))
	}
	report := func(via, got string) {
		if got != want {
			cl := c26Class(got, want)
			r.Violation(cl, fmt.Sprintf("%s(%q): Path()=%q, remove_dot_segments gives %q", via, target, got, want),
				map[string]string{"target": strconv.QuoteToASCII(target), "via": via})
		}
	}
	var u URI
	if err := u.Parse([]byte("h"), []byte(target)); err == nil {
		report("URI.Parse", string(u.Path()))
	}
	var u2 URI
	u2.SetPath(rawPath)
	report("URI.SetPath", string(u2.Path()))
	var ctx RequestCtx
	ctx.Request.Header.SetHost("h")
	ctx.Request.SetRequestURI(target)
	report("RequestCtx.Path", string(ctx.Path()))
}

func c26hash(s string) uint64 {
	h := uint64(14695981039346656037)
	for i := 0; i < len(s); i++ {
		h ^= uint64(s[i])
		h *= 1099511628211
	}
	return h
}

func TestVerif_C26(t *testing.T) {
	r := vrt.Begin(t, "C26", "exploration")
	defer r.End()
	if rp := r.Replay(); rp != nil {
		var a struct{ Target string }
		json.Unmarshal(rp, &a)
		s, _ := strconv.Unquote(a.Target)
		c26Check(r, s)
		return
	}
	alpha := seqx.Sym("/", ".", "a", "%2e", "%2E", "%2f", "%25", "%", "?", "#", "\x80", "..")
	maxLen := vrt.Pick(r, 6, 8)
	r.Rule(fmt.Sprintf("every request target made of at most %d symbols of %q, through URI.Parse, URI.SetPath and RequestCtx.Path; "+
		"oracle: RFC 3986 5.2.4 transcription cross-validated against a path.Clean formulation on every case; non-trivial: normalisation changes the raw path", maxLen, alpha))
	r.Assume("reference decodes each valid %XX once and leaves malformed escapes literal, as the statement's 'percent-decoding' does not define them otherwise")
	r.Set("max_symbols", maxLen)
	r.Par(len(alpha)*len(alpha)+len(alpha)+1, func(i int) {
		// shard by the first two symbols
		var pre []byte
		depthUsed := 0
		switch {
		case i == 0:
			c26Check(r, "")
			r.Eval(1)
			return
		case i <= len(alpha):
			pre = alpha[i-1]
			c26Check(r, string(pre))
			r.Eval(1)
			return
		default:
			k := i - len(alpha) - 1
			pre = append(append([]byte{}, alpha[k/len(alpha)]...), alpha[k%len(alpha)]...)
			depthUsed = 2
		}
		n := 0
		seqx.AllStrings(alpha, maxLen-depthUsed, func(s []byte) bool {
			target := string(pre) + string(s)
			c26Check(r, target)
			n++
			if n&1023 == 0 && r.Expired() {
				r.NotExhaustive("time budget reached inside shard " + strconv.Quote(string(pre)))
				return false
			}
			return true
		})
		r.Eval(n)
		if i%37 == 0 {
			r.Sample(map[string]string{"target": strconv.QuoteToASCII(string(pre) + "a/%2e/"), "want": refs.NormalPath(string(pre) + "a/%2e/")})
		}
	})
}
