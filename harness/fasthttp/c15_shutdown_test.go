//go:build verif && verif_mc

package fasthttp

import (
	"bytes"
	"context"
	"encoding/json"
	"fmt"
	"net"
	"os"
	"strconv"
	"strings"
	"testing"
	"time"

	"github.com/valyala/fasthttp/fasthttputil"
	mcctx "github.com/valyala/fasthttp/internal/verif/mcctx"
	"github.com/valyala/fasthttp/internal/verif/mcrt"
	mtime "github.com/valyala/fasthttp/internal/verif/mctime"
	"github.com/valyala/fasthttp/internal/verif/mcx"
	"github.com/valyala/fasthttp/internal/verif/vrt"
)

// C15: Shutdown is graceful. A real Server (rewritten by mcgen) serves an InmemoryListener; one or two scripted client
// connections (idle keep-alive / slow handler / pipelined pair / request arriving on an idle connection while
// Shutdown runs) race with a thread calling ShutdownWithContext. Every schedule up to the deviation bound is executed.
// The handler dimension: plain, slow (waits for Done), nap, and the two ways a response leaves through a swapped
// RequestCtx - ctx.TimeoutError (/te*) and TimeoutHandler whose inner handler is abandoned (/th*) - so that every way
// a connection becomes idle (fresh, after a normal response, after a flushed pipeline, after a timeout response served
// from a fresh ctx) is part of the histories.
//
// What the oracle asks (properties.jsonl C15, nothing more): when Shutdown returned nil -> listener closed, Serve
// returned, no handler running, every request whose handler STARTED has its complete response on the client side
// (requests whose handler never started may be dropped), idle keep-alive connections were closed (Shutdown does not
// wait for them), Done() is closed for a handler that waits for it. Nothing is asked when Shutdown returns an error.

// server side of a connection: records writes the server attempted after the connection had been closed under it
type c15srvConn struct {
	net.Conn
	o *c15obs
}

func (c *c15srvConn) Write(p []byte) (int, error) {
	n, err := c.Conn.Write(p)
	if err != nil {
		c.o.failedWrites++
	}
	return n, err
}

func (c *c15srvConn) Close() error {
	if mcrt.CurrentID() == 0 { // the main thread is the Shutdown caller: this is closeIdleConns
		c.o.closedByShutdown++
	}
	return c.Conn.Close()
}

type c15listener struct {
	net.Listener
	o *c15obs
}

func (l *c15listener) Accept() (net.Conn, error) {
	c, err := l.Listener.Accept()
	if err != nil {
		return nil, err
	}
	return &c15srvConn{Conn: c, o: l.o}, nil
}

type c15nopLogger struct{}

func (c15nopLogger) Printf(string, ...any) {}

// one step of a client script
type c15step struct {
	op    byte     // 'w' write the requests for paths in one Write; 'r' read until n responses are complete (or EOF); 's' wait until Shutdown has been called; 'e' read until EOF
	paths []string // 'w'
	n     int      // 'r': total number of complete responses to wait for
}

type c15conn struct {
	buf      []byte // everything received
	eof      bool
	readErr  string
	writeErr []string
	dialErr  string
	done     bool
	opened   bool // the opening steps of the script are done
	sent     []string
	atEOF    bool // the client has nothing more to send: it only waits for the server to close the connection
}

type c15obs struct {
	conns            []*c15conn
	started          []string // request paths whose handler started, in order
	startedLate      []string // ... of which after Shutdown was called
	running          int
	waitingDone      int
	abandoned        int // inner handlers of TimeoutHandler that are (still) running; the property exempts them once abandoned
	abandonedAtRet   int
	shutdownCalled   bool
	shutdownReturned bool
	shutdownErr      error
	runningAtReturn  int
	idleAtReturn     []int // c15idleConns at the moment Shutdown returned
	busyAtReturn     int
	serveAtReturn    bool
	serveReturned    bool
	serveErr         error
	dialAfterOK      bool
	clientsDone      int
	failedWrites     int // server-side writes that failed (connection already closed)
	closedByShutdown int // server-side connections closed by the Shutdown caller (closeIdleConns)
	calledAt         time.Duration // virtual time at which Shutdown was called
	blockedUntil     time.Duration // latest virtual time at which the Shutdown caller was found blocked inside the call
	notes            []string
	log              []string
}

func (o *c15obs) ev(f string, a ...any) {
	o.log = append(o.log, fmt.Sprintf("%v T%d ", mtime.Now().Sub(mcrt.Base), mcrt.CurrentID())+fmt.Sprintf(f, a...))
}

type c15scn struct {
	name       string
	perIP      int
	ctxTimeout time.Duration // 0: context.Background()
	scripts    [][]c15step
	trigger    string // shutdown starts when: "started:<path>" handler of path has started; "resp:<conn>:<n>" conn has n complete responses
	closeOnSD  bool
	idleTO     time.Duration
	size       byte // 0/'S': bound 1 quick, 2 thorough; 'M': 1, 1; 'L' (two connections): 0 quick, 1 thorough; 'Z' (two connections): 0, 0
	twoCycles  bool // the Server has been through a complete Serve/Shutdown cycle before the scenario proper
	wcap0      bool // unbuffered worker hand-off channel (what a GOMAXPROCS=1 process uses)
}

// c15responses splits buf into complete responses (status, body); rest = trailing incomplete bytes.
func c15responses(buf []byte) (out [][2]string, rest []byte) {
	for {
		i := bytes.Index(buf, []byte("\r\n\r\n"))
		if i < 0 {
			return out, buf
		}
		head := string(buf[:i])
		cl := 0
		for _, l := range strings.Split(head, "\r\n")[1:] {
			if k := strings.IndexByte(l, ':'); k > 0 && strings.EqualFold(l[:k], "Content-Length") {
				cl, _ = strconv.Atoi(strings.TrimSpace(l[k+1:]))
			}
		}
		if len(buf) < i+4+cl {
			return out, buf
		}
		st := ""
		if f := strings.Fields(head); len(f) > 1 {
			st = f[1]
		}
		out = append(out, [2]string{st, string(buf[i+4 : i+4+cl])})
		buf = buf[i+4+cl:]
	}
}

const c15timeoutMsg = "too slow"

// c15wantOK: is (status, body) a response the client may see for a request path? A TimeoutHandler request is answered
// with 408 or - when the wrapper thread is scheduled so late that the inner handler finishes before the timeout is armed,
// which is scheduling slack - by the inner handler itself.
func c15wantOK(p, st, body string) (bool, string) {
	switch {
	case strings.HasPrefix(p, "/te"):
		return st == "408" && body == c15timeoutMsg, "408 " + strconv.Quote(c15timeoutMsg)
	case strings.HasPrefix(p, "/th"):
		return st == "408" && body == c15timeoutMsg || st == "200" && body == "late:"+p, "408 " + strconv.Quote(c15timeoutMsg) + " (or 200 \"late:" + p + "\" if the inner handler won)"
	}
	return st == "200" && body == "ok:"+p, "200 " + strconv.Quote("ok:"+p)
}

// c15idleConns: connections that are idle keep-alive connections from the client's point of view - still open, at
// least one request sent, every request sent has its complete response, and the client will not send anything more
// (it only waits for the server to close). busy = connections that are open and not (yet) in that state.
func c15idleConns(o *c15obs) (idle []int, busy int) {
	for ci, cc := range o.conns {
		// (not cc.done: the deferred function that sets it also runs when a stuck execution is torn down)
		if cc.eof || cc.dialErr != "" {
			continue
		}
		rs, rest := c15responses(cc.buf)
		if cc.atEOF && len(cc.sent) > 0 && len(rs) == len(cc.sent) && len(rest) == 0 {
			idle = append(idle, ci)
		} else {
			busy++
		}
	}
	return idle, busy
}

func c15has(l []string, s string) bool {
	for _, x := range l {
		if x == s {
			return true
		}
	}
	return false
}

func c15body(sc c15scn) func() {
	return func() {
		// workerChanCap is initialised from GOMAXPROCS at package init (0 in mcx worker processes, 1 under --replay): pin it
		workerChanCap = 1
		if sc.wcap0 {
			workerChanCap = 0
		}
		// Responses served from a swapped RequestCtx (TimeoutError/TimeoutHandler) carry a Date header (NoDefaultDate is
		// only applied to the connection's first ctx), and the first Date header starts the process-wide once-a-second
		// date refresher goroutine. That goroutine has nothing to do with Shutdown and its ever-pending 1s timer multiplies
		// the timer-first alternatives: consume the Once with a single refresh instead.
		serverDateOnce.Do(refreshServerDate)
		o := &c15obs{}
		mcrt.SetUserData(o)
		for range sc.scripts {
			o.conns = append(o.conns, &c15conn{})
		}
		s := &Server{
			NoDefaultDate: true, NoDefaultServerHeader: true, Logger: c15nopLogger{}, Concurrency: 8,
			MaxConnsPerIP: sc.perIP, CloseOnShutdown: sc.closeOnSD, IdleTimeout: sc.idleTO,
		}
		th := TimeoutHandler(func(ctx *RequestCtx) {
			p := string(ctx.Path())
			o.abandoned++
			o.ev("inner handler start %s", p)
			mtime.Sleep(300 * time.Millisecond)
			ctx.SetBodyString("late:" + p) // reaches the client only if the timeout has not fired by now
			o.abandoned--
			o.ev("inner handler end %s", p)
		}, 50*time.Millisecond, c15timeoutMsg)
		s.Handler = func(ctx *RequestCtx) {
			p := string(ctx.Path())
			if strings.HasPrefix(p, "/c1") { // first Serve/Shutdown cycle of a re-used Server: not what the oracle judges
				ctx.SetBodyString("ok:" + p)
				return
			}
			o.started = append(o.started, p)
			o.ev("handler start %s", p)
			if o.shutdownCalled {
				o.startedLate = append(o.startedLate, p)
				mcrt.Covered("handler-started-during-shutdown")
			}
			o.running++
			switch {
			case strings.HasPrefix(p, "/slow"):
				// a handler that finishes its work only when it is told the server shuts down, and then needs some time
				o.waitingDone++
				mcrt.Recv(ctx.Done())
				o.waitingDone--
				mcrt.Covered("done-observed-by-running-handler")
				if !o.shutdownCalled {
					o.notes = append(o.notes, "Done() closed although Shutdown was not called")
				}
				mtime.Sleep(150 * time.Millisecond)
			case strings.HasPrefix(p, "/nap"):
				mtime.Sleep(50 * time.Millisecond)
			case strings.HasPrefix(p, "/te"):
				// the response leaves through ctx.TimeoutError: the serve loop answers from (and goes on with) a fresh RequestCtx
				ctx.TimeoutError(c15timeoutMsg)
				mcrt.Covered("response-through-timeout-error")
				o.running--
				o.ev("handler end %s (TimeoutError)", p)
				return
			case strings.HasPrefix(p, "/th"):
				// TimeoutHandler(50ms) around an inner handler that needs 300ms: the wrapper answers 408 and abandons the inner one
				th(ctx)
				o.running--
				o.ev("handler end %s (TimeoutHandler)", p)
				return
			}
			ctx.SetBodyString("ok:" + p)
			o.running--
			o.ev("handler end %s", p)
		}
		timers0 := 0
		if sc.twoCycles {
			// cycle 1 on the same Server: Serve, one request, the connection left idle, a Shutdown that completes. Driven
			// sequentially by the main thread; only what it leaves behind in the Server matters for cycle 2.
			ln1 := fasthttputil.NewInmemoryListener()
			serve1 := false
			mcrt.GoNamed("serve-cycle1", func() {
				s.Serve(&c15listener{Listener: ln1, o: o}) //nolint:errcheck
				serve1 = true
			})
			mcrt.WaitUntil("serve1-ready", func() bool { return len(s.ln) > 0 && mcrt.PendingTimers() > 0 })
			c1, err := ln1.Dial()
			if err != nil {
				o.notes = append(o.notes, "cycle 1: dial: "+err.Error())
				return
			}
			c1.Write([]byte("GET /c1 HTTP/1.1\r\nHost: x\r\n\r\n")) //nolint:errcheck
			var got []byte
			tmp := make([]byte, 256)
			for {
				if r, _ := c15responses(got); len(r) >= 1 {
					break
				}
				n, err := c1.Read(tmp)
				got = append(got, tmp[:n]...)
				if err != nil {
					break
				}
			}
			if r, _ := c15responses(got); len(r) != 1 || r[0][1] != "ok:/c1" {
				o.notes = append(o.notes, fmt.Sprintf("cycle 1: response %q", got))
				return
			}
			if err := s.Shutdown(); err != nil {
				o.notes = append(o.notes, "cycle 1: Shutdown: "+err.Error())
				return
			}
			mcrt.WaitUntil("serve1-returned", func() bool { return serve1 })
			c1.Close()
			o.closedByShutdown, o.failedWrites = 0, 0
			o.log = nil
			mtime.Sleep(11 * time.Second) // the stopped pool's cleaner wakes up (10s) and exits
			timers0 = mcrt.PendingTimers()
			mcrt.Covered("second-serve-shutdown-cycle-on-same-server")
		}
		ln := fasthttputil.NewInmemoryListener()
		mcrt.GoNamed("serve", func() {
			o.serveErr = s.Serve(&c15listener{Listener: ln, o: o})
			o.serveReturned = true
			o.ev("serve returned")
		})
		// set-up is sequential (it is not what the property quantifies over, and free choices at blocking points multiply):
		// the first client dials once Serve has registered the listener and the worker pool's cleaner has gone to sleep;
		// client i+1 starts when client i has finished its opening steps (everything before its 'e' / 's' step)
		mcrt.WaitUntil("serve-ready", func() bool { return len(s.ln) > 0 && mcrt.PendingTimers() > timers0 })
		for ci := range sc.scripts {
			ci := ci
			if ci > 0 {
				mcrt.WaitUntil("prev-client-opened", func() bool { return o.conns[ci-1].opened })
			}
			mcrt.GoNamed(fmt.Sprint("client", ci), func() {
				cc := o.conns[ci]
				defer func() { cc.done = true; o.clientsDone++ }()
				// distinct TCP source addresses so that MaxConnsPerIP wraps the connections (a pipe address is not counted)
				c, err := ln.DialWithLocalAddr(&net.TCPAddr{IP: net.IPv4(10, 0, 0, byte(1+ci)), Port: 4000 + ci})
				if err != nil {
					cc.dialErr = err.Error()
					cc.opened = true
					return
				}
				rd := func(stop func() bool) {
					tmp := make([]byte, 512)
					for !stop() && !cc.eof {
						n, err := c.Read(tmp)
						cc.buf = append(cc.buf, tmp[:n]...)
						if err != nil {
							cc.eof = true
							cc.readErr = err.Error()
							o.ev("client%d connection closed: %v", ci, err)
							if rs, rest := c15responses(cc.buf); o.shutdownCalled && len(rs) > 0 && len(rs) == len(cc.sent) && len(rest) == 0 {
								mcrt.Covered("idle-conn-closed-by-shutdown")
							}
						}
					}
				}
				for _, st := range sc.scripts[ci] {
					switch st.op {
					case 'w':
						var b []byte
						for _, p := range st.paths {
							b = append(b, "GET "+p+" HTTP/1.1\r\nHost: x\r\n\r\n"...)
						}
						_, err := c.Write(b)
						o.ev("client%d wrote %v err=%v", ci, st.paths, err)
						if err != nil {
							cc.writeErr = append(cc.writeErr, err.Error())
						} else {
							cc.sent = append(cc.sent, st.paths...)
						}
					case 'r':
						rd(func() bool { r, _ := c15responses(cc.buf); return len(r) >= st.n })
					case 's':
						cc.opened = true
						mcrt.WaitUntil("shutdown-called", func() bool { return o.shutdownCalled })
					case 'e':
						cc.opened = true
						cc.atEOF = true
						rd(func() bool { return false })
					}
				}
				c.Close()
			})
		}
		trig := func() bool {
			f := strings.Split(sc.trigger, ":")
			switch f[0] {
			case "started":
				return c15has(o.started, f[1])
			case "opened":
				ci, _ := strconv.Atoi(f[1])
				return o.conns[ci].opened
			case "resp":
				ci, _ := strconv.Atoi(f[1])
				n, _ := strconv.Atoi(f[2])
				r, _ := c15responses(o.conns[ci].buf)
				return len(r) >= n
			}
			return true
		}
		// the main thread is the Shutdown caller
		mcrt.WaitUntil("shutdown-trigger", trig)
		ctx := context.Background()
		if sc.ctxTimeout > 0 {
			c2, cancel := mcctx.WithTimeout(ctx, sc.ctxTimeout)
			defer cancel()
			ctx = c2
		}
		if o.running > 0 {
			mcrt.Covered("shutdown-while-handler-running")
		}
		o.shutdownCalled = true
		o.calledAt = mtime.Now().Sub(mcrt.Base)
		o.ev("shutdown called")
		err := s.ShutdownWithContext(ctx)
		o.shutdownErr = err
		o.blockedUntil = mcrt.BlockedUntil()
		o.ev("shutdown returned %v", err)
		o.runningAtReturn = o.running
		o.abandonedAtRet = o.abandoned
		o.idleAtReturn, o.busyAtReturn = c15idleConns(o)
		if o.abandoned > 0 && err == nil {
			mcrt.Covered("shutdown-returned-while-abandoned-inner-handler-running")
		}
		o.serveAtReturn = o.serveReturned
		o.shutdownReturned = true
		if o.shutdownErr != nil {
			mcrt.Covered("shutdown-returned-ctx-error")
			return // nothing is promised; remaining threads are unwound
		}
		if c, err := ln.Dial(); err == nil {
			o.dialAfterOK = true
			c.Close()
		}
		mcrt.WaitUntil("clients-done", func() bool { return o.clientsDone == len(sc.scripts) })
		mcrt.WaitUntil("abandoned-handlers-done", func() bool { return o.abandoned == 0 })
	}
}

func c15check(sc c15scn) func(x *mcrt.Exec) (string, string, string) {
	// role of a request path in the scenario (for signatures)
	role := func(p string) string {
		for _, scr := range sc.scripts {
			afterS := false
			for _, st := range scr {
				if st.op == 's' {
					afterS = true
				}
				if st.op == 'w' {
					for i, q := range st.paths {
						if q != p {
							continue
						}
						switch {
						case afterS:
							return "request-sent-on-idle-conn-during-shutdown"
						case len(st.paths) > 1:
							return fmt.Sprintf("pipelined-request-%d-of-%d", i+1, len(st.paths))
						case strings.HasPrefix(p, "/slow"):
							return "slow-handler-request"
						case strings.HasPrefix(p, "/te"):
							return "request-answered-through-timeout-error"
						case strings.HasPrefix(p, "/th"):
							return "request-answered-by-timeouthandler"
						}
						return "plain-request"
					}
				}
			}
		}
		return "unknown-request"
	}
	// how the idle connections got idle: the role of the last request answered on each of them
	idleHow := func(o *c15obs, idle []int) string {
		var l []string
		for _, ci := range idle {
			cc := o.conns[ci]
			h := "last-answered=" + role(cc.sent[len(cc.sent)-1])
			if !c15has(l, h) {
				l = append(l, h)
			}
		}
		return strings.Join(l, ",")
	}
	return func(x *mcrt.Exec) (string, string, string) {
		o, _ := x.UserData.(*c15obs)
		if o == nil {
			return "", "", ""
		}
		if x.Out.Panic != "" {
			switch {
			case strings.Contains(x.Out.Panic, "nil pointer") && sc.perIP > 0:
				return "panic", "panic-nil-conn-after-peripconn-close", "a serving goroutine used its perIPConn after closeIdleConns closed it (perIPConn.Close sets the embedded Conn to nil): " + c15first(x.Out.Panic, 14)
			}
			return "", "", "" // generic panic sig
		}
		if x.Out.Fatal != "" || x.Out.Invariant != "" {
			return "", "", ""
		}
		if x.Out.Horizon || x.Out.Deadlock {
			switch {
			case o.shutdownCalled && !o.shutdownReturned && o.waitingDone > 0:
				if sc.twoCycles {
					return "stuck", "done-not-closed-during-shutdown-of-reused-server", "second Serve/Shutdown cycle on the same Server: a handler waiting on ctx.Done() was never woken although Shutdown is in progress (Done is not re-armed after the first cycle)"
				}
				return "stuck", "done-not-closed-during-shutdown", "a handler waiting on ctx.Done() was never woken although Shutdown is in progress"
			case o.shutdownCalled && !o.shutdownReturned && o.running == 0 && c15idleOnly(o):
				idle, _ := c15idleConns(o)
				return "stuck", "shutdown-never-closes-idle-conn[" + idleHow(o, idle) + "]", fmt.Sprintf("Shutdown(background ctx) keeps polling although no handler is running and the only open connection(s) %v are idle keep-alive connections (every request answered, client silent): it waits for them instead of closing them; events: %s", idle, strings.Join(o.log, " / "))
			case o.shutdownCalled && !o.shutdownReturned:
				return "stuck", "shutdown-never-returns", fmt.Sprintf("Shutdown(background ctx) keeps polling: running handlers=%d; %s", o.running, strings.Join(x.Out.Blocked, "; "))
			case o.shutdownReturned && o.shutdownErr == nil && o.clientsDone < len(sc.scripts):
				return "stuck", "conn-left-open-after-shutdown", fmt.Sprintf("Shutdown returned nil but %d client connection(s) never saw the connection closed", len(sc.scripts)-o.clientsDone)
			}
			return "", "", ""
		}
		if len(o.notes) > 0 {
			if strings.HasPrefix(o.notes[0], "cycle 1") {
				return "note", "first-serve-shutdown-cycle-failed", o.notes[0]
			}
			return "note", "done-closed-early", o.notes[0]
		}
		if o.shutdownErr != nil {
			cls := fmt.Sprintf("shutdown-err=%v started=%d", o.shutdownErr, len(o.started))
			// "idle keep-alive connections are closed rather than waited for" does not depend on the result: a Shutdown that
			// runs into its deadline (>= 1s, ten sweeps) while no handler runs and nothing but idle keep-alive connections
			// is open has waited for them. (Deviation-free executions only: a timer-first deviation is scheduling slack.)
			if x.Cost == 0 && sc.ctxTimeout >= time.Second && o.runningAtReturn == 0 && o.busyAtReturn == 0 && len(o.idleAtReturn) > 0 {
				return cls, "shutdown-deadline-hit-waiting-for-idle-conn[" + idleHow(o, o.idleAtReturn) + "]", fmt.Sprintf("ShutdownWithContext(%v) returned %v although no handler was running and the only open connection(s) %v were idle keep-alive connections: it waited for them instead of closing them; events: %s", sc.ctxTimeout, o.shutdownErr, o.idleAtReturn, strings.Join(o.log, " / "))
			}
			return cls, "", ""
		}
		cls := fmt.Sprintf("nil started=%v late=%d", o.started, len(o.startedLate))
		if !o.serveAtReturn {
			return cls, "shutdown-returned-before-serve", "Shutdown returned nil while Serve had not returned"
		}
		if o.runningAtReturn > 0 {
			return cls, "shutdown-returned-while-handler-running", fmt.Sprintf("Shutdown returned nil while %d handler(s) were still running", o.runningAtReturn)
		}
		// handlers need at most 150ms after Done() and Shutdown polls every 100ms: anything much longer means Shutdown sat
		// out a keep-alive connection (its idle timeout) instead of closing it. A connection that has not sent a request
		// yet is by design only closed 5s after it was accepted.
		limit := 500 * time.Millisecond
		if strings.Contains(sc.name, "fresh-conn") {
			limit = 6 * time.Second
		}
		// (only judged on executions without deviations: a timer-first deviation taken before Shutdown has armed its ticker
		// jumps the clock to the worker pool's 10s cleaner timer, which is scheduling slack, not waiting)
		if w := o.blockedUntil - o.calledAt; w > limit && x.Cost == 0 {
			return cls, "shutdown-waits-for-idle-conn", fmt.Sprintf("Shutdown was still blocked %v after it was called (handlers need <= 150ms): it waited for a keep-alive connection instead of closing it", w)
		}
		if o.dialAfterOK {
			return cls, "listener-open-after-shutdown", "Dial succeeded after Shutdown returned nil"
		}
		// every started request has its complete response on its connection
		got := map[string]bool{}
		for ci, cc := range o.conns {
			rs, rest := c15responses(cc.buf)
			for i, r := range rs {
				if i >= len(cc.sent) {
					return cls, "unsolicited-response", fmt.Sprintf("conn %d got %d responses for %d requests", ci, len(rs), len(cc.sent))
				}
				if ok, want := c15wantOK(cc.sent[i], r[0], r[1]); !ok {
					return cls, "wrong-response-during-shutdown", fmt.Sprintf("conn %d response %d is %q %q, want %s for %s", ci, i, r[0], r[1], want, cc.sent[i])
				}
				got[cc.sent[i]] = true
			}
			if len(rest) > 0 {
				return cls, "truncated-response-at-shutdown", fmt.Sprintf("conn %d ends with an incomplete response %q", ci, rest)
			}
			if !cc.eof && cc.dialErr == "" {
				return cls, "conn-left-open-after-shutdown", fmt.Sprintf("conn %d was not closed by the server", ci)
			}
		}
		for _, p := range o.started {
			if !got[p] {
				late := ""
				if c15has(o.startedLate, p) {
					late = " (handler started after Shutdown was called)"
				}
				sig, how := "response-lost-"+role(p), ""
				if o.closedByShutdown > 0 {
					// Shutdown closed the connection as idle although the response had not been written out yet
					sig += "-conn-closed-as-idle-by-shutdown"
					how = fmt.Sprintf(" (closeIdleConns closed the connection as idle before the response was written out; failed server-side writes: %d)", o.failedWrites)
				}
				return cls, sig, fmt.Sprintf("handler of %s started%s and Shutdown returned nil, but the client never received its response%s; started=%v; events: %s", p, late, how, o.started, strings.Join(o.log, " / "))
			}
		}
		return cls, "", ""
	}
}

// c15idleOnly: at least one idle keep-alive connection is open and no other connection is
func c15idleOnly(o *c15obs) bool {
	idle, busy := c15idleConns(o)
	return len(idle) > 0 && busy == 0
}

func c15first(s string, n int) string {
	l := strings.Split(s, "\n")
	if len(l) > n {
		l = l[:n]
	}
	return strings.Join(l, " | ")
}

func TestVerif_C15(t *testing.T) {
	r := vrt.Begin(t, "C15", "model_checking")
	defer r.End()
	r.Rule("real Server.Serve on an InmemoryListener with 1-2 scripted client connections (idle keep-alive; slow handler waiting for ctx.Done(); pipelined pair; request sent on an idle connection while Shutdown runs; requests answered through a swapped RequestCtx - ctx.TimeoutError, and TimeoutHandler(50ms) abandoning a 300ms inner handler - as the only, the last, the first of two, a pipelined or the in-flight request, so that connections idle after a timeout response are among the idle ones) and a thread calling ShutdownWithContext (background / deadline context), MaxConnsPerIP 0/1, also on a Server that already went through one complete Serve/Shutdown cycle; " +
		"all schedules, select choices and timer-first orders up to the deviation bound; oracle when Shutdown returns nil: Serve returned, no handler running, Dial fails, every request whose handler started has its complete 200 response on its connection, every connection was closed by the server (idle ones without waiting), a handler blocked on Done() is woken (an abandoned TimeoutHandler inner handler is exempt from 'no handler running'); whatever Shutdown returns: it must not keep polling for ever, nor run into a >=1s deadline (deviation-free executions), while no handler runs and only idle keep-alive connections (all requests answered, client silent) are open; non-trivial: executions with >=1 deviation")
	r.Assume("mcrt shim semantics (litmus-tested)", "sync.Pool modelled as deterministic LIFO", "the process-wide Date refresher goroutine (1s sleep loop behind serverDateOnce) is not started: the harness consumes the Once with one refreshServerDate call")
	b := vrt.Pick(r, 1, 2)
	forced := false
	if v := os.Getenv("C15_BOUND"); v != "" {
		b, _ = strconv.Atoi(v)
		forced = true
	}
	W := func(p ...string) c15step { return c15step{op: 'w', paths: p} }
	R := func(n int) c15step { return c15step{op: 'r', n: n} }
	S := c15step{op: 's'}
	E := c15step{op: 'e'}
	idle := []c15step{W("/a1"), R(1), E}
	slow := []c15step{W("/slow1"), E}
	pipe := []c15step{W("/slow1", "/b2"), E}
	late := []c15step{W("/a1"), R(1), S, W("/nap2"), E}
	fresh := []c15step{S, W("/nap1"), E} // connection accepted before Shutdown, first request sent while it runs
	// histories whose response(s) leave through a swapped RequestCtx (ctx.TimeoutError / TimeoutHandler)
	afterTE := []c15step{W("/te1"), R(1), E}
	afterTH := []c15step{W("/th1"), R(1), E}
	plainTE := []c15step{W("/a1"), R(1), W("/te2"), R(2), E}
	tePlain := []c15step{W("/te1"), R(1), W("/a2"), R(2), E}
	lateTE := []c15step{W("/te1"), R(1), S, W("/nap2"), E}
	one := func(x []c15step) [][]c15step { return [][]c15step{x} }
	var list []c15scn
	for _, perIP := range []int{0, 1} {
		pn := fmt.Sprintf("perip%d/", perIP)
		list = append(list,
			c15scn{size: 'M', name: pn + "idle/bg", perIP: perIP, scripts: one(idle), trigger: "resp:0:1"},
			c15scn{size: 'M', name: pn + "idle-idletimeout/bg", perIP: perIP, scripts: one(idle), trigger: "resp:0:1", idleTO: 30 * time.Second},
			c15scn{name: pn + "slow/bg", perIP: perIP, scripts: one(slow), trigger: "started:/slow1"},
			c15scn{name: pn + "slow/ctx100ms", perIP: perIP, scripts: one(slow), trigger: "started:/slow1", ctxTimeout: 100 * time.Millisecond},
			c15scn{name: pn + "slow/ctx1s", perIP: perIP, scripts: one(slow), trigger: "started:/slow1", ctxTimeout: time.Second},
			c15scn{name: pn + "pipelined/bg", perIP: perIP, scripts: one(pipe), trigger: "started:/slow1"},
			c15scn{size: 'M', name: pn + "late-request/bg", perIP: perIP, scripts: one(late), trigger: "resp:0:1"},
			c15scn{size: 'L', name: pn + "idle+slow/bg", perIP: perIP, scripts: [][]c15step{idle, slow}, trigger: "started:/slow1"},
			c15scn{size: 'M', name: pn + "idle-after-timeout-error/bg", perIP: perIP, scripts: one(afterTE), trigger: "resp:0:1"},
		)
	}
	list = append(list,
		c15scn{size: 'M', name: "perip0/idle-after-timeout-error/ctx1s", scripts: one(afterTE), trigger: "resp:0:1", ctxTimeout: time.Second},
		c15scn{size: 'M', name: "perip0/idle-after-plain-then-timeout-error/bg", scripts: one(plainTE), trigger: "resp:0:2"},
		c15scn{size: 'M', name: "perip0/idle-after-timeouthandler/bg", scripts: one(afterTH), trigger: "resp:0:1"},
		c15scn{size: 'M', name: "perip0/timeouthandler-waiting/bg", scripts: one([]c15step{W("/th1"), E}), trigger: "started:/th1"},
		c15scn{size: 'M', name: "perip0/pipelined-timeout-error/bg", scripts: one([]c15step{W("/te1", "/b2"), E}), trigger: "started:/te1"},
		c15scn{size: 'Z', name: "perip0/idle+idle-after-timeout-error/bg", scripts: [][]c15step{idle, {W("/te2"), R(1), E}}, trigger: "resp:1:1"},
		c15scn{size: 'M', name: "perip0/late-request-after-timeout-error/bg", scripts: one(lateTE), trigger: "resp:0:1"},
	)
	list = append(list,
		c15scn{name: "perip0/pipelined/bg/close-on-shutdown", scripts: one(pipe), trigger: "started:/slow1", closeOnSD: true},
		c15scn{size: 'M', name: "perip0/late-request/bg/wcap0", scripts: one(late), trigger: "resp:0:1", wcap0: true},
		c15scn{size: 'M', name: "perip0/fresh-conn-request-during-shutdown/bg", scripts: one(fresh), trigger: "opened:0"},
		c15scn{size: 'M', name: "perip1/late-request-idletimeout/bg", perIP: 1, scripts: one(late), trigger: "resp:0:1", idleTO: 30 * time.Second},
		c15scn{size: 'L', name: "perip0/idle+idle/bg", scripts: [][]c15step{idle, {W("/b1"), R(1), E}}, trigger: "resp:1:1"},
		c15scn{size: 'L', name: "perip1/idle+late/ctx1s", perIP: 1, scripts: [][]c15step{idle, {W("/b1"), R(1), S, W("/nap2"), E}}, trigger: "resp:1:1", ctxTimeout: time.Second},
	)
	list = append(list,
		c15scn{size: 'M', twoCycles: true, name: "second-cycle/perip0/slow/bg", scripts: one(slow), trigger: "started:/slow1"},
		c15scn{size: 'M', twoCycles: true, name: "second-cycle/perip0/pipelined/bg", scripts: one(pipe), trigger: "started:/slow1"},
		c15scn{size: 'M', twoCycles: true, name: "second-cycle/perip1/slow/ctx1s", perIP: 1, scripts: one(slow), trigger: "started:/slow1", ctxTimeout: time.Second},
	)
	if r.Thorough() {
		list = append(list,
			c15scn{size: 'M', twoCycles: true, name: "second-cycle/perip1/idle/bg", perIP: 1, scripts: one(idle), trigger: "resp:0:1"},
			c15scn{size: 'M', name: "perip0/idle-after-timeout-error-then-plain/bg", scripts: one(tePlain), trigger: "resp:0:2"},
			c15scn{size: 'M', name: "perip1/idle-after-timeouthandler/ctx1s", perIP: 1, scripts: one(afterTH), trigger: "resp:0:1", ctxTimeout: time.Second},
			c15scn{size: 'M', name: "perip1/idle-after-timeout-error-idletimeout/ctx1s", perIP: 1, scripts: one(afterTE), trigger: "resp:0:1", ctxTimeout: time.Second, idleTO: 30 * time.Second},
			c15scn{size: 'M', twoCycles: true, name: "second-cycle/perip0/idle-after-timeout-error/bg", scripts: one(afterTE), trigger: "resp:0:1"},
			c15scn{size: 'L', name: "perip0/slow+pipelined/bg", scripts: [][]c15step{{W("/slow0"), E}, {W("/slow1", "/b2"), E}}, trigger: "started:/slow1"},
			c15scn{size: 'L', name: "perip1/idle+pipelined/ctx1s", perIP: 1, scripts: [][]c15step{idle, pipe}, trigger: "started:/slow1", ctxTimeout: time.Second},
		)
	}
	var scs []mcx.Scenario
	for _, sc := range list {
		if f := os.Getenv("C15_ONLY"); f != "" && !strings.Contains(sc.name, f) {
			continue
		}
		bb := b
		switch sc.size {
		case 'M':
			bb = 1
		case 'L':
			bb = b - 1
		case 'Z':
			bb = 0
		}
		if forced {
			bb = b
		}
		r.Set("bound:"+sc.name, fmt.Sprint(bb))
		scs = append(scs, mcx.Scenario{Name: sc.name, Cfg: mcrt.Config{Bound: bb, TimerFirst: true, Horizon: 6000}, Body: c15body(sc), Check: c15check(sc)})
	}
	r.Set("preemption_bound", fmt.Sprint(b))
	if dbg := os.Getenv("C15_DEBUG"); dbg != "" {
		for _, sc := range scs {
			if sc.Name != dbg {
				continue
			}
			cfg := sc.Cfg
			var pre []int
			if f := os.Getenv("C15_CHOICES"); f != "" {
				raw, _ := os.ReadFile(f)
				var a struct {
					Artefact struct {
						Choices []int `json:"choices"`
					} `json:"artefact"`
				}
				json.Unmarshal(raw, &a)
				pre = a.Artefact.Choices
			}
			x := mcrt.RunOnce(&cfg, pre, sc.Body)
			if o, _ := x.UserData.(*c15obs); o != nil {
				t.Logf("log: %s", strings.Join(o.log, "\n   "))
			}
			t.Logf("steps=%d points=%d trace=%v", x.Out.Steps, len(x.Points), x.Trace)
			for i, p := range x.Points {
				if p.N > 1 {
					t.Logf("#%d %c N=%d costs=%v %s", i, p.Kind, p.N, p.Costs, p.Label)
				}
			}
			c, sg, w := sc.Check(x)
			t.Logf("check: %s | %s | %s | panic=%s", c, sg, w, x.Out.Panic)
		}
		r.Eval(1)
		return
	}
	mcx.Run(r, scs)
}
