//go:build verif

package fasthttp

import (
	"bufio"
	"bytes"
	"encoding/json"
	"fmt"
	"io"
	"net/http"
	"os"
	"runtime"
	"runtime/debug"
	"strconv"
	"strings"
	"sync"
	"sync/atomic"
	"testing"

	"github.com/valyala/fasthttp/internal/verif/seqx"
	"github.com/valyala/fasthttp/internal/verif/vnet"
	"github.com/valyala/fasthttp/internal/verif/vrt"
)

// ---------------------------------------------------------------------------------------------------------------
// The request grammar: every request of a pipeline is built from slot choices; index 0 of every slot is canonical.

var c01Methods = []string{"GET", "POST", "HEAD", "PUT", "get", "CONNECT"}
var c01Targets = []string{"/r%d", "http://h/r%d", "*"}
var c01Versions = []string{"HTTP/1.1", "HTTP/1.0", "HTTP/2.0", "HTTX/1.1", "HTTP/1.1x", "http/1.1", ""}

// request-line shapes
const (
	c01RLNormal = iota
	c01RLDoubleSPAfterMethod
	c01RLDoubleSPBeforeVersion
	c01RLTabs
	c01RLLeadingCRLF
	c01RLLeadingLF
	c01RLLeadingCRLF2
	c01RLTrailingSP
	c01RLLeadingSP
	c01RLCount
)

var c01Hosts = [][]string{{"Host: h"}, {}, {"Host: h", "Host: h"}, {"Host : h"}, {" Host: h"}, {"Host:h"}, {"host: h"}}

// Content-Length header line sets; "#" is replaced by the length of the body bytes actually sent.
var c01CLs = [][]string{
	{},
	{"Content-Length: 5"}, {"Content-Length: 05"}, {"Content-Length: +5"}, {"Content-Length: 5 "}, {"Content-Length: 5\t"},
	{"Content-Length:  5"}, {"Content-Length: 5,5"}, {"Content-Length: 5, 5"}, {"Content-Length: 5;"}, {"Content-Length: -1"},
	{"Content-Length: 0x5"}, {"Content-Length: ５"}, {"Content-Length: 9223372036854775807"},
	{"Content-Length: 9999999999999999999"}, {"Content-Length: 99999999999999999999"}, {"Content-Length: 0"}, {"Content-Length: "},
	{"Content-Length: #"},
	{"Content-Length: 5", "Content-Length: 5"}, {"Content-Length: 5", "Content-Length: 6"}, {"Content-Length: 6", "Content-Length: 5"},
	{"Content-Length: #", "Content-Length: 0"}, {"Content-Length: 0", "Content-Length: #"},
	{"Content-Length : 5"}, {"Content_Length: 5"}, {"content-length: 5"}, {"CONTENT-LENGTH: 5"}, {"Content-Length:", " 5"},
	{"Content-Length:5"}, {"Content-Length\t: 5"}, {" Content-Length: 5"}, {"Content-Length: 5 5"}, {"Content-Length: 5\x0b"},
}

// Transfer-Encoding header line sets.
var c01TEs = [][]string{
	{},
	{"Transfer-Encoding: chunked"}, {"Transfer-Encoding: Chunked"}, {"Transfer-Encoding: identity"}, {"Transfer-Encoding: chunked "},
	{"Transfer-Encoding: gzip"}, {"Transfer-Encoding: gzip, chunked"}, {"Transfer-Encoding: chunked, identity"},
	{"Transfer-Encoding: chunked,chunked"}, {"Transfer-Encoding: "}, {"Transfer-Encoding: \tchunked"}, {"Transfer-Encoding: xchunked"},
	{"Transfer-Encoding: , chunked"}, {"Transfer-Encoding: chunked;q=1"}, {"Transfer-Encoding: Identity"},
	{"Transfer-Encoding: chunked", "Transfer-Encoding: chunked"}, {"Transfer-Encoding: gzip", "Transfer-Encoding: chunked"},
	{"Transfer-Encoding: identity", "Transfer-Encoding: chunked"}, {"Transfer-Encoding: chunked", "Transfer-Encoding: identity"},
	{"Transfer-Encoding : chunked"}, {"Transfer_Encoding: chunked"}, {"transfer-encoding: chunked"}, {"Transfer-Encoding:", " chunked"},
	{" Transfer-Encoding: chunked"}, {"Transfer-Encoding:chunked"}, {"Transfer-Encoding: chunked\x0b"},
}

// line-ending assignments
const (
	c01LEAllCRLF = iota
	c01LEAllLF
	c01LEReqLineLF
	c01LEBlankLF
	c01LELastHeaderLF
	c01LEHeadersLF
	c01LEFirstHeaderBareCR
	c01LEFirstHeaderCRCRLF
	c01LECount
)

var c01Extras = [][]string{
	{}, {"Expect: 100-continue"}, {"X-A: b", " c"}, {"X-A b"}, {": v"},
	{"X-A: b\x00c"}, {"X A: b"}, {"X-A: Content-Length: 7"},
}

// Connection header line: value x position relative to the framing headers (Content-Length / Transfer-Encoding).
// Index 0 = absent; 1..n = before the framing headers; n+1..2n = after them (last line of the head).
var c01ConnVals = []string{"Connection: keep-alive", "Connection: close", "Connection: Keep-Alive"}

const c01Embedded = "GET /smug HTTP/1.1\r\nHost: h\r\n\r\n"

// Body bytes. Index 0 ("auto") = the well-formed body for the request's own framing headers.
var c01Bodies = append(append(c01BodiesBase, c01ExtBreakBodies()...), c01HugeSizeBodies()...)

// c01HugeSizeBodies: chunk sizes of 15, 16 and 17 hex digits with the top bit clear and set (7ff..f, 800..0, ff..fe,
// ff..ff), the 15- and 16-digit ones also with one or two leading zeros, placed on the first chunk and on a later
// chunk that follows a chunk whose data ends in CRLF; then the last-chunk (and the canary of the pipeline).
func c01HugeSizeBodies() []string {
	var sizes []string
	pat := func(n int) []string {
		return []string{"7" + strings.Repeat("f", n-1), "8" + strings.Repeat("0", n-1), strings.Repeat("f", n-1) + "e", strings.Repeat("f", n)}
	}
	for _, n := range []int{15, 16, 17} {
		sizes = append(sizes, pat(n)...)
	}
	for _, p := range pat(15) {
		sizes = append(sizes, "0"+p, "00"+p)
	}
	for _, p := range pat(16) {
		sizes = append(sizes, "0"+p)
	}
	var out []string
	for _, sz := range sizes {
		out = append(out, sz+"\r\n0\r\n\r\n", "5\r\nhel\r\n\r\n"+sz+"\r\n0\r\n\r\n")
	}
	return out
}

// c01ExtBreakBodies: a three-chunk body ("hel", "lo", last chunk) in which one chunk-size line carries an extension of
// the form ;x / ;x=y / ;x="q" with a line break {bare LF, bare CR, CRLF} inside the extension name, value or quoted
// string, on the first, a later, or the last (0) chunk.
func c01ExtBreakBodies() []string {
	var out []string
	for _, brk := range []string{"\n", "\r", "\r\n"} {
		for _, ext := range []string{";x" + brk + "z", ";x" + brk + "z=y", ";x=y" + brk + "y", ";x" + brk + "z=\"q\"", ";x=\"q" + brk + "q\""} {
			for pos := 0; pos < 3; pos++ {
				e := [3]string{}
				e[pos] = ext
				out = append(out, "3"+e[0]+"\r\nhel\r\n2"+e[1]+"\r\nlo\r\n0"+e[2]+"\r\n\r\n")
			}
		}
	}
	return out
}

var c01BodiesBase = []string{
	"\x00auto",
	"", "hello", "hel", "helloXYZ", c01Embedded, "0\r\n\r\n" + c01Embedded, "1f\r\n" + c01Embedded + "\r\n0\r\n\r\n",
	"5\r\nhello\r\n0\r\n\r\n",
	"A\r\n0123456789\r\n0\r\n\r\n", "a\r\n0123456789\r\n0\r\n\r\n", "005\r\nhello\r\n0\r\n\r\n", "0x5\r\nhello\r\n0\r\n\r\n",
	"00000000000000005\r\nhello\r\n0\r\n\r\n", "0000000000000005\r\nhello\r\n0\r\n\r\n",
	"5;x=y\r\nhello\r\n0\r\n\r\n", "5;x=\"q;\"\r\nhello\r\n0\r\n\r\n", "5 ;x=y\r\nhello\r\n0\r\n\r\n", "5; x=y\r\nhello\r\n0\r\n\r\n",
	"5 \r\nhello\r\n0\r\n\r\n", "5;\r\nhello\r\n0\r\n\r\n", "5;x=\"q\r\nhello\r\n0\r\n\r\n", "5;x=y;\x01\r\nhello\r\n0\r\n\r\n",
	"5\nhello\r\n0\r\n\r\n", "5\r\nhello\n0\r\n\r\n", "5\r\nhello0\r\n\r\n", "5\r\nhelloXX0\r\n\r\n", "5\r\nhello\r\n00\r\n\r\n",
	"5\r\nhello\r\n0;x\r\n\r\n", "5\r\nhello\r\n0\r\nX-T: v\r\n\r\n", "5\r\nhello\r\n0\r\nContent-Length: 3\r\n\r\n",
	"5\r\nhello\r\n0\r\nnocolon\r\n\r\n", "5\r\nhello\r\n0\r\n", "5\r\nhello\r\n0\r\n\n", "5\r\nhello\r\n0\n\n", "5\r\nhello\r\n0\n\r\n",
	"5\r\nhello\r\n0\r\nX-T: v\n\r\n", "5\r\nhello\r\n0\r\nX-T: v\n\n", "\r\nhello\r\n0\r\n\r\n", "-5\r\nhello\r\n0\r\n\r\n", "+5\r\nhello\r\n0\r\n\r\n",
	"2\r\nhe\r\n3\r\nllo\r\n0\r\n\r\n", "ffffffffffffffff\r\nhello\r\n0\r\n\r\n", "7fffffffffffffff\r\nhello\r\n0\r\n\r\n",
	"8000000000000000\r\nhello\r\n0\r\n\r\n", "5\r\nhel", "5\rhello\r\n0\r\n\r\n", "5\r\nhello\r0\r\n\r\n", "5\r\nhello\r\n0\r\n\r\n\r\n",
	"0\r\n\r\n", "5\r\nhello\r\n 0\r\n\r\n", "5\thello\r\n0\r\n\r\n",
	"\x00mp0", "\x00mp10", "\x00mp5000",
}

const c01Canary = "GET /cn HTTP/1.1\r\nHost: h\r\n\r\n"

// slots of one request, in this order
var c01Dims = []int{len(c01Methods), len(c01Targets), len(c01Versions), c01RLCount, len(c01Hosts), len(c01CLs), 2 * len(c01TEs), c01LECount, len(c01Extras), len(c01Bodies), 1 + 2*len(c01ConnVals)}

const c01NSlots = 11

func c01Multipart(epilogue int) string {
	return "--b\r\nContent-Disposition: form-data; name=\"f\"\r\n\r\nv\r\n--b--\r\n" + strings.Repeat("e", epilogue)
}

// c01BuildRequest renders one request; ok=false when the choice vector is a duplicate of another one (skipped).
func c01BuildRequest(idx []int, ord int) (b []byte, ok bool) {
	method, target, version := c01Methods[idx[0]], fmt.Sprintf(c01Targets[idx[1]], ord), c01Versions[idx[2]]
	teIdx, teFirst := idx[6]%len(c01TEs), idx[6] >= len(c01TEs)
	cl, te := c01CLs[idx[5]], c01TEs[teIdx]
	if teFirst && (len(cl) == 0 || len(te) == 0) {
		return nil, false // order is only a choice when both are present
	}
	bodySel := c01Bodies[idx[9]]
	var extraHdr []string
	body := bodySel
	switch bodySel {
	case "\x00auto":
		switch {
		case len(te) > 0:
			body = "5\r\nhello\r\n0\r\n\r\n"
		case len(cl) > 0:
			body = "hello"
		default:
			body = ""
		}
	case "\x00mp0", "\x00mp10", "\x00mp5000":
		n, _ := strconv.Atoi(bodySel[3:])
		body = c01Multipart(n)
		extraHdr = []string{"Content-Type: multipart/form-data; boundary=b"}
		if len(cl) == 0 {
			cl = []string{"Content-Length: #"}
		}
	}
	var rl string
	sp1, sp2 := " ", " "
	if version == "" {
		sp2 = ""
	}
	switch idx[3] {
	case c01RLDoubleSPAfterMethod:
		sp1 = "  "
	case c01RLDoubleSPBeforeVersion:
		sp2 = "  "
	case c01RLTabs:
		sp1, sp2 = "\t", "\t"
	}
	rl = method + sp1 + target + sp2 + version
	pre := ""
	switch idx[3] {
	case c01RLLeadingCRLF:
		pre = "\r\n"
	case c01RLLeadingLF:
		pre = "\n"
	case c01RLLeadingCRLF2:
		pre = "\r\n\r\n"
	case c01RLTrailingSP:
		rl += " "
	case c01RLLeadingSP:
		rl = " " + rl
	}
	lines := []string{rl}
	lines = append(lines, c01Hosts[idx[4]]...)
	lines = append(lines, c01Extras[idx[8]]...)
	lines = append(lines, extraHdr...)
	connLine, connAfter := "", false
	if c := idx[10]; c > 0 {
		connLine, connAfter = c01ConnVals[(c-1)%len(c01ConnVals)], c > len(c01ConnVals)
		if connAfter && len(cl) == 0 && len(te) == 0 {
			return nil, false // position is only a choice when there are framing headers
		}
	}
	if connLine != "" && !connAfter {
		lines = append(lines, connLine)
	}
	if teFirst {
		lines = append(lines, te...)
		lines = append(lines, cl...)
	} else {
		lines = append(lines, cl...)
		lines = append(lines, te...)
	}
	if connLine != "" && connAfter {
		lines = append(lines, connLine)
	}
	var out bytes.Buffer
	out.WriteString(pre)
	nh := len(lines) - 1 // number of header lines
	for i, l := range lines {
		l = strings.ReplaceAll(l, "#", strconv.Itoa(len(body)))
		out.WriteString(l)
		term := "\r\n"
		switch idx[7] {
		case c01LEAllLF:
			term = "\n"
		case c01LEReqLineLF:
			if i == 0 {
				term = "\n"
			}
		case c01LELastHeaderLF:
			if i == nh && nh > 0 {
				term = "\n"
			}
		case c01LEHeadersLF:
			if i > 0 {
				term = "\n"
			}
		case c01LEFirstHeaderBareCR:
			if i == 1 {
				term = "\r"
			}
		case c01LEFirstHeaderCRCRLF:
			if i == 1 {
				term = "\r\r\n"
			}
		}
		out.WriteString(term)
	}
	if idx[7] == c01LEAllLF || idx[7] == c01LEBlankLF {
		out.WriteString("\n")
	} else {
		out.WriteString("\r\n")
	}
	out.WriteString(body)
	return out.Bytes(), true
}

// ---------------------------------------------------------------------------------------------------------------
// Running the real server on a scripted connection.

type c01Call struct {
	method, target string
	body           []byte
	preparsedMP    bool
}

type c01Conn struct {
	*vnet.Conn
	calls []c01Call
}

type c01NopLogger struct{}

func (c01NopLogger) Printf(string, ...any) {}

func c01Handler(ctx *RequestCtx) {
	c, ok := ctx.Conn().(*c01Conn)
	if !ok {
		panic("c01: handler called with a foreign connection")
	}
	call := c01Call{method: string(ctx.Method()), target: string(ctx.RequestURI())}
	if ctx.Request.multipartForm != nil {
		call.preparsedMP = true // Body() would re-marshal the parsed form: bytes are not comparable
	} else {
		call.body = append([]byte(nil), ctx.Request.Body()...)
	}
	c.calls = append(c.calls, call)
	ctx.SetStatusCode(StatusOK)
}

type c01Cfg struct {
	flags   int // bit0 ReduceMemoryUsage, bit1 DisableHeaderNamesNormalizing, bit2 GetOnly, bit3 DisablePreParseMultipartForm
	bufSize int
}

func (c c01Cfg) String() string {
	return fmt.Sprintf("rmu=%d,nonorm=%d,getonly=%d,nopreparse=%d,rbuf=%d", c.flags&1, c.flags>>1&1, c.flags>>2&1, c.flags>>3&1, c.bufSize)
}

var c01Servers sync.Map // c01Cfg -> *Server

func c01Server(cfg c01Cfg) *Server {
	if s, ok := c01Servers.Load(cfg); ok {
		return s.(*Server)
	}
	s := &Server{
		Handler:                       c01Handler,
		ReduceMemoryUsage:             cfg.flags&1 != 0,
		DisableHeaderNamesNormalizing: cfg.flags&2 != 0,
		GetOnly:                       cfg.flags&4 != 0,
		DisablePreParseMultipartForm:  cfg.flags&8 != 0,
		ReadBufferSize:                cfg.bufSize,
		Logger:                        c01NopLogger{},
		NoDefaultServerHeader:         true,
		NoDefaultDate:                 true,
		NoDefaultContentType:          true,
	}
	a, _ := c01Servers.LoadOrStore(cfg, s)
	return a.(*Server)
}

type c01Resp struct {
	status int
}

type c01Run struct {
	calls        []c01Call
	resps        []c01Resp // final (non-1xx) responses in order
	interim      int
	outputJunk   string // non-empty: the output could not be parsed as HTTP responses
	readAgain    bool   // a Read was issued after the last Write
	closed       bool
	serveErr     string
	consumed     int
	outputLength int
}

func c01Serve(cfg c01Cfg, chunks [][]byte) c01Run {
	conn := &c01Conn{Conn: vnet.NewConn(chunks...)}
	conn.Events = make([]vnet.Event, 0, len(chunks)+24)
	var run c01Run
	err := c01Server(cfg).ServeConn(conn)
	if err != nil {
		run.serveErr = err.Error()
	}
	run.calls = conn.calls
	run.readAgain = conn.ReadAfterLastWrite()
	run.closed = conn.Closed > 0
	run.consumed = conn.Consumed()
	out := conn.Output()
	run.outputLength = len(out)
	br := bufio.NewReader(bytes.NewReader(out))
	for {
		if _, err := br.Peek(1); err == io.EOF {
			break
		}
		var rq *http.Request
		if k := len(run.resps); k < len(conn.calls) && conn.calls[k].method == "HEAD" {
			rq = &http.Request{Method: "HEAD"} // the response to a HEAD request has no body whatever its header says
		}
		resp, err := http.ReadResponse(br, rq)
		if err != nil {
			run.outputJunk = err.Error()
			break
		}
		if _, err := io.Copy(io.Discard, resp.Body); err != nil {
			run.outputJunk = "body: " + err.Error()
			break
		}
		resp.Body.Close()
		if resp.StatusCode < 200 {
			run.interim++
			continue
		}
		run.resps = append(run.resps, c01Resp{status: resp.StatusCode})
	}
	return run
}

// ---------------------------------------------------------------------------------------------------------------
// Oracle.

type c01Case struct {
	stream []byte
	refs   map[int]*c01Out // reference outcome per start offset (memo; shared by all configs of the pipeline)
	mu     sync.Mutex
}

func (c *c01Case) ref(o int) *c01Out {
	c.mu.Lock()
	defer c.mu.Unlock()
	if c.refs == nil {
		c.refs = map[int]*c01Out{}
	}
	if r, ok := c.refs[o]; ok {
		return r
	}
	r := c01Ref(c.stream, o)
	c.refs[o] = &r
	return &r
}

type c01Stats struct {
	runs, dispatched1, dispatched2, dispatched3, mustCloseDispatched, mustCloseRefused, serverStricter, rejectRefused int64
	refOK, refMust, refReject, refIncomplete, nhCompared, nhExplained                                                 int64
}

func (s *c01Stats) flush(r *vrt.R) {
	r.Add("server_runs", s.runs)
	r.Add("runs_dispatching_ge1", s.dispatched1)
	r.Add("runs_dispatching_ge2", s.dispatched2)
	r.Add("runs_dispatching_ge3", s.dispatched3)
	r.Add("runs_must_close_message_dispatched", s.mustCloseDispatched)
	r.Add("runs_must_close_message_refused", s.mustCloseRefused)
	r.Add("runs_reject_class_message_refused", s.rejectRefused)
	r.Add("runs_server_stricter_than_reference", s.serverStricter)
	r.Add("pipelines_first_message_ref_ok", s.refOK)
	r.Add("pipelines_first_message_ref_must_close", s.refMust)
	r.Add("pipelines_first_message_ref_reject", s.refReject)
	r.Add("pipelines_first_message_ref_incomplete", s.refIncomplete)
	r.Add("reference_vs_nethttp_comparisons", s.nhCompared)
	r.Add("reference_vs_nethttp_differences_explained_by_rule", s.nhExplained)
	*s = c01Stats{}
}

func c01Artefact(stream []byte, cfg c01Cfg, chunking string) map[string]any {
	return map[string]any{"stream": vrt.Q(stream), "flags": cfg.flags, "rbuf": cfg.bufSize, "chunking": chunking, "cfg": cfg.String()}
}

func c01Chunks(stream []byte, chunking string) [][]byte {
	switch {
	case chunking == "whole":
		return [][]byte{stream}
	case chunking == "dribble":
		return vnet.Dribble(stream, 1)
	case strings.HasPrefix(chunking, "split@"):
		n, _ := strconv.Atoi(chunking[6:])
		return vnet.Split(stream, n)
	}
	panic("c01: unknown chunking " + chunking)
}

// c01Check runs one (pipeline, config, chunking) and evaluates the oracle.
// c01PanicClass turns a recovered panic into a stable class: the message without its numbers plus the innermost
// function of the code under test on the panicking stack.
func c01PanicClass(e any) string {
	msg := fmt.Sprint(e)
	if i := strings.IndexAny(msg, "[0123456789"); i > 0 {
		msg = msg[:i]
	}
	msg = strings.Trim(strings.Map(func(r rune) rune {
		if r >= 'a' && r <= 'z' || r >= 'A' && r <= 'Z' {
			return r
		}
		return '-'
	}, msg), "-")
	for strings.Contains(msg, "--") {
		msg = strings.ReplaceAll(msg, "--", "-")
	}
	where := "?"
	pc := make([]uintptr, 64)
	frames := runtime.CallersFrames(pc[:runtime.Callers(2, pc)])
	for {
		f, more := frames.Next()
		if strings.HasPrefix(f.Function, "github.com/valyala/fasthttp.") && !strings.Contains(f.File, "zz_verif_") && !strings.Contains(f.Function, "c01") {
			where = strings.TrimPrefix(f.Function, "github.com/valyala/fasthttp.")
			break
		}
		if !more {
			break
		}
	}
	return "panic:" + msg + "[" + where + "]"
}

func c01Check(r *vrt.R, cs *c01Case, cfg c01Cfg, chunking string, st *c01Stats) {
	viol := func(sig, what string) {
		r.Violation(sig, fmt.Sprintf("%s [config %s, reads %s] stream=%s", what, cfg, chunking, vrt.Q(c01Clip(cs.stream))), c01Artefact(cs.stream, cfg, chunking))
	}
	// a panic of the code under test (or one it provokes in this driver) is a finding about that case, not a tool error
	defer func() {
		if e := recover(); e != nil {
			viol(c01PanicClass(e), fmt.Sprintf("panic while serving the connection: %v", e))
		}
	}()
	run := c01Serve(cfg, c01Chunks(cs.stream, chunking))
	st.runs++
	if run.outputJunk != "" {
		viol("server-output-not-http", "bytes written by the server do not parse as HTTP responses: "+run.outputJunk)
		return
	}
	if !run.closed {
		viol("connection-not-closed-on-return", "ServeConn returned without closing the connection")
	}
	switch n := len(run.calls); {
	case n >= 3:
		st.dispatched3++
		fallthrough
	case n == 2:
		st.dispatched2++
		fallthrough
	case n == 1:
		st.dispatched1++
	}
	o := 0
	var last *c01Out
	stopped := false
	prevHow := ""
	for k, call := range run.calls {
		ref := cs.ref(o)
		desc := fmt.Sprintf("dispatch #%d = %s %s body=%s; reference at offset %d: ", k+1, c01ClipS(call.method), vrt.Q([]byte(c01ClipS(call.target))), vrt.Q(c01Clip(call.body)), o)
		switch ref.kind {
		case c01Incomplete:
			viol("dispatched-incomplete-message:"+ref.reason, desc+"the stream ends inside this message ("+ref.reason+")")
			return
		case c01Reject:
			viol("dispatched-must-reject:"+ref.reason, desc+"no admissible accepted interpretation ("+ref.reason+")")
			return
		}
		if call.method != ref.method || call.target != ref.target {
			sig := "next-request-not-at-message-boundary"
			switch {
			case k > 0 && run.calls[k-1].preparsedMP:
				sig = "preparsed-multipart-leaves-body-bytes-in-stream"
			case k > 0 && prevHow != "":
				sig = "next-request-not-at-message-boundary-after-" + prevHow + "-body"
			}
			viol(sig, desc+fmt.Sprintf("%s %s (the server did not continue at the message boundary)", c01ClipS(ref.method), vrt.Q([]byte(c01ClipS(ref.target)))))
			return
		}
		var hit *c01Msg
		for i := range ref.alts {
			a := &ref.alts[i]
			if call.preparsedMP || bytes.Equal(a.body, call.body) {
				hit = a
				break
			}
		}
		if hit == nil {
			var want []string
			for _, a := range ref.alts {
				want = append(want, a.how+":"+vrt.Q(c01Clip(a.body)))
			}
			viol("body-differs:"+c01BodyShape(ref), desc+"admissible bodies "+strings.Join(want, " | "))
			return
		}
		last = ref
		if ref.mustClose {
			st.mustCloseDispatched++
			if k+1 < len(run.calls) {
				nx := run.calls[k+1]
				viol(ref.reason+"-kept-alive", fmt.Sprintf("%sframing class must-close (%s), but the server then dispatched %s %s on the same connection", desc, ref.reason, c01ClipS(nx.method), vrt.Q([]byte(c01ClipS(nx.target)))))
				return
			}
			stopped = true
			break
		}
		o = hit.end
		prevHow = hit.how
	}
	extra := len(run.resps) - len(run.calls)
	switch {
	case extra < 0:
		viol("handler-call-without-response", fmt.Sprintf("%d handler calls but %d final responses", len(run.calls), len(run.resps)))
		return
	case extra > 1:
		viol("several-responses-without-handler-call", fmt.Sprintf("%d handler calls but %d final responses", len(run.calls), len(run.resps)))
		return
	}
	for i, rs := range run.resps {
		if i < len(run.calls) && rs.status != StatusOK {
			viol("handler-response-status-changed", fmt.Sprintf("response #%d has status %d, the handler set 200", i+1, rs.status))
			return
		}
		if i >= len(run.calls) && rs.status < 400 {
			viol("answered-without-handler-call", fmt.Sprintf("response #%d (status %d) was written without a handler call", i+1, rs.status))
			return
		}
	}
	if stopped {
		if extra > 0 {
			viol(last.reason+"-kept-alive", fmt.Sprintf("after the must-close message (%s) at dispatch #%d the server went on parsing later bytes and answered them with status %d", last.reason, len(run.calls), run.resps[len(run.resps)-1].status))
			return
		}
		if run.readAgain {
			viol(last.reason+"-kept-alive", fmt.Sprintf("after the response to the must-close message (%s) the server issued another Read on the connection", last.reason))
			return
		}
		return
	}
	// the server stopped (or ran out of input) at offset o: classify for the anti-vacuity counters
	ref := cs.ref(o)
	if o < len(cs.stream) {
		switch {
		case ref.kind == c01Accept && ref.mustClose:
			st.mustCloseRefused++
		case ref.kind == c01Accept:
			st.serverStricter++
		case ref.kind == c01Reject:
			st.rejectRefused++
		}
	}
}

func c01Clip(b []byte) []byte {
	if len(b) > 700 {
		return append(append([]byte{}, b[:400]...), []byte(fmt.Sprintf("...(%d bytes)...", len(b)-500))...)
	}
	return b
}

func c01ClipS(s string) string {
	if len(s) > 60 {
		return s[:24] + fmt.Sprintf("...(%d bytes)...", len(s)-36) + s[len(s)-12:]
	}
	return s
}

func c01BodyShape(ref *c01Out) string {
	var h []string
	for _, a := range ref.alts {
		h = append(h, a.how)
	}
	s := strings.Join(h, "|")
	if ref.reason != "" {
		s += ":" + ref.reason
	}
	return s
}

// ---------------------------------------------------------------------------------------------------------------
// Cross-validation of the reference against net/http.ReadRequest (second, independent implementation).
//
// Every difference must be covered by one of the documented rules in c01CrossCheck (otherwise the run is a tool error):
//
//	(A) net/http rejects what the reference does not reject
//	 leading-empty-line        net/http does not skip empty lines before the request-line [2.2 SHOULD]
//	 lenient-request-line-ws   net/http splits the request-line on single SP only [3 MAY]
//	 ws-line-after-start-line  net/http rejects a whitespace-preceded first header line [2.2: reject or ignore]
//	 no-colon-line, invalid-field-name, ctl-in-value   net/http rejects malformed field lines (no framing meaning in the RFC)
//	 te-extra-codings, te-repeated-lines, te-empty-list-element, identity   net/http supports exactly one "chunked" value
//	 chunk-malformed-ext, chunk-bare-lf, chunk-ext-bws   net/http rejects bare LF / odd extension text / BWS in chunk-size lines
//	 non-1x-version            net/http rejects HTTP/2.0 request lines
//	 chunk-size-17-digits      net/http limits chunk sizes to 16 hex digits even if they are leading zeros
//	 request-target-form       net/http validates the request-target / method form (not a framing matter)
//	 trailer-syntax            net/http parses trailers with textproto and rejects lines the reference skips
//	 net/http-validates-cl-despite-te   [6.3 r3] Transfer-Encoding overrides Content-Length whatever its value
//	 net/http-rejects-cl-list-form      RFC 9110 8.6 MAY: "5, 5" acceptable as 5; net/http only folds repeated lines
//	(B) net/http does not reject what RFC 9112 says MUST be rejected
//	 no-host                   ReadRequest leaves the Host requirement to http.Server [3.2]
//	 ws-before-colon           net/http keeps "Name : v" as an unrecognised field (golang.org/issue/34540) [5.1 MUST reject]
//	 chunk-size-uint64         16 hex digits fit net/http's uint64; the reference limits sizes to 63 bits
//	(C) te-on-http10           net/http ignores Transfer-Encoding on HTTP/1.0 (golang.org/issue/12785) [6.1: faulty framing]
type c01NH struct {
	kind           int
	method, target string
	body           []byte
	end            int
	err            string
}

func c01NetHTTP(s []byte, o int) c01NH {
	rd := bytes.NewReader(s[o:])
	br := bufio.NewReaderSize(rd, 16<<10)
	req, err := http.ReadRequest(br)
	if err != nil {
		if err == io.EOF || err == io.ErrUnexpectedEOF {
			return c01NH{kind: c01Incomplete, err: err.Error()}
		}
		return c01NH{kind: c01Reject, err: err.Error()}
	}
	var body []byte
	if req.ContentLength > 1<<20 {
		return c01NH{kind: c01Incomplete, err: "declared length beyond the stream"}
	}
	body, err = io.ReadAll(req.Body)
	if err != nil {
		if err == io.EOF || err == io.ErrUnexpectedEOF {
			return c01NH{kind: c01Incomplete, err: err.Error()}
		}
		return c01NH{kind: c01Reject, err: err.Error()}
	}
	end := len(s) - rd.Len() - br.Buffered()
	return c01NH{kind: c01Accept, method: req.Method, target: req.RequestURI, body: body, end: end}
}

// c01CrossCheck compares the reference outcome at offset o with net/http; returns "" (agree), "explained:<rule>" or
// "UNEXPLAINED: ...".
func c01CrossCheck(s []byte, o int, ref *c01Out) string {
	nh := c01NetHTTP(s, o)
	agree := false
	switch {
	case ref.kind == c01Accept && nh.kind == c01Accept:
		if nh.method == ref.method && nh.target == ref.target {
			for _, a := range ref.alts {
				if bytes.Equal(a.body, nh.body) && a.end == nh.end {
					agree = true
				}
			}
		}
	case ref.kind == nh.kind:
		agree = true
	}
	if agree {
		return ""
	}
	diff := fmt.Sprintf("ref{kind=%d reason=%s tags=%v %s %q alts=%d} net/http{kind=%d %s %q body=%q end=%d err=%s}",
		ref.kind, ref.reason, ref.tags, ref.method, ref.target, len(ref.alts), nh.kind, nh.method, nh.target, c01Clip(nh.body), nh.end, nh.err)
	// (A) net/http rejects what the reference (lenient reading of a MAY/SHOULD, or the RFC rule itself) does not reject
	if nh.kind == c01Reject && ref.kind != c01Reject {
		for _, t := range []string{"leading-empty-line", "lenient-request-line-ws", "ws-line-after-start-line", "no-colon-line", "invalid-field-name",
			"ctl-in-value", "te-extra-codings", "te-repeated-lines", "te-empty-list-element", "chunk-malformed-ext", "chunk-bare-lf", "non-1x-version"} {
			if ref.has(t) {
				return "explained:" + t
			}
		}
		switch {
		case ref.reason == "te-identity" || ref.reason == "te-identity+cl":
			// net/http supports only "chunked"; the property tolerates a lone identity
			return "explained:net/http-rejects-identity"
		case ref.has("cl+te-present") && strings.Contains(nh.err, "Content-Length"):
			// [6.3 r3] Transfer-Encoding overrides Content-Length whatever its value; net/http validates the value first
			return "explained:net/http-validates-cl-despite-te"
		case ref.reason == "dup-cl" && strings.Contains(nh.err, "bad Content-Length"):
			// RFC 9110 8.6: a list of identical values MAY be accepted; net/http accepts repeated lines but not the list form
			return "explained:net/http-rejects-cl-list-form"
		case strings.Contains(nh.err, "chunk length too large"):
			// net/http limits chunk sizes to 16 hex digits even if they are leading zeros
			return "explained:chunk-size-17-digits"
		case strings.Contains(nh.err, "invalid URI for request") || strings.Contains(nh.err, "invalid method"):
			return "explained:request-target-form"
		case strings.Contains(nh.err, "malformed MIME header") && ref.kind == c01Accept && ref.alts[0].how == "chunked":
			// head lines of this kind carry a tag and were handled above: this is a trailer line. net/http parses the
			// trailer section with textproto and rejects lines the reference skips (they do not move the message end)
			return "explained:trailer-syntax"
		case strings.Contains(nh.err, "invalid byte in chunk length") && ref.kind == c01Accept && ref.alts[0].how == "chunked" &&
			(bytes.Contains(s[ref.headEnd:ref.alts[0].end], []byte(" ;")) || bytes.Contains(s[ref.headEnd:ref.alts[0].end], []byte("\t;"))):
			// [7.1.1] BWS before ";" is grammatical; net/http does not accept it
			return "explained:chunk-ext-bws"
		}
	}
	// (B) net/http does not reject what RFC 9112 says MUST be rejected
	if nh.kind != c01Reject && ref.kind == c01Reject {
		switch ref.reason {
		case "no-host":
			// ReadRequest leaves the Host requirement [3.2] to http.Server
			return "explained:no-host"
		case "ws-before-colon":
			// net/http keeps "Name : v" as an unrecognised field (golang.org/issue/34540); [5.1] MUST reject
			return "explained:ws-before-colon"
		case "chunk-size-overflow":
			// 16 hex digits fit net/http's uint64; the reference limits sizes to 63 bits; both then cannot be satisfied by the stream
			if nh.kind == c01Incomplete {
				return "explained:chunk-size-uint64"
			}
		}
	}
	// (C) Transfer-Encoding on HTTP/1.0: net/http ignores the field (Go issue 12785); [6.1] framing faulty, any body reading admissible
	if ref.reason == "te-on-http10" {
		return "explained:te-on-http10"
	}
	return "UNEXPLAINED: " + diff
}

// ---------------------------------------------------------------------------------------------------------------

// Tool errors are collected and raised from the test goroutine after the shards have stopped (r.ToolError must not
// be followed by r.End, which would overwrite the tool-error result file).
var c01ToolErrMu sync.Mutex
var c01ToolErrs []string

// VERIF_C01_COLLECT=1: keep going after a reference disagreement to list all distinct kinds (development aid).
var c01CollectAll = os.Getenv("VERIF_C01_COLLECT") != ""

var c01ToolErrKeys = map[string]bool{}

func c01ToolErrKeyed(key, msg string) {
	c01ToolErrMu.Lock()
	if !c01ToolErrKeys[key] && len(c01ToolErrs) < 60 {
		c01ToolErrKeys[key] = true
		c01ToolErrs = append(c01ToolErrs, msg)
	}
	c01ToolErrMu.Unlock()
}

func c01ToolErr(msg string) { c01ToolErrKeyed(msg, msg) }

func c01HasToolErr() bool {
	c01ToolErrMu.Lock()
	defer c01ToolErrMu.Unlock()
	return len(c01ToolErrs) > 0
}

func c01Hash(b []byte) uint64 {
	h := uint64(14695981039346656037)
	for _, c := range b {
		h ^= uint64(c)
		h *= 1099511628211
	}
	return h
}

// c01Pipeline evaluates one pipeline: reference walk (+ net/http cross-validation) once, then every config.
func c01Pipeline(r *vrt.R, stream []byte, cfgs []c01Cfg, allSplits, reduced bool, st *c01Stats) {
	cs := &c01Case{stream: stream}
	// reference walk along the primary interpretation, cross-validated at every visited offset
	o, nontrivial := 0, false
	for step := 0; o < len(stream) && step < 8; step++ {
		ref := cs.ref(o)
		if step == 0 {
			switch {
			case ref.kind == c01Accept && ref.mustClose:
				st.refMust++
			case ref.kind == c01Accept:
				st.refOK++
			case ref.kind == c01Reject:
				st.refReject++
			default:
				st.refIncomplete++
			}
		}
		st.nhCompared++
		if x := c01CrossCheck(stream, o, ref); x != "" {
			if strings.HasPrefix(x, "UNEXPLAINED") {
				nh := c01NetHTTP(stream, o)
				e := nh.err
				if len(e) > 30 {
					e = e[:30]
				}
				c01ToolErrKeyed(fmt.Sprintf("%d|%s|%v|%d|%s", ref.kind, ref.reason, ref.tags, nh.kind, e),
					fmt.Sprintf("reference and net/http.ReadRequest disagree at offset %d of %s: %s", o, vrt.Q(stream), x))
				break
			}
			st.nhExplained++
		}
		if ref.kind != c01Accept || ref.mustClose || len(ref.alts[0].body) > 0 || len(ref.tags) > 0 {
			nontrivial = true
		}
		if ref.kind != c01Accept || ref.mustClose {
			break
		}
		o = ref.alts[0].end
	}
	if nontrivial {
		r.NontrivialHash(c01Hash(stream))
	}
	first := cs.ref(0)
	splitAt := first.headEnd - 1
	if first.headEnd == 0 {
		splitAt = len(stream) / 2
	}
	for _, cfg := range cfgs {
		// The way input arrives interacts with the reader (ReduceMemoryUsage, ReadBufferSize), not with the parsing
		// flags: plan "full" = every config whole + the 4 reader configs dribbled and split; plan "reduced" = the 16
		// flag combinations whole at rbuf 4096, the 2 reader configs whole at rbuf 128 and dribbled at rbuf 4096.
		readerCfg := cfg.flags&^1 == 0
		if reduced {
			if cfg.bufSize == 4096 || readerCfg {
				c01Check(r, cs, cfg, "whole", st)
			}
			if cfg.bufSize == 4096 && readerCfg {
				c01Check(r, cs, cfg, "dribble", st)
			}
			continue
		}
		c01Check(r, cs, cfg, "whole", st)
		if !readerCfg {
			continue
		}
		c01Check(r, cs, cfg, "dribble", st)
		if allSplits {
			for n := 1; n < len(stream) && n < 400; n++ {
				c01Check(r, cs, cfg, "split@"+strconv.Itoa(n), st)
			}
		} else if splitAt > 0 && splitAt < len(stream) {
			c01Check(r, cs, cfg, "split@"+strconv.Itoa(splitAt), st)
		}
	}
}

func c01AllCfgs() []c01Cfg {
	var out []c01Cfg
	for f := 0; f < 16; f++ {
		for _, b := range []int{128, 4096} {
			out = append(out, c01Cfg{flags: f, bufSize: b})
		}
	}
	return out
}

func TestVerif_C01(t *testing.T) {
	r := vrt.Begin(t, "C01", "exploration")
	defer func() {
		if c01HasToolErr() {
			r.ToolError("%d machinery errors, first ones:\n%s", len(c01ToolErrs), strings.Join(c01ToolErrs, "\n"))
		}
		r.End()
	}()
	if rp := r.Replay(); rp != nil {
		var a struct {
			Stream   string
			Flags    int
			Rbuf     int
			Chunking string
		}
		if err := json.Unmarshal(rp, &a); err != nil {
			r.ToolError("replay artefact: %v", err)
		}
		s, err := strconv.Unquote(a.Stream)
		if err != nil {
			r.ToolError("replay artefact stream: %v", err)
		}
		var st c01Stats
		cs := &c01Case{stream: []byte(s)}
		c01Check(r, cs, c01Cfg{flags: a.Flags, bufSize: a.Rbuf}, a.Chunking, &st)
		r.Eval(1)
		r.Rule("replay of one recorded (stream, server config, read chunking) case")
		return
	}

	defer debug.SetGCPercent(debug.SetGCPercent(800)) // millions of short-lived connections: trade memory for fewer GC cycles
	devSingle := vrt.Pick(r, 2, 3)
	devPair := vrt.Pick(r, 2, 2)
	cfgs := c01AllCfgs()
	r.Rule(fmt.Sprintf("pipelines [A, canary] with <=%d and [A, B, canary] with <=%d non-canonical slot choices in total; slots per request: method(%d) target(%d) version(%d) "+
		"request-line shape(%d) Host(%d) Content-Length lines(%d) Transfer-Encoding lines x order(%d) line endings(%d) extra header(%d) body bytes(%d, incl. 45 chunked bodies with a line break inside a chunk extension and 48 with 15/16/17-digit chunk sizes around the sign bit on the first / a later chunk) Connection line {absent, keep-alive, close, Keep-Alive} x {before, after the framing headers}(%d); each pipeline x 16 flag "+
		"combinations (ReduceMemoryUsage, DisableHeaderNamesNormalizing, GetOnly, DisablePreParseMultipartForm) x ReadBufferSize {128,4096} delivered whole, plus {1-byte dribble, one split inside "+
		"the first head's final line terminator; thorough: every split offset for <=1-deviation pipelines} x {ReduceMemoryUsage} x ReadBufferSize {128,4096} (two-request and 3-deviation pipelines: 16 flag "+
		"combinations whole at 4096, {ReduceMemoryUsage} whole at 128 and dribbled at 4096), through Server.ServeConn on a scripted connection. Oracle: own RFC 9112 framing reference "+
		"(Appendix B; lenient choices accept-either, a stop by the server is always admissible) evaluated at the offset where the previous dispatched message ended: method, target, body must be an "+
		"admissible interpretation; after a must-close class message no further dispatch, response or Read. The reference is cross-validated against net/http.ReadRequest at every offset of its own walk. "+
		"Non-trivial: the reference walk meets a body, a leniency, a must-close, reject or incomplete verdict.",
		devSingle, devPair, c01Dims[0], c01Dims[1], c01Dims[2], c01Dims[3], c01Dims[4], c01Dims[5], c01Dims[6], c01Dims[7], c01Dims[8], c01Dims[9], c01Dims[10]))
	r.Assume("net/http.ReadRequest (Go standard library) as second framing reference; differences to it are limited to the documented rule list in c01_framing_test.go",
		"vnet.Conn: one Read returns at most one script chunk; ServeConn is synchronous")
	r.Set("max_deviations_single", devSingle)
	r.Set("max_deviations_pair", devPair)

	const shards = 256
	var sampled atomic.Int64
	enumerate := func(nreq int, maxDev int, label string) {
		dims := append([]int{}, c01Dims...)
		if nreq == 2 {
			dims = append(dims, c01Dims...)
		}
		var pipelines atomic.Int64
		var capOnce sync.Once
		r.Par(shards, func(sh int) {
			var st c01Stats
			n, cnt := 0, 0
			seqx.Product(dims, maxDev, func(idx []int) bool {
				n++
				if n%shards != sh {
					return true
				}
				a, ok := c01BuildRequest(idx[:c01NSlots], 0)
				if !ok {
					return true
				}
				stream := a
				ndev := 0
				for _, v := range idx {
					if v != 0 {
						ndev++
					}
				}
				if nreq == 2 {
					b, ok := c01BuildRequest(idx[c01NSlots:], 1)
					if !ok {
						return true
					}
					stream = append(append([]byte{}, a...), b...)
				}
				stream = append(append([]byte{}, stream...), c01Canary...)
				c01Pipeline(r, stream, cfgs, r.Thorough() && ndev <= 1, nreq == 2 || ndev >= 3, &st)
				cnt++
				if cnt%16 == 0 {
					r.Eval(int(st.runs))
					pipelines.Add(16)
					st.flush(r)
					if c01HasToolErr() && !c01CollectAll {
						return false
					}
					if r.Expired() {
						capOnce.Do(func() { r.NotExhaustive("time budget reached in enumeration " + label) })
						return false
					}
				}
				if ndev == 2 && sampled.Load() < 12 && (n%977 == 0) {
					sampled.Add(1)
					ref := c01Ref(stream, 0)
					r.Sample(map[string]any{"stream": vrt.Q(c01Clip(stream)), "reference_first_message": map[string]any{"kind": ref.kind, "reason": ref.reason, "must_close": ref.mustClose, "tags": ref.tags}})
				}
				return true
			})
			r.Eval(int(st.runs))
			pipelines.Add(int64(cnt % 16))
			st.flush(r)
		})
		r.Set("pipelines_"+label, pipelines.Load())
	}
	for _, smp := range []string{
		"GET /r0 HTTP/1.1\r\nHost: h\r\n\r\n" + c01Canary,
		"POST /r0 HTTP/1.1\r\nHost: h\r\nContent-Length: 5\r\nTransfer-Encoding: chunked\r\n\r\n5\r\nhello\r\n0\r\n\r\n" + c01Canary,
		"POST /r0 HTTP/1.1\r\nHost: h\r\nContent-Length: 5\r\nContent-Length: 6\r\n\r\nhello" + c01Canary,
		"POST /r0 HTTP/1.0\r\nTransfer-Encoding: chunked\r\n\r\n5\r\nhello\r\n0\r\n\r\n" + c01Canary,
	} {
		ref := c01Ref([]byte(smp), 0)
		var alts []string
		for _, a := range ref.alts {
			alts = append(alts, fmt.Sprintf("%s body=%s end=%d", a.how, vrt.Q(a.body), a.end))
		}
		run := c01Serve(c01Cfg{bufSize: 4096}, [][]byte{[]byte(smp)})
		var calls []string
		for _, c := range run.calls {
			calls = append(calls, c.method+" "+c.target+" body="+vrt.Q(c.body))
		}
		r.Sample(map[string]any{"stream": vrt.Q([]byte(smp)), "reference_first_message": map[string]any{"kind": []string{"incomplete", "reject", "accept"}[ref.kind], "reason": ref.reason,
			"must_close": ref.mustClose, "admissible": alts}, "server_dispatched": calls, "server_final_responses": len(run.resps), "read_after_last_write": run.readAgain})
	}
	enumerate(1, devSingle, "A_canary")
	if !r.Expired() {
		enumerate(2, devPair, "A_B_canary")
	}
}
