//go:build verif && verif_mc

package fasthttp

import (
	"bufio"
	"bytes"
	"errors"
	"fmt"
	"io"
	"io/fs"
	"mime"
	"os"
	"sort"
	"strings"
	"testing"
	"time"

	"github.com/valyala/fasthttp/internal/verif/mcrt"
	msync "github.com/valyala/fasthttp/internal/verif/mcsync"
	mtime "github.com/valyala/fasthttp/internal/verif/mctime"
	"github.com/valyala/fasthttp/internal/verif/mcx"
	"github.com/valyala/fasthttp/internal/verif/seamfs"
	"github.com/valyala/fasthttp/internal/verif/vrt"
)

// C25: every file handle the FS handler opens is closed exactly once, only after no response is still reading it, and
// no response ever reads from a closed file - for every schedule of concurrent requests, response-body streaming,
// cache expiry (the real cleaner loop on virtual time), CleanStop closing and handler finalisation.
//
// The real fs.go (rewritten by mcgen) serves from an instrumented in-memory file system. Two flavours:
//   - FS.FS = the in-memory fs.FS (fs.go then uses one bigFileReader handle per response plus the cached fsFile handle);
//   - the default osFS with os.Open redirected to the same in-memory files (engine/seamfs) - the only way to reach the
//     fsSmallFileReader path, where all responses share the cached handle through ReadAt, and the >8 KiB path.
// Request threads do what a server does after the handler returned: Response.Write into a bufio.Writer over a sink
// (slow client = virtual sleeps between body chunks; dead client = write error after k body bytes), or drop the response
// unread (Response.Reset), then Response.Reset. runtime.AddCleanup is recorded by engine/seamfs and run by a harness
// thread once no handler call is in progress (what the collector guarantees through the KeepAlive in fs.go).

const (
	c25Full     = iota // GET, body streamed to the end
	c25Early           // GET, peer dies after failAfter body bytes
	c25Drop            // GET, response dropped without reading (Response.Reset)
	c25Head            // HEAD
	c25NotMod          // GET with If-Modified-Since in the future -> 304
	c25BadRange        // GET with an unsatisfiable Range -> 416
	c25Range           // GET with a satisfiable Range -> 206
)

var c25kindName = []string{"full", "early", "drop", "head", "notmod", "badrange", "range"}

const (
	c25FSio   = iota // FS.FS = in-memory fs.FS
	c25FSos          // default osFS, os.Open redirected (small-file reader for <= 8 KiB, big-file reader above)
	c25FSskip        // FS.FS = in-memory fs.FS, SkipCache (noopCacheManager)
)

type c25req struct {
	file      string
	kind      int
	start     time.Duration // virtual sleep before the handler is called
	delay     time.Duration // slow client: sleep before each body chunk is accepted (0: plain scheduling point)
	failAfter int           // c25Early: the sink fails once it holds this many body bytes
}

const (
	c25StopNone      = 0
	c25StopCleanStop = 1 << iota // close(FS.CleanStop)
	c25StopFinalise              // run the recorded AddCleanup function
)

type c25scn struct {
	fsKind   int
	sizes    map[string]int
	bufSize  int // bufio.Writer size of the "connection"
	reqs     []c25req
	stop     int           // c25Stop* bits; each gets its own thread
	stopAt   time.Duration // virtual sleep before stopping
	stopGate bool          // CleanStop waits until every handler call has returned (the documented precondition)
	// seqHandlers: the handler calls run one after the other on the main thread (only the cleaner beside them); request
	// threads then only stream / drop the prepared responses. Used where the stop is gated on the handlers anyway.
	seqHandlers bool
	compress    bool // FS.Compress, requests carry Accept-Encoding: gzip
}

type c25handle struct {
	o      *c25obs
	id     int
	name   string
	data   []byte
	pos    int64
	opener int
	closes int
	closer int
	nread  int
}

type c25info struct {
	name string
	size int64
}

func (i c25info) Name() string       { return i.name }
func (i c25info) Size() int64        { return i.size }
func (i c25info) Mode() fs.FileMode  { return 0o444 }
func (i c25info) ModTime() time.Time { return mcrt.Base.Add(-time.Hour) }
func (i c25info) IsDir() bool        { return false }
func (i c25info) Sys() any           { return nil }

type c25resp struct {
	tid       int
	kind      int
	status    int
	hadStream bool
	active    bool // body stream installed and its Close not yet entered
	uses      []*c25handle
	bodyLen   int
	werr      bool
	done      bool
}

type c25obs struct {
	files        map[string][]byte
	handles      []*c25handle
	resps        []*c25resp
	sig, what    string
	leak         string
	cleanerTID   int
	finaliserTID int
	cm           *inMemoryCacheManager
	ffs          []*fsFile
	returned     int // handler calls that have returned
	tags         map[string]bool
	closedBy     map[string]int
}

func (o *c25obs) flag(sig, what string) {
	if o.sig == "" && mcrt.Active() {
		o.sig, o.what = sig, what
	}
}

func (o *c25obs) tag(t string) {
	if !o.tags[t] {
		o.tags[t] = true
		mcrt.Covered(t)
	}
}

func (o *c25obs) who(tid int) string {
	switch {
	case tid == o.cleanerTID:
		return "cleaner"
	case tid == 0:
		return "main"
	case tid == o.finaliserTID:
		return "finaliser"
	}
	for i, rs := range o.resps {
		if rs.tid == tid {
			return fmt.Sprintf("req%d", i)
		}
	}
	return fmt.Sprintf("thread%d", tid)
}

func (o *c25obs) open(name string) (fs.File, error) {
	data, ok := o.files[name]
	if !ok {
		return nil, &fs.PathError{Op: "open", Path: name, Err: fs.ErrNotExist}
	}
	h := &c25handle{o: o, id: len(o.handles), name: name, data: data, opener: mcrt.CurrentID(), closer: -1}
	o.handles = append(o.handles, h)
	return h, nil
}

// c25iofs is the fs.FS flavour.
type c25iofs struct{ o *c25obs }

func (f c25iofs) Open(name string) (fs.File, error) { return f.o.open(name) }

func (h *c25handle) String() string {
	return fmt.Sprintf("handle #%d (%s, opened by %s)", h.id, h.name, h.o.who(h.opener))
}

func (h *c25handle) afterClose(op string) bool {
	if h.closes == 0 {
		return false
	}
	h.o.flag("fs-read-after-close", fmt.Sprintf("%s on %v by %s after it was closed by %s", op, h, h.o.who(mcrt.CurrentID()), h.o.who(h.closer)))
	return true
}

func (h *c25handle) Stat() (fs.FileInfo, error) {
	return c25info{name: h.name[strings.LastIndexByte(h.name, '/')+1:], size: int64(len(h.data))}, nil
}

func (h *c25handle) Read(p []byte) (int, error) {
	if h.afterClose("Read") {
		return 0, fs.ErrClosed
	}
	h.nread++
	if h.pos >= int64(len(h.data)) {
		return 0, io.EOF
	}
	n := copy(p, h.data[h.pos:])
	h.pos += int64(n)
	return n, nil
}

func (h *c25handle) ReadAt(p []byte, off int64) (int, error) {
	if h.afterClose("ReadAt") {
		return 0, fs.ErrClosed
	}
	h.nread++
	if off >= int64(len(h.data)) {
		return 0, io.EOF
	}
	n := copy(p, h.data[off:])
	if n < len(p) {
		return n, io.EOF
	}
	return n, nil
}

func (h *c25handle) Seek(off int64, whence int) (int64, error) {
	if h.afterClose("Seek") {
		return 0, fs.ErrClosed
	}
	switch whence {
	case io.SeekCurrent:
		off += h.pos
	case io.SeekEnd:
		off += int64(len(h.data))
	}
	if off < 0 {
		return 0, errors.New("negative position")
	}
	h.pos = off
	return off, nil
}

func (h *c25handle) Close() error {
	if !mcrt.Active() {
		return nil
	}
	o := h.o
	me := mcrt.CurrentID()
	h.closes++
	if h.closes > 1 {
		o.flag("fs-handle-closed-twice", fmt.Sprintf("%v closed by %s and again by %s", h, o.who(h.closer), o.who(me)))
		return fs.ErrClosed
	}
	h.closer = me
	for i, rs := range o.resps {
		if !rs.active || rs.tid == me {
			continue
		}
		for _, u := range rs.uses {
			if u == h {
				o.flag("fs-handle-closed-under-active-response", fmt.Sprintf("%v closed by %s while the body stream of response %d (%s) is installed and not closed", h, o.who(me), i, c25kindName[rs.kind]))
			}
		}
	}
	w := o.who(me)
	switch {
	case w == "cleaner" && o.cm != nil && o.cm.closed:
		w = "cleaner-on-stop" // CleanStop is acted upon by the cleaner thread itself
		o.tag("stop-closed-handle")
	case w == "cleaner":
		o.tag("cleaner-closed-handle")
	case w == "finaliser":
		o.tag("finaliser-closed-handle")
	case strings.HasPrefix(w, "req"):
		o.tag("request-thread-closed-handle")
	}
	o.closedBy[w]++
	return nil
}

// c25stream stands between Response and the reader fs.go installed, only to learn when the stream's Close starts
// (from then on the response is no longer "reading"). It offers the same Read / WriteTo / Close surface.
type c25stream struct {
	inner io.Reader
	rs    *c25resp
}

func (s *c25stream) Read(p []byte) (int, error) { return s.inner.Read(p) }
func (s *c25stream) WriteTo(w io.Writer) (int64, error) {
	return s.inner.(io.WriterTo).WriteTo(w)
}
func (s *c25stream) Close() error {
	s.rs.active = false
	return s.inner.(io.Closer).Close()
}

// c25sink is the peer: it accepts the header at once and body chunks slowly (or not at all).
type c25sink struct {
	got       []byte
	hdrEnd    int // index just after the blank line, 0 = not seen
	delay     time.Duration
	failAfter int // <0: never
}

func (s *c25sink) Write(p []byte) (int, error) {
	if s.hdrEnd == 0 {
		s.got = append(s.got, p...)
		if i := bytes.Index(s.got, []byte("\r\n\r\n")); i >= 0 {
			s.hdrEnd = i + 4
			if s.failAfter >= 0 && len(s.got)-s.hdrEnd >= s.failAfter {
				return len(p), errors.New("c25: peer went away")
			}
		}
		return len(p), nil
	}
	if s.delay > 0 {
		mtime.Sleep(s.delay)
	} else {
		mcrt.Yield()
	}
	s.got = append(s.got, p...)
	if s.failAfter >= 0 && len(s.got)-s.hdrEnd >= s.failAfter {
		return len(p), errors.New("c25: peer went away")
	}
	return len(p), nil
}

func (s *c25sink) bodyLen() int {
	if s.hdrEnd == 0 {
		return 0
	}
	return len(s.got) - s.hdrEnd
}

type c25nopLogger struct{}

func (c25nopLogger) Printf(string, ...any) {}

func c25content(name string, n int) []byte {
	b := make([]byte, n)
	x := uint32(12345)
	for i := range b {
		b[i] = byte('a' + (i+len(name))%26)
		if name[0] == 'r' { // "r*.txt": incompressible (pseudo-random) content
			x = x*1664525 + 1013904223
			b[i] = byte(x >> 24)
		}
	}
	return b
}

func (o *c25obs) noteFF(ff *fsFile) {
	for _, x := range o.ffs {
		if x == ff {
			return
		}
	}
	o.ffs = append(o.ffs, ff)
}

func (o *c25obs) invariant() string {
	bad := func(ff *fsFile, where string) string {
		if ff != nil && ff.readersCount < 0 {
			return fmt.Sprintf("readersCount=%d on fsFile %q (%s)", ff.readersCount, ff.filename, where)
		}
		return ""
	}
	for _, ff := range o.ffs {
		if m := bad(ff, "held by a response"); m != "" {
			return m
		}
	}
	if cm := o.cm; cm != nil {
		for _, ff := range cm.pendingFiles {
			if m := bad(ff, "pendingFiles"); m != "" {
				return m
			}
		}
		for _, c := range []map[string]*fsFile{cm.cache, cm.cacheGzip, cm.cacheBrotli, cm.cacheZstd} {
			for _, ff := range c {
				if m := bad(ff, "cache"); m != "" {
					return m
				}
			}
		}
		if !cm.closed {
			for _, ff := range cm.pendingFiles {
				if ff.readersCount > 0 {
					o.tag("expired-while-being-read")
				}
			}
		}
	}
	return ""
}

// call runs the handler and looks at the response it prepared.
func (o *c25obs) call(i int, h RequestHandler, ctx *RequestCtx, rq c25req) {
	rs := o.resps[i]
	rs.tid = mcrt.CurrentID()
	if rq.start > 0 {
		mtime.Sleep(rq.start)
	}
	h(ctx)
	o.returned++
	rs.status = ctx.Response.StatusCode()
	ctx.Response.Header.noDefaultDate = true // Server.NoDefaultDate: keeps the date-refresh goroutine out of the model
	if bs := ctx.Response.bodyStream; bs != nil {
		rs.hadStream = true
		switch r := bs.(type) {
		case *bigFileReader:
			o.noteFF(r.ff)
			if hd, ok := r.f.(*c25handle); ok {
				rs.uses = append(rs.uses, hd)
			}
			o.tag("big-file-reader")
		case *fsSmallFileReader:
			o.noteFF(r.ff)
			if hd, ok := r.ff.f.(*c25handle); ok {
				rs.uses = append(rs.uses, hd)
			}
			o.tag("small-file-reader")
		}
		rs.active = true
		ctx.Response.bodyStream = &c25stream{inner: bs, rs: rs}
	}
}

// stream does what the server does with the response after the handler returned.
func (o *c25obs) stream(i int, ctx *RequestCtx, rq c25req, bufSize int) {
	rs := o.resps[i]
	rs.tid = mcrt.CurrentID()
	switch rq.kind {
	case c25Drop:
		if rs.hadStream {
			o.tag("early-close")
		}
		mcrt.Yield() // the response exists for a moment before the server gives up on it
		ctx.Response.Reset()
	default:
		sink := &c25sink{delay: rq.delay, failAfter: -1}
		if rq.kind == c25Early {
			sink.failAfter = rq.failAfter
		}
		bw := bufio.NewWriterSize(sink, bufSize)
		err := ctx.Response.Write(bw)
		if err == nil {
			err = bw.Flush()
		}
		rs.werr = err != nil
		rs.bodyLen = sink.bodyLen()
		if rq.kind == c25Early && rs.hadStream && err != nil {
			o.tag("early-close")
		}
		if ctx.Response.bodyStream != nil {
			ctx.Response.Reset()
		}
	}
	if rs.active {
		o.flag("fs-body-stream-not-closed", fmt.Sprintf("response %d (%s): Response.Write/Reset returned and the body stream's Close was never called", i, c25kindName[rq.kind]))
	}
	rs.done = true
}

func c25body(sc c25scn) func() {
	return func() {
		o := &c25obs{files: map[string][]byte{}, tags: map[string]bool{}, closedBy: map[string]int{}, cleanerTID: -1, finaliserTID: -1}
		mcrt.SetUserData(o)
		prefix := ""
		if sc.fsKind == c25FSos {
			prefix = "/c25root/"
		}
		for name, n := range sc.sizes {
			o.files[prefix+name] = c25content(name, n)
		}
		fsys := &FS{CacheDuration: time.Second}
		switch sc.fsKind {
		case c25FSio:
			fsys.FS = c25iofs{o}
		case c25FSskip:
			fsys.FS = c25iofs{o}
			fsys.SkipCache = true
		case c25FSos:
			fsys.Root = "/c25root"
			seamfs.SetOpenHook(o.open)
		}
		fsys.AcceptByteRange = true
		fsys.Compress = sc.compress
		if sc.stop&c25StopCleanStop != 0 {
			fsys.CleanStop = make(chan struct{})
		}
		before := mcrt.LiveThreads()
		h := fsys.NewRequestHandler()
		if sc.fsKind != c25FSskip {
			if mcrt.LiveThreads() != before+1 {
				panic("c25 harness: NewRequestHandler did not start exactly one cleaner thread")
			}
			o.cleanerTID = before // thread ids are dense: main is 0, the cleaner is the next one
			if a := seamfs.CleanupArgs(); len(a) == 1 {
				o.cm, _ = a[0].(*inMemoryCacheManager)
			}
			if o.cm == nil {
				panic("c25 harness: the handler did not register its cache manager cleanup")
			}
		}
		mcrt.Invariant(o.invariant)

		n := len(sc.reqs)
		ctxs := make([]*RequestCtx, n)
		for i, rq := range sc.reqs {
			var req Request
			req.SetRequestURI("http://c25/" + rq.file)
			switch rq.kind {
			case c25Head:
				req.Header.SetMethod(MethodHead)
			case c25NotMod:
				req.Header.Set(HeaderIfModifiedSince, string(AppendHTTPDate(nil, mcrt.Base.Add(time.Hour))))
			case c25BadRange:
				req.Header.Set(HeaderRange, "bytes=999999-")
			case c25Range:
				req.Header.Set(HeaderRange, "bytes=1-40")
			}
			if sc.compress {
				req.Header.Set(HeaderAcceptEncoding, "gzip")
			}
			ctx := &RequestCtx{}
			ctx.Init(&req, nil, c25nopLogger{})
			ctxs[i] = ctx
			o.resps = append(o.resps, &c25resp{tid: -1, kind: rq.kind})
		}
		if sc.seqHandlers {
			for i := range sc.reqs {
				o.call(i, h, ctxs[i], sc.reqs[i])
			}
		}
		var wg msync.WaitGroup
		wg.Add(n)
		for i := range sc.reqs {
			mcrt.GoNamed(fmt.Sprint("req", i), func() {
				defer wg.Done()
				if !sc.seqHandlers {
					o.call(i, h, ctxs[i], sc.reqs[i])
				}
				o.stream(i, ctxs[i], sc.reqs[i], sc.bufSize)
			})
		}
		if sc.stop&c25StopCleanStop != 0 {
			wg.Add(1)
			mcrt.GoNamed("cleanstop", func() {
				defer wg.Done()
				if sc.stopAt > 0 {
					mtime.Sleep(sc.stopAt)
				}
				if sc.stopGate {
					mcrt.WaitUntil("handlers-returned", func() bool { return o.returned == n })
				}
				for _, rs := range o.resps {
					if rs.active {
						o.tag("stop-while-response-streams")
					}
				}
				if o.returned < n {
					o.tag("stop-while-handler-in-use")
				}
				mcrt.Close(fsys.CleanStop)
			})
		}
		if sc.stop&c25StopFinalise != 0 {
			wg.Add(1)
			mcrt.GoNamed("finaliser", func() {
				defer wg.Done()
				o.finaliserTID = mcrt.CurrentID()
				if sc.stopAt > 0 {
					mtime.Sleep(sc.stopAt)
				}
				// the collector runs the cleanup only when the handler closure is unreachable: no call in progress, none to come
				mcrt.WaitUntil("handlers-returned", func() bool { return o.returned == n })
				for _, rs := range o.resps {
					if rs.active {
						o.tag("finalised-while-response-streams")
					}
				}
				for _, f := range seamfs.Cleanups() {
					f()
				}
			})
		}
		wg.Wait()
		// quiescence: nothing is being read any more. Within CacheDuration plus two cleaner periods every handle must be
		// gone - released by the cleaner (expiry, then the pending list), or already by the stop / the last reader.
		// Waited for in half-second steps, 6s at most: a step in which the scheduler starved the (runnable) cleaner costs
		// one timer-first deviation, so within the bound starvation alone cannot make a handle look leaked.
		allClosed := func() bool {
			for _, hd := range o.handles {
				if hd.closes == 0 {
					return false
				}
			}
			return true
		}
		for i := 0; i < 12 && !allClosed(); i++ {
			mtime.Sleep(500 * time.Millisecond)
		}
		var open []string
		for _, hd := range o.handles {
			if hd.closes == 0 {
				open = append(open, hd.String())
			}
		}
		if len(open) > 0 {
			st := "cleaner running"
			if o.cm == nil {
				st = "SkipCache"
			} else if o.cm.closed {
				st = "cache manager closed"
			}
			o.leak = fmt.Sprintf("%d of %d handles still open 6s (6x CacheDuration) after the last response finished (%s): %s", len(open), len(o.handles), st, strings.Join(open, ", "))
		}
	}
}

func c25check(sc c25scn) func(x *mcrt.Exec) (string, string, string) {
	return func(x *mcrt.Exec) (string, string, string) {
		o, _ := x.UserData.(*c25obs)
		if o == nil {
			return "", "", ""
		}
		if o.sig != "" {
			return o.sig, o.sig, o.what
		}
		if x.Out.Invariant != "" {
			return "readers-negative", "fs-readers-count-negative", x.Out.Invariant
		}
		if strings.Contains(x.Out.Panic, "readersCount < 0") {
			return "readers-negative", "fs-readers-count-negative", "fs.go panicked: bug: fsFile.readersCount < 0"
		}
		if x.Out.Deadlock || x.Out.Panic != "" || x.Out.Horizon || x.Out.Fatal != "" {
			return "", "", ""
		}
		if o.leak != "" {
			return "leak", "fs-handle-leaked-at-quiescence", o.leak
		}
		var b strings.Builder
		for i, rs := range o.resps {
			if i > 0 {
				b.WriteByte(' ')
			}
			fmt.Fprintf(&b, "%s=%d/%dB", c25kindName[rs.kind], rs.status, rs.bodyLen)
			if rs.werr {
				b.WriteString("/werr")
			}
		}
		var ks []string
		for k, v := range o.closedBy {
			ks = append(ks, fmt.Sprintf("%s:%d", k, v))
		}
		sort.Strings(ks)
		fmt.Fprintf(&b, " handles=%d closedBy[%s]", len(o.handles), strings.Join(ks, ","))
		if o.tags["expired-while-being-read"] {
			b.WriteString(" expired-under-reader")
		}
		return b.String(), "", ""
	}
}

func TestVerif_C25(t *testing.T) {
	r := vrt.Begin(t, "C25", "model_checking")
	defer r.End()
	mime.TypeByExtension(".txt") // initialise the mime tables (real sync.Once, file reads) outside the controlled world
	r.Rule("closed systems of the real fs.go handler (FS.NewRequestHandler, inMemoryCacheManager / noopCacheManager, fsFile reference counting, bigFileReader / fsSmallFileReader, the cleaner loop on virtual time with CacheDuration 1s) over an instrumented in-memory file system: " +
		"1-2 request threads (GET streamed to the end through Response.Write, peer dying mid-body, response dropped unread, HEAD, 304, 416, 206; fast and slow clients so that entries expire while being read; fs.FS, osFS small-file and osFS big-file readers, SkipCache, transparent compression), optionally a thread closing FS.CleanStop (at any time / after the handler calls) and a thread running the recorded runtime.AddCleanup function; " +
		"all schedules up to the deviation bound (preemptions, timer-first); oracle on every file handle: no second Close, no Read/ReadAt/Seek after Close, no Close by another thread while a response's body stream over that handle is installed and unclosed, every handle closed within 6s (6x CacheDuration) after the last response ended; " +
		"invariant in every state: no reachable fsFile has readersCount < 0; non-trivial: executions with >=1 deviation")
	r.Assume("mcrt shim semantics (litmus-tested)", "sync.Pool modelled as deterministic LIFO without scheduling points",
		"runtime.AddCleanup recorded by engine/seamfs and run by a harness thread after the last handler call returned (the KeepAlive in fs.go gives the collector exactly that guarantee)",
		"osFS flavour: os.Open redirected to the in-memory files (engine/seamfs); file reads themselves are atomic steps, scheduling points lie between body chunks (peer writes)",
		"Date header off (Server.NoDefaultDate) so that the date refresher goroutine is not part of the model")
	b := vrt.Pick(r, 2, 3)
	var scs []mcx.Scenario
	var weights []int
	// weight: measured executions at bound 3, in thousands - only used to balance the static scenario -> worker assignment
	add := func(name string, weight, bound int, sc c25scn) {
		if f := os.Getenv("C25_ONLY"); f != "" && !strings.Contains(name, f) { // development aid: run a subset
			return
		}
		if f := os.Getenv("C25_BOUND"); f != "" {
			fmt.Sscan(f, &bound)
		}
		if sc.bufSize == 0 {
			sc.bufSize = 64
		}
		switch {
		case strings.HasPrefix(name, "skipcache"):
			weight = 4
		case strings.HasPrefix(name, "osfs-small"):
			weight /= 2
		}
		if bound < 3 {
			weight /= 20
		}
		weights = append(weights, weight)
		scs = append(scs, mcx.Scenario{Name: name, Cfg: mcrt.Config{Bound: bound, TimerFirst: true, Horizon: 8000}, Body: c25body(sc), Check: c25check(sc)})
	}
	const slow = 600 * time.Millisecond
	type variant struct {
		name  string
		fk    int
		sizes map[string]int
		buf   int
	}
	vs := []variant{
		{"iofs", c25FSio, map[string]int{"s.txt": 100, "t.txt": 100}, 64},
		{"osfs-small", c25FSos, map[string]int{"s.txt": 100, "t.txt": 100}, 64},
		{"osfs-big", c25FSos, map[string]int{"s.txt": 8300, "t.txt": 8300}, 4096},
		{"skipcache", c25FSskip, map[string]int{"s.txt": 100, "t.txt": 100}, 64},
	}
	for _, v := range vs {
		mk := func(reqs []c25req, stop int, stopAt time.Duration, gate bool) c25scn {
			return c25scn{fsKind: v.fk, sizes: v.sizes, bufSize: v.buf, reqs: reqs, stop: stop, stopAt: stopAt, stopGate: gate, seqHandlers: gate && stop != 0}
		}
		half := v.sizes["s.txt"] / 2
		b, b3 := b, b
		if v.name == "osfs-big" {
			// same reader type as the fs.FS flavour (identical spaces): one bound step less in the thorough tier, except for
			// the three scenarios marked b3 (expiry under a reader, stop at any time, both closers)
			b = 2
		}
		add(v.name+"/same-file/full+full", 760, b, mk([]c25req{{file: "s.txt"}, {file: "s.txt"}}, 0, 0, false))
		add(v.name+"/same-file/full+early", 700, b, mk([]c25req{{file: "s.txt"}, {file: "s.txt", kind: c25Early, failAfter: half}}, 0, 0, false))
		add(v.name+"/same-file/full+drop", 760, b, mk([]c25req{{file: "s.txt"}, {file: "s.txt", kind: c25Drop}}, 0, 0, false))
		if v.fk == c25FSskip {
			continue
		}
		add(v.name+"/expiry/slow-full+early", 310, b3, mk([]c25req{{file: "s.txt", delay: slow}, {file: "s.txt", kind: c25Early, failAfter: half}}, 0, 0, false))
		add(v.name+"/expiry/full+late-hit-full", 470, b, mk([]c25req{{file: "s.txt"}, {file: "s.txt", start: 1200 * time.Millisecond}}, 0, 0, false))
		add(v.name+"/expiry/slow-full+late-hit-drop", 850, b, mk([]c25req{{file: "s.txt", delay: slow}, {file: "s.txt", kind: c25Drop, start: 1200 * time.Millisecond}}, 0, 0, false))
		add(v.name+"/expiry/slow-early+late-miss-full", 620, b, mk([]c25req{{file: "s.txt", kind: c25Early, failAfter: half, delay: 900 * time.Millisecond}, {file: "s.txt", start: 1600 * time.Millisecond}}, 0, 0, false))
		add(v.name+"/cleanstop-anytime/full", 220, b3, mk([]c25req{{file: "s.txt"}}, c25StopCleanStop, 0, false))
		add(v.name+"/cleanstop-anytime/full+drop", 3600, b3-1, mk([]c25req{{file: "s.txt"}, {file: "s.txt", kind: c25Drop}}, c25StopCleanStop, 0, false))
		add(v.name+"/cleanstop-after-handlers/slow-full+early", 945, b, mk([]c25req{{file: "s.txt", delay: slow}, {file: "s.txt", kind: c25Early, failAfter: half}}, c25StopCleanStop, 0, true))
		// the largest space of the list (5 threads): kept at bound 2 in both tiers, ~3*10^6 executions at bound 3
		add(v.name+"/finalise/full+full", 2000, 2, mk([]c25req{{file: "s.txt"}, {file: "s.txt"}}, c25StopFinalise, 0, true))
		add(v.name+"/finalise/expired-slow-full+drop", 1570, b, mk([]c25req{{file: "s.txt", delay: slow}, {file: "s.txt", kind: c25Drop, start: 1200 * time.Millisecond}}, c25StopFinalise, 700*time.Millisecond, true))
		add(v.name+"/cleanstop+finalise/slow-full", 610, b3, mk([]c25req{{file: "s.txt", delay: slow}}, c25StopCleanStop|c25StopFinalise, 0, true))
		if v.name != "osfs-big" {
			add(v.name+"/two-files/full+early", 920, b, mk([]c25req{{file: "s.txt"}, {file: "t.txt", kind: c25Early, failAfter: half}}, 0, 0, false))
			add(v.name+"/no-body/head+notmod", 425, b, mk([]c25req{{file: "s.txt", kind: c25Head}, {file: "s.txt", kind: c25NotMod}}, 0, 0, false))
			add(v.name+"/ranges/badrange+range", 820, b, mk([]c25req{{file: "s.txt", kind: c25BadRange}, {file: "s.txt", kind: c25Range}}, 0, 0, false))
		}
	}
	// transparent compression over an fs.FS: a compressible file is read, compressed into memory and its handle closed
	// inside the handler call; an incompressible one is served (and cached under the gzip kind) like a plain file.
	cz := map[string]int{"s.txt": 300, "r.txt": 300}
	// (the stackless compressor adds a worker thread and dozens of blocking hand-offs: one request only, one bound step less)
	add("iofs-compress/compressible/full", 300, b-1, c25scn{fsKind: c25FSio, sizes: cz, compress: true, reqs: []c25req{{file: "s.txt"}}})
	add("iofs-compress/incompressible/early", 60, b-1, c25scn{fsKind: c25FSio, sizes: cz, compress: true, reqs: []c25req{{file: "r.txt", kind: c25Early, failAfter: 150}}})
	// mcx deals scenario i to worker i mod 16: heaviest first gives every worker a similar load
	idx := make([]int, len(scs))
	for i := range idx {
		idx[i] = i
	}
	sort.SliceStable(idx, func(a, b int) bool { return weights[idx[a]] > weights[idx[b]] })
	sorted := make([]mcx.Scenario, len(scs))
	for i, j := range idx {
		sorted[i] = scs[j]
	}
	r.Set("preemption_bound", fmt.Sprint(b))
	mcx.Run(r, sorted)
}
