// Package refs holds the reference models the checks compare fasthttp against. Every model is written from the
// specification the property names, shares no code with fasthttp, and is kept boring (slices, maps, strings).
package refs

import (
	"path"
	"strings"
)

func hexv(c byte) int {
	switch {
	case c >= '0' && c <= '9':
		return int(c - '0')
	case c >= 'a' && c <= 'f':
		return int(c-'a') + 10
	case c >= 'A' && c <= 'F':
		return int(c-'A') + 10
	}
	return -1
}

// PctDecode decodes every valid %XX triplet once and leaves anything else untouched ('+' is not special in paths).
func PctDecode(s string) string {
	var b strings.Builder
	for i := 0; i < len(s); i++ {
		if s[i] == '%' && i+2 < len(s) && hexv(s[i+1]) >= 0 && hexv(s[i+2]) >= 0 {
			b.WriteByte(byte(hexv(s[i+1])<<4 | hexv(s[i+2])))
			i += 2
			continue
		}
		b.WriteByte(s[i])
	}
	return b.String()
}

// CollapseSlashes replaces every run of '/' by one '/'.
func CollapseSlashes(s string) string {
	var b strings.Builder
	for i := 0; i < len(s); i++ {
		if s[i] == '/' && i > 0 && s[i-1] == '/' {
			continue
		}
		b.WriteByte(s[i])
	}
	return b.String()
}

// RemoveDotSegments is RFC 3986 section 5.2.4, transcribed step by step (input buffer / output buffer).
func RemoveDotSegments(in string) string {
	out := ""
	for len(in) > 0 {
		switch {
		case strings.HasPrefix(in, "../"): // A
			in = in[3:]
		case strings.HasPrefix(in, "./"):
			in = in[2:]
		case strings.HasPrefix(in, "/./"): // B
			in = in[2:]
		case in == "/.":
			in = "/"
		case strings.HasPrefix(in, "/../"): // C
			in = in[3:]
			if i := strings.LastIndexByte(out, '/'); i >= 0 {
				out = out[:i]
			} else {
				out = ""
			}
		case in == "/..":
			in = "/"
			if i := strings.LastIndexByte(out, '/'); i >= 0 {
				out = out[:i]
			} else {
				out = ""
			}
		case in == "." || in == "..": // D
			in = ""
		default: // E
			j := 0
			if in[0] == '/' {
				j = 1
			}
			k := strings.IndexByte(in[j:], '/')
			if k < 0 {
				out += in
				in = ""
			} else {
				out += in[:j+k]
				in = in[j+k:]
			}
		}
	}
	return out
}

// NormalPath is the statement of property C26: leading slash, percent-decode, collapse slashes, remove dot segments.
func NormalPath(raw string) string {
	p := raw
	if p == "" || p[0] != '/' {
		p = "/" + p
	}
	p = CollapseSlashes(PctDecode(p))
	return RemoveDotSegments(p)
}

// NormalPathClean is an independent second formulation through path.Clean, used to cross-validate NormalPath.
func NormalPathClean(raw string) string {
	p := raw
	if p == "" || p[0] != '/' {
		p = "/" + p
	}
	p = PctDecode(p)
	c := path.Clean(p)
	if c != "/" && (strings.HasSuffix(p, "/") || strings.HasSuffix(p, "/.") || strings.HasSuffix(p, "/..")) {
		c += "/"
	}
	return c
}
