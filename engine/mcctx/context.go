// Package context is the controlled stand-in for the standard context package inside rewritten sources: Context
// stays the real interface; only deadline-carrying constructors are replaced so that deadlines run on virtual time.
package context

import (
	rcontext "context"
	rtime "time"

	"github.com/valyala/fasthttp/internal/verif/mcrt"
)

type deadlineCtx struct {
	rcontext.Context // the cancel context: Done/Value
	deadline         rtime.Time
	timedOut         *bool
}

//go:norace
func (c *deadlineCtx) Deadline() (rtime.Time, bool) { return c.deadline, true }

//go:norace
func (c *deadlineCtx) Err() error {
	if e := c.Context.Err(); e != nil {
		if *c.timedOut {
			return rcontext.DeadlineExceeded
		}
		return e
	}
	return nil
}

//go:norace
func WithDeadline(parent Context, d rtime.Time) (Context, CancelFunc) {
	if mcrt.W() == nil {
		return rcontext.WithDeadline(parent, d)
	}
	inner, cancel := rcontext.WithCancel(parent)
	timedOut := false
	c := &deadlineCtx{Context: inner, deadline: d, timedOut: &timedOut}
	t := mcrt.AfterFunc(d.Sub(mcrt.Now()), func() {
		if inner.Err() == nil {
			timedOut = true
			cancel()
		}
	})
	return c, func() { t.Stop(); cancel() }
}

//go:norace
func WithTimeout(parent Context, d rtime.Duration) (Context, CancelFunc) {
	if mcrt.W() == nil {
		return rcontext.WithTimeout(parent, d)
	}
	return WithDeadline(parent, mcrt.Now().Add(d))
}
