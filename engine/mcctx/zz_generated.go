// Code generated from the exported API of package context; DO NOT EDIT.

package context

import rcontext "context"

var AfterFunc = rcontext.AfterFunc
var Background = rcontext.Background

type CancelCauseFunc = rcontext.CancelCauseFunc
type CancelFunc = rcontext.CancelFunc

var Canceled = rcontext.Canceled
var Cause = rcontext.Cause

type Context = rcontext.Context

var DeadlineExceeded = rcontext.DeadlineExceeded
var TODO = rcontext.TODO
var WithCancel = rcontext.WithCancel
var WithCancelCause = rcontext.WithCancelCause
var WithValue = rcontext.WithValue
var WithoutCancel = rcontext.WithoutCancel
