// Package atomic is the controlled stand-in for sync/atomic inside rewritten sources: every operation is a scheduling
// point followed by the real (sequentially consistent) operation on the same memory.
package atomic

import (
	ratomic "sync/atomic"
	"unsafe"

	"github.com/valyala/fasthttp/internal/verif/mcrt"
)

//go:norace
func pt(label string) {
	if w := mcrt.W(); w != nil && !w.Aborting() {
		w.Point(label, nil)
	}
}

//go:norace
func LoadInt32(p *int32) int32 { pt("atomic.load"); return ratomic.LoadInt32(p) }

//go:norace
func StoreInt32(p *int32, v int32) { pt("atomic.store"); ratomic.StoreInt32(p, v) }

//go:norace
func AddInt32(p *int32, d int32) int32 { pt("atomic.add"); return ratomic.AddInt32(p, d) }

//go:norace
func SwapInt32(p *int32, v int32) int32 { pt("atomic.swap"); return ratomic.SwapInt32(p, v) }

//go:norace
func CompareAndSwapInt32(p *int32, o, n int32) bool {
	pt("atomic.cas")
	return ratomic.CompareAndSwapInt32(p, o, n)
}

//go:norace
func LoadInt64(p *int64) int64 { pt("atomic.load"); return ratomic.LoadInt64(p) }

//go:norace
func StoreInt64(p *int64, v int64) { pt("atomic.store"); ratomic.StoreInt64(p, v) }

//go:norace
func AddInt64(p *int64, d int64) int64 { pt("atomic.add"); return ratomic.AddInt64(p, d) }

//go:norace
func SwapInt64(p *int64, v int64) int64 { pt("atomic.swap"); return ratomic.SwapInt64(p, v) }

//go:norace
func CompareAndSwapInt64(p *int64, o, n int64) bool {
	pt("atomic.cas")
	return ratomic.CompareAndSwapInt64(p, o, n)
}

//go:norace
func LoadUint32(p *uint32) uint32 { pt("atomic.load"); return ratomic.LoadUint32(p) }

//go:norace
func StoreUint32(p *uint32, v uint32) { pt("atomic.store"); ratomic.StoreUint32(p, v) }

//go:norace
func AddUint32(p *uint32, d uint32) uint32 { pt("atomic.add"); return ratomic.AddUint32(p, d) }

//go:norace
func SwapUint32(p *uint32, v uint32) uint32 { pt("atomic.swap"); return ratomic.SwapUint32(p, v) }

//go:norace
func CompareAndSwapUint32(p *uint32, o, n uint32) bool {
	pt("atomic.cas")
	return ratomic.CompareAndSwapUint32(p, o, n)
}

//go:norace
func LoadUint64(p *uint64) uint64 { pt("atomic.load"); return ratomic.LoadUint64(p) }

//go:norace
func StoreUint64(p *uint64, v uint64) { pt("atomic.store"); ratomic.StoreUint64(p, v) }

//go:norace
func AddUint64(p *uint64, d uint64) uint64 { pt("atomic.add"); return ratomic.AddUint64(p, d) }

//go:norace
func SwapUint64(p *uint64, v uint64) uint64 { pt("atomic.swap"); return ratomic.SwapUint64(p, v) }

//go:norace
func CompareAndSwapUint64(p *uint64, o, n uint64) bool {
	pt("atomic.cas")
	return ratomic.CompareAndSwapUint64(p, o, n)
}

//go:norace
func LoadUintptr(p *uintptr) uintptr { pt("atomic.load"); return ratomic.LoadUintptr(p) }

//go:norace
func StoreUintptr(p *uintptr, v uintptr) { pt("atomic.store"); ratomic.StoreUintptr(p, v) }

//go:norace
func AddUintptr(p *uintptr, d uintptr) uintptr { pt("atomic.add"); return ratomic.AddUintptr(p, d) }

//go:norace
func SwapUintptr(p *uintptr, v uintptr) uintptr { pt("atomic.swap"); return ratomic.SwapUintptr(p, v) }

//go:norace
func CompareAndSwapUintptr(p *uintptr, o, n uintptr) bool {
	pt("atomic.cas")
	return ratomic.CompareAndSwapUintptr(p, o, n)
}

//go:norace
func LoadPointer(p *unsafe.Pointer) unsafe.Pointer { pt("atomic.load"); return ratomic.LoadPointer(p) }

//go:norace
func StorePointer(p *unsafe.Pointer, v unsafe.Pointer) {
	pt("atomic.store")
	ratomic.StorePointer(p, v)
}

//go:norace
func SwapPointer(p *unsafe.Pointer, v unsafe.Pointer) unsafe.Pointer {
	pt("atomic.swap")
	return ratomic.SwapPointer(p, v)
}

//go:norace
func CompareAndSwapPointer(p *unsafe.Pointer, o, n unsafe.Pointer) bool {
	pt("atomic.cas")
	return ratomic.CompareAndSwapPointer(p, o, n)
}

// epoch handling for typed atomics: a package-level typed atomic last used in an earlier execution is reset.
type es struct{ ep uint64 }

//go:norace
func (e *es) stale() bool {
	w := mcrt.W()
	if w == nil {
		return false
	}
	ep := w.Epoch()
	if e.ep == ep {
		return false
	}
	old := e.ep
	e.ep = ep
	return old != 0
}

type Int32 struct {
	v ratomic.Int32
	e es
}

//go:norace
func (x *Int32) sync() {
	if x.e.stale() {
		x.v.Store(0)
	}
}

//go:norace
func (x *Int32) Load() int32 { x.sync(); pt("atomic.load"); return x.v.Load() }

//go:norace
func (x *Int32) Store(v int32) { x.sync(); pt("atomic.store"); x.v.Store(v) }

//go:norace
func (x *Int32) Add(d int32) int32 { x.sync(); pt("atomic.add"); return x.v.Add(d) }

//go:norace
func (x *Int32) Swap(v int32) int32 { x.sync(); pt("atomic.swap"); return x.v.Swap(v) }

//go:norace
func (x *Int32) CompareAndSwap(o, n int32) bool {
	x.sync()
	pt("atomic.cas")
	return x.v.CompareAndSwap(o, n)
}

type Int64 struct {
	v ratomic.Int64
	e es
}

//go:norace
func (x *Int64) sync() {
	if x.e.stale() {
		x.v.Store(0)
	}
}

//go:norace
func (x *Int64) Load() int64 { x.sync(); pt("atomic.load"); return x.v.Load() }

//go:norace
func (x *Int64) Store(v int64) { x.sync(); pt("atomic.store"); x.v.Store(v) }

//go:norace
func (x *Int64) Add(d int64) int64 { x.sync(); pt("atomic.add"); return x.v.Add(d) }

//go:norace
func (x *Int64) Swap(v int64) int64 { x.sync(); pt("atomic.swap"); return x.v.Swap(v) }

//go:norace
func (x *Int64) CompareAndSwap(o, n int64) bool {
	x.sync()
	pt("atomic.cas")
	return x.v.CompareAndSwap(o, n)
}

type Uint32 struct {
	v ratomic.Uint32
	e es
}

//go:norace
func (x *Uint32) sync() {
	if x.e.stale() {
		x.v.Store(0)
	}
}

//go:norace
func (x *Uint32) Load() uint32 { x.sync(); pt("atomic.load"); return x.v.Load() }

//go:norace
func (x *Uint32) Store(v uint32) { x.sync(); pt("atomic.store"); x.v.Store(v) }

//go:norace
func (x *Uint32) Add(d uint32) uint32 { x.sync(); pt("atomic.add"); return x.v.Add(d) }

//go:norace
func (x *Uint32) Swap(v uint32) uint32 { x.sync(); pt("atomic.swap"); return x.v.Swap(v) }

//go:norace
func (x *Uint32) CompareAndSwap(o, n uint32) bool {
	x.sync()
	pt("atomic.cas")
	return x.v.CompareAndSwap(o, n)
}

type Uint64 struct {
	v ratomic.Uint64
	e es
}

//go:norace
func (x *Uint64) sync() {
	if x.e.stale() {
		x.v.Store(0)
	}
}

//go:norace
func (x *Uint64) Load() uint64 { x.sync(); pt("atomic.load"); return x.v.Load() }

//go:norace
func (x *Uint64) Store(v uint64) { x.sync(); pt("atomic.store"); x.v.Store(v) }

//go:norace
func (x *Uint64) Add(d uint64) uint64 { x.sync(); pt("atomic.add"); return x.v.Add(d) }

//go:norace
func (x *Uint64) Swap(v uint64) uint64 { x.sync(); pt("atomic.swap"); return x.v.Swap(v) }

//go:norace
func (x *Uint64) CompareAndSwap(o, n uint64) bool {
	x.sync()
	pt("atomic.cas")
	return x.v.CompareAndSwap(o, n)
}

type Bool struct {
	v ratomic.Bool
	e es
}

//go:norace
func (x *Bool) sync() {
	if x.e.stale() {
		x.v.Store(false)
	}
}

//go:norace
func (x *Bool) Load() bool { x.sync(); pt("atomic.load"); return x.v.Load() }

//go:norace
func (x *Bool) Store(v bool) { x.sync(); pt("atomic.store"); x.v.Store(v) }

//go:norace
func (x *Bool) Swap(v bool) bool { x.sync(); pt("atomic.swap"); return x.v.Swap(v) }

//go:norace
func (x *Bool) CompareAndSwap(o, n bool) bool {
	x.sync()
	pt("atomic.cas")
	return x.v.CompareAndSwap(o, n)
}

type Pointer[T any] struct {
	v ratomic.Pointer[T]
	e es
}

//go:norace
func (x *Pointer[T]) sync() {
	if x.e.stale() {
		x.v.Store(nil)
	}
}

//go:norace
func (x *Pointer[T]) Load() *T { x.sync(); pt("atomic.load"); return x.v.Load() }

//go:norace
func (x *Pointer[T]) Store(v *T) { x.sync(); pt("atomic.store"); x.v.Store(v) }

//go:norace
func (x *Pointer[T]) Swap(v *T) *T { x.sync(); pt("atomic.swap"); return x.v.Swap(v) }

//go:norace
func (x *Pointer[T]) CompareAndSwap(o, n *T) bool {
	x.sync()
	pt("atomic.cas")
	return x.v.CompareAndSwap(o, n)
}

type Value struct {
	v ratomic.Value
}

//go:norace
func (x *Value) Load() any { pt("atomic.load"); return x.v.Load() }

//go:norace
func (x *Value) Store(v any) { pt("atomic.store"); x.v.Store(v) }

//go:norace
func (x *Value) Swap(v any) any { pt("atomic.swap"); return x.v.Swap(v) }

//go:norace
func (x *Value) CompareAndSwap(o, n any) bool { pt("atomic.cas"); return x.v.CompareAndSwap(o, n) }
