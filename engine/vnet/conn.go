// Package vnet provides scripted in-memory network objects for the sequential checks: a net.Conn whose input is a
// byte script with explicit read boundaries and whose every operation is logged, so that "the server kept the
// connection open" is observable as "the server issued another Read after its response".
package vnet

import (
	"bytes"
	"errors"
	"io"
	"net"
	"sync"
	"time"
)

// Event is one operation the code under test performed on the connection.
type Event struct {
	Op   string // "read", "write", "close", "deadline", "rdeadline", "wdeadline"
	N    int    // bytes returned by the read / accepted by the write
	Data []byte // written bytes (writes) or returned bytes (reads)
	Err  string // error returned, if any
	Out  int    // number of bytes written so far (before this event)
}

// Conn is a scripted connection. Reads return the script chunk by chunk (one chunk per Read, further split when the
// caller's buffer is smaller); after the last chunk Read returns AtEnd (io.EOF by default). Not safe for use by
// concurrent goroutines except that Close may race with nothing else.
type Conn struct {
	mu            sync.Mutex
	Chunks        [][]byte // remaining input
	AtEnd         error    // error for reads after the script is exhausted (default io.EOF); ErrBlock marks "would block forever"
	WriteErrAt    int      // if >0: writes fail once this many bytes were accepted
	WriteErr      error
	Events        []Event
	Out           bytes.Buffer
	Closed        int
	Local, Remote net.Addr
	ReadsAfterEnd int           // reads issued when the script was exhausted
	OnRead        func(c *Conn) // optional hook called (unlocked) before each Read is served
}

// ErrBlock is returned by Read when the script is exhausted and AtEnd == ErrBlock: it stands for a client that keeps
// the connection open without sending; the code under test sees it as a timeout-like error (net.Error, Timeout()).
var ErrBlock error = &timeoutErr{}

type timeoutErr struct{}

func (*timeoutErr) Error() string   { return "vnet: no more input (client is silent)" }
func (*timeoutErr) Timeout() bool   { return true }
func (*timeoutErr) Temporary() bool { return true }

type Addr struct{ Net, Str string }

func (a Addr) Network() string { return a.Net }
func (a Addr) String() string  { return a.Str }

// NewConn makes a connection whose input is delivered in the given chunks.
func NewConn(chunks ...[]byte) *Conn {
	c := &Conn{AtEnd: io.EOF, Local: &net.TCPAddr{IP: net.IPv4(127, 0, 0, 1), Port: 80}, Remote: &net.TCPAddr{IP: net.IPv4(10, 0, 0, 1), Port: 12345}}
	for _, ch := range chunks {
		if len(ch) > 0 {
			c.Chunks = append(c.Chunks, ch)
		}
	}
	return c
}

// Split cuts b at the given ascending offsets.
func Split(b []byte, offs ...int) [][]byte {
	var out [][]byte
	prev := 0
	for _, o := range offs {
		if o > prev && o < len(b) {
			out = append(out, b[prev:o])
			prev = o
		}
	}
	return append(out, b[prev:])
}

// Dribble cuts b into n-byte pieces.
func Dribble(b []byte, n int) [][]byte {
	var out [][]byte
	for len(b) > n {
		out = append(out, b[:n])
		b = b[n:]
	}
	return append(out, b)
}

func (c *Conn) Read(p []byte) (int, error) {
	if c.OnRead != nil {
		c.OnRead(c)
	}
	c.mu.Lock()
	defer c.mu.Unlock()
	if c.Closed > 0 {
		c.Events = append(c.Events, Event{Op: "read", Err: "closed", Out: c.Out.Len()})
		return 0, net.ErrClosed
	}
	if len(p) == 0 {
		return 0, nil
	}
	if len(c.Chunks) == 0 {
		c.ReadsAfterEnd++
		e := c.AtEnd
		if e == nil {
			e = io.EOF
		}
		c.Events = append(c.Events, Event{Op: "read", Err: e.Error(), Out: c.Out.Len()})
		return 0, e
	}
	n := copy(p, c.Chunks[0])
	if n == len(c.Chunks[0]) {
		c.Chunks = c.Chunks[1:]
	} else {
		c.Chunks[0] = c.Chunks[0][n:]
	}
	c.Events = append(c.Events, Event{Op: "read", N: n, Data: append([]byte(nil), p[:n]...), Out: c.Out.Len()})
	return n, nil
}

func (c *Conn) Write(p []byte) (int, error) {
	c.mu.Lock()
	defer c.mu.Unlock()
	if c.Closed > 0 {
		c.Events = append(c.Events, Event{Op: "write", Err: "closed", Out: c.Out.Len()})
		return 0, net.ErrClosed
	}
	n := len(p)
	var err error
	if c.WriteErrAt > 0 && c.Out.Len()+n > c.WriteErrAt {
		n = c.WriteErrAt - c.Out.Len()
		if n < 0 {
			n = 0
		}
		err = c.WriteErr
		if err == nil {
			err = errors.New("vnet: injected write error")
		}
	}
	ev := Event{Op: "write", N: n, Data: append([]byte(nil), p[:n]...), Out: c.Out.Len()}
	if err != nil {
		ev.Err = err.Error()
	}
	c.Out.Write(p[:n])
	c.Events = append(c.Events, ev)
	return n, err
}

func (c *Conn) Close() error {
	c.mu.Lock()
	defer c.mu.Unlock()
	c.Closed++
	c.Events = append(c.Events, Event{Op: "close", Out: c.Out.Len()})
	return nil
}

func (c *Conn) LocalAddr() net.Addr  { return c.Local }
func (c *Conn) RemoteAddr() net.Addr { return c.Remote }
func (c *Conn) SetDeadline(t time.Time) error {
	c.mu.Lock()
	c.Events = append(c.Events, Event{Op: "deadline", Out: c.Out.Len()})
	c.mu.Unlock()
	return nil
}
func (c *Conn) SetReadDeadline(t time.Time) error {
	c.mu.Lock()
	c.Events = append(c.Events, Event{Op: "rdeadline", Out: c.Out.Len()})
	c.mu.Unlock()
	return nil
}
func (c *Conn) SetWriteDeadline(t time.Time) error {
	c.mu.Lock()
	c.Events = append(c.Events, Event{Op: "wdeadline", Out: c.Out.Len()})
	c.mu.Unlock()
	return nil
}

// Consumed returns how many input bytes the code under test has read so far.
func (c *Conn) Consumed() int {
	c.mu.Lock()
	defer c.mu.Unlock()
	n := 0
	for _, e := range c.Events {
		if e.Op == "read" {
			n += e.N
		}
	}
	return n
}

// Output returns everything written so far.
func (c *Conn) Output() []byte {
	c.mu.Lock()
	defer c.mu.Unlock()
	return append([]byte(nil), c.Out.Bytes()...)
}

// ReadAfterLastWrite reports whether a Read (successful or not) was issued after the last byte was written: the
// observable meaning of "the server kept the connection open and waits for another request".
func (c *Conn) ReadAfterLastWrite() bool {
	c.mu.Lock()
	defer c.mu.Unlock()
	for i := len(c.Events) - 1; i >= 0; i-- {
		switch c.Events[i].Op {
		case "write":
			return false
		case "read":
			if c.Events[i].Err != "closed" {
				return true
			}
		}
	}
	return false
}
