// mcgen rewrites the non-test sources of the repository's concurrent packages so that every synchronisation
// operation goes through the controlled runtime (engine/mcrt), and writes a `go build -overlay` file mapping each
// original path to its rewritten copy. Nothing under the repository is modified.
//
// Rules (purely mechanical; anything else is copied verbatim):
//
//	imports   "sync" "sync/atomic" "time" "context"  ->  the shim packages of the same package name
//	go f(x)                         ->  { a0 := x; mcrt.Go(func() { f(a0) }) }      (operands evaluated first, as in Go)
//	ch <- v                         ->  mcrt.Send(ch, v)
//	<-ch                            ->  mcrt.Recv(ch)          v, ok := <-ch  ->  v, ok := mcrt.Recv2(ch)
//	close(ch)                       ->  mcrt.Close(ch)
//	select { ... }                  ->  { c0 := mcrt.RecvCase(ch) ...; switch mcrt.Select(hasDefault, c0, ...) { case 0: ... } }
//	for v := range ch { ... }       ->  for { v, ok := mcrt.Recv2(ch); if !ok { break }; ... }   (needs go/types: only channel operands)
//	named scale constants listed in -params  ->  mcrt.Param("name", original)
//
// A construct outside the rule set aborts generation with file:line (exit 1).
package main

import (
	"bytes"
	"encoding/json"
	"flag"
	"fmt"
	"go/ast"
	"go/format"
	"go/importer"
	"go/parser"
	"go/token"
	"go/types"
	"io"
	"os"
	"os/exec"
	"path/filepath"
	"reflect"
	"strconv"
	"strings"
)

const modPath = "github.com/valyala/fasthttp"

var shimOf = map[string]string{
	"sync":        modPath + "/internal/verif/mcsync",
	"sync/atomic": modPath + "/internal/verif/mcatomic",
	"time":        modPath + "/internal/verif/mctime",
	"context":     modPath + "/internal/verif/mcctx",
}

const mcrtPath = modPath + "/internal/verif/mcrt"

type listPkg struct {
	ImportPath string
	Dir        string
	Export     string
	GoFiles    []string
	Standard   bool
}

func fatalf(format string, a ...any) {
	fmt.Fprintf(os.Stderr, "mcgen: "+format+"\n", a...)
	os.Exit(1)
}

func main() {
	repo := flag.String("repo", "/repo", "repository root")
	out := flag.String("out", "", "output directory")
	gobin := flag.String("go", "go", "go binary")
	srcmapF := flag.String("srcmap", "", "json map original path -> alternative source (mutants)")
	pkgsF := flag.String("pkgs", ".,fasthttputil,stackless,prefork", "packages (relative dirs) to rewrite")
	paramsF := flag.String("params", "", "comma separated pkgdir:ConstName scale constants to parameterise")
	substF := flag.String("subst", "", "json file: per package dir, selector substitutions (seams) {\"dir\": {\"imports\": {alias: path}, \"selectors\": {\"pkg.Name\": \"alias.Name\"}}}")
	flag.Parse()
	if *out == "" {
		fatalf("-out required")
	}
	srcmap := map[string]string{}
	if *srcmapF != "" {
		b, err := os.ReadFile(*srcmapF)
		if err != nil {
			fatalf("%v", err)
		}
		if err := json.Unmarshal(b, &srcmap); err != nil {
			fatalf("%v", err)
		}
	}
	params := map[string]bool{}
	paramTypes := map[string]string{}
	for _, p := range strings.Split(*paramsF, ",") {
		if p == "" {
			continue
		}
		// pkg:Name[=type] or pkg:lit:VALUE
		if i := strings.IndexByte(p, '='); i >= 0 {
			paramTypes[p[:i]] = p[i+1:]
			p = p[:i]
		}
		params[p] = true
	}
	subst := map[string]*substSpec{}
	if *substF != "" {
		b, err := os.ReadFile(*substF)
		if err != nil {
			fatalf("%v", err)
		}
		if err := json.Unmarshal(b, &subst); err != nil {
			fatalf("subst: %v", err)
		}
	}
	rels := strings.Split(*pkgsF, ",")
	var args []string
	for _, r := range rels {
		args = append(args, "./"+r)
	}
	// export data of every dependency, and the file lists of the target packages, from the build system itself
	cmd := exec.Command(*gobin, append([]string{"list", "-export", "-deps", "-json=ImportPath,Dir,Export,GoFiles,Standard"}, args...)...)
	cmd.Dir = *repo
	cmd.Stderr = os.Stderr
	outb, err := cmd.Output()
	if err != nil {
		fatalf("go list failed: %v", err)
	}
	exports := map[string]string{}
	targets := map[string]*listPkg{}
	dec := json.NewDecoder(bytes.NewReader(outb))
	for dec.More() {
		var p listPkg
		if err := dec.Decode(&p); err != nil {
			fatalf("go list json: %v", err)
		}
		exports[p.ImportPath] = p.Export
		for _, r := range rels {
			ip := modPath
			if r != "." {
				ip = modPath + "/" + r
			}
			if p.ImportPath == ip {
				pp := p
				targets[r] = &pp
			}
		}
	}
	fset := token.NewFileSet()
	imp := importer.ForCompiler(fset, "gc", func(path string) (io.ReadCloser, error) {
		e := exports[path]
		if e == "" {
			return nil, fmt.Errorf("no export data for %s", path)
		}
		return os.Open(e)
	})
	os.RemoveAll(*out)
	overlay := map[string]string{}
	for _, r := range rels {
		tp := targets[r]
		if tp == nil {
			fatalf("package %s not found by go list", r)
		}
		var files []*ast.File
		var names []string
		for _, f := range tp.GoFiles {
			orig := filepath.Join(tp.Dir, f)
			src := orig
			if alt, ok := srcmap[orig]; ok {
				src = alt
			}
			af, err := parser.ParseFile(fset, src, nil, parser.SkipObjectResolution)
			if err != nil {
				fatalf("parse %s: %v", src, err)
			}
			files = append(files, af)
			names = append(names, orig)
		}
		info := &types.Info{Types: map[ast.Expr]types.TypeAndValue{}}
		conf := types.Config{Importer: imp, Error: func(err error) {}}
		if _, err := conf.Check(tp.ImportPath, fset, files, info); err != nil {
			// type errors make channel-range detection unreliable: refuse
			fatalf("type-check of %s failed: %v", tp.ImportPath, err)
		}
		for i, af := range files {
			rw := &rewriter{fset: fset, info: info, file: af, pkgRel: r, params: params, paramTypes: paramTypes, subst: subst[r]}
			rw.rewriteFile()
			var buf bytes.Buffer
			if err := format.Node(&buf, fset, af); err != nil {
				fatalf("print %s: %v", names[i], err)
			}
			dst := filepath.Join(*out, r, filepath.Base(names[i]))
			os.MkdirAll(filepath.Dir(dst), 0o755)
			hdr := fmt.Sprintf("// Code generated by mcgen from %s; DO NOT EDIT.\n\n", names[i])
			if err := os.WriteFile(dst, append([]byte(hdr), buf.Bytes()...), 0o644); err != nil {
				fatalf("%v", err)
			}
			overlay[names[i]] = dst
		}
	}
	b, _ := json.MarshalIndent(map[string]any{"Replace": overlay}, "", " ")
	if err := os.WriteFile(filepath.Join(*out, "overlay.json"), b, 0o644); err != nil {
		fatalf("%v", err)
	}
}

// substSpec lists the seams of one package: selector expressions on imported packages that are redirected to a
// harness-controlled stand-in (dialers, child processes, ...).
type substSpec struct {
	Imports   map[string]string `json:"imports"`
	Selectors map[string]string `json:"selectors"`
}

type rewriter struct {
	subst      *substSpec
	usedSeams  map[string]bool
	fset       *token.FileSet
	info       *types.Info
	file       *ast.File
	pkgRel     string
	params     map[string]bool
	paramTypes map[string]string
	n          int
	useMcrt    bool
}

func (rw *rewriter) pos(n ast.Node) string { return rw.fset.Position(n.Pos()).String() }

func (rw *rewriter) tmp(prefix string) *ast.Ident {
	rw.n++
	return ast.NewIdent(fmt.Sprintf("_mc%s%d", prefix, rw.n))
}

func (rw *rewriter) mcrt(name string, args ...ast.Expr) *ast.CallExpr {
	rw.useMcrt = true
	return &ast.CallExpr{Fun: &ast.SelectorExpr{X: ast.NewIdent("_mcrt"), Sel: ast.NewIdent(name)}, Args: args}
}

func (rw *rewriter) rewriteFile() {
	f := rw.file
	f.Comments = nil // positions no longer match; directives are not used by the rewritten packages
	f.Doc = nil
	for _, d := range f.Decls {
		clearDocs(d)
	}
	for _, im := range f.Imports {
		p, _ := strconv.Unquote(im.Path.Value)
		if shim, ok := shimOf[p]; ok {
			im.Path.Value = strconv.Quote(shim)
			im.Path.ValuePos = token.NoPos
		}
	}
	// scale constants
	for _, d := range f.Decls {
		gd, ok := d.(*ast.GenDecl)
		if !ok || gd.Tok != token.CONST {
			continue
		}
		var keep []ast.Spec
		var moved []ast.Spec
		for _, s := range gd.Specs {
			vs := s.(*ast.ValueSpec)
			if len(vs.Names) == 1 && rw.params[rw.pkgRel+":"+vs.Names[0].Name] && len(vs.Values) == 1 {
				var e ast.Expr = rw.mcrt("Param", &ast.BasicLit{Kind: token.STRING, Value: strconv.Quote(rw.pkgRel + ":" + vs.Names[0].Name)}, vs.Values[0])
				if typ := rw.paramTypes[rw.pkgRel+":"+vs.Names[0].Name]; typ != "" {
					e = &ast.CallExpr{Fun: ast.NewIdent(typ), Args: []ast.Expr{e}}
				}
				vs.Values[0] = e
				moved = append(moved, vs)
			} else {
				keep = append(keep, s)
			}
		}
		if len(moved) > 0 {
			gd.Specs = keep
			f.Decls = append(f.Decls, &ast.GenDecl{Tok: token.VAR, Specs: moved, Lparen: 1, Rparen: 1})
		}
	}
	for i, d := range f.Decls {
		f.Decls[i] = rw.apply(d).(ast.Decl)
	}
	// drop const decls that became empty
	var decls []ast.Decl
	for _, d := range f.Decls {
		if gd, ok := d.(*ast.GenDecl); ok && len(gd.Specs) == 0 && gd.Tok != token.IMPORT {
			continue
		}
		decls = append(decls, d)
	}
	f.Decls = decls
	if len(rw.usedSeams) > 0 {
		for alias := range rw.usedSeams {
			path, ok := rw.subst.Imports[alias]
			if !ok {
				fatalf("subst: no import path for alias %s", alias)
			}
			spec := &ast.ImportSpec{Name: ast.NewIdent(alias), Path: &ast.BasicLit{Kind: token.STRING, Value: strconv.Quote(path)}}
			f.Decls = append([]ast.Decl{&ast.GenDecl{Tok: token.IMPORT, Specs: []ast.Spec{spec}}}, f.Decls...)
			f.Imports = append(f.Imports, spec)
		}
		rw.dropUnusedImports()
	}
	if rw.useMcrt {
		spec := &ast.ImportSpec{Name: ast.NewIdent("_mcrt"), Path: &ast.BasicLit{Kind: token.STRING, Value: strconv.Quote(mcrtPath)}}
		gd := &ast.GenDecl{Tok: token.IMPORT, Specs: []ast.Spec{spec}}
		f.Decls = append([]ast.Decl{gd}, f.Decls...)
		f.Imports = append(f.Imports, spec)
	}
}

func clearDocs(n ast.Node) {
	ast.Inspect(n, func(x ast.Node) bool {
		switch v := x.(type) {
		case *ast.GenDecl:
			v.Doc = nil
		case *ast.FuncDecl:
			v.Doc = nil
		case *ast.ValueSpec:
			v.Doc, v.Comment = nil, nil
		case *ast.TypeSpec:
			v.Doc, v.Comment = nil, nil
		case *ast.Field:
			v.Doc, v.Comment = nil, nil
		case *ast.ImportSpec:
			v.Doc, v.Comment = nil, nil
		}
		return true
	})
}

var nodeType = reflect.TypeOf((*ast.Node)(nil)).Elem()

// apply rewrites n bottom-up and returns its replacement.
func (rw *rewriter) apply(n ast.Node) ast.Node {
	if n == nil || reflect.ValueOf(n).IsNil() {
		return n
	}
	// constructs that must be seen before their children are rewritten
	switch v := n.(type) {
	case *ast.SelectStmt:
		return rw.selectStmt(v, nil)
	case *ast.LabeledStmt:
		if s, ok := v.Stmt.(*ast.SelectStmt); ok {
			return rw.selectStmt(s, v.Label)
		}
		if rs, ok := v.Stmt.(*ast.RangeStmt); ok {
			if tv, ok := rw.info.Types[rs.X]; ok {
				if _, isMap := tv.Type.Underlying().(*types.Map); isMap {
					blk := rw.rangeMap(rs).(*ast.BlockStmt)
					last := len(blk.List) - 1
					blk.List[last] = &ast.LabeledStmt{Label: v.Label, Stmt: blk.List[last]}
					return blk
				}
			}
		}
	case *ast.RangeStmt:
		if tv, ok := rw.info.Types[v.X]; ok {
			if _, isChan := tv.Type.Underlying().(*types.Chan); isChan {
				return rw.rangeChan(v)
			}
			if _, isMap := tv.Type.Underlying().(*types.Map); isMap {
				return rw.rangeMap(v)
			}
		} else {
			fatalf("%s: no type information for range operand", rw.pos(v))
		}
	case *ast.AssignStmt:
		if len(v.Lhs) == 2 && len(v.Rhs) == 1 {
			if u, ok := v.Rhs[0].(*ast.UnaryExpr); ok && u.Op == token.ARROW {
				v.Rhs[0] = rw.mcrt("Recv2", rw.apply(u.X).(ast.Expr))
				for i := range v.Lhs {
					v.Lhs[i] = rw.apply(v.Lhs[i]).(ast.Expr)
				}
				return v
			}
		}
	case *ast.ValueSpec:
		if len(v.Names) == 2 && len(v.Values) == 1 {
			if u, ok := v.Values[0].(*ast.UnaryExpr); ok && u.Op == token.ARROW {
				v.Values[0] = rw.mcrt("Recv2", rw.apply(u.X).(ast.Expr))
				return v
			}
		}
	case *ast.GoStmt:
		return rw.goStmt(v)
	}
	rw.children(n)
	switch v := n.(type) {
	case *ast.SendStmt:
		return &ast.ExprStmt{X: rw.mcrt("Send", v.Chan, v.Value)}
	case *ast.UnaryExpr:
		if v.Op == token.ARROW {
			return rw.mcrt("Recv", v.X)
		}
	case *ast.CallExpr:
		if id, ok := v.Fun.(*ast.Ident); ok && id.Name == "close" && len(v.Args) == 1 {
			return rw.mcrt("Close", v.Args[0])
		}
	case *ast.SelectorExpr:
		if rw.subst != nil {
			if id, ok := v.X.(*ast.Ident); ok {
				if to, ok := rw.subst.Selectors[id.Name+"."+v.Sel.Name]; ok {
					if tv, known := rw.info.Types[v.X]; !known || !tv.IsValue() { // X is a package name, not a variable
						parts := strings.SplitN(to, ".", 2)
						if rw.usedSeams == nil {
							rw.usedSeams = map[string]bool{}
						}
						rw.usedSeams[parts[0]] = true
						return &ast.SelectorExpr{X: ast.NewIdent(parts[0]), Sel: ast.NewIdent(parts[1])}
					}
				}
			}
		}
	case *ast.IndexExpr:
		if tv, ok := rw.info.Types[v.X]; ok && tv.IsValue() {
			if mt, isMap := tv.Type.Underlying().(*types.Map); isMap {
				if _, basic := mt.Key().Underlying().(*types.Basic); !basic {
					v.Index = rw.mcrt("Key", v.Index)
				}
			}
		}
	case *ast.BasicLit:
		if v.Kind == token.INT && rw.params[rw.pkgRel+":lit:"+v.Value] {
			return rw.mcrt("Param", &ast.BasicLit{Kind: token.STRING, Value: strconv.Quote(rw.pkgRel + ":lit:" + v.Value)}, &ast.BasicLit{Kind: token.INT, Value: v.Value})
		}
	}
	return n
}

// children applies the rewriter to every child node of n in place.
func (rw *rewriter) children(n ast.Node) {
	v := reflect.ValueOf(n).Elem()
	if v.Kind() != reflect.Struct {
		return
	}
	for i := 0; i < v.NumField(); i++ {
		f := v.Field(i)
		switch f.Kind() {
		case reflect.Interface, reflect.Ptr:
			if f.IsNil() || !f.Type().Implements(nodeType) {
				continue
			}
			if _, isObj := f.Interface().(*ast.Object); isObj {
				continue
			}
			if _, isScope := f.Interface().(*ast.Scope); isScope {
				continue
			}
			child := f.Interface().(ast.Node)
			nc := rw.apply(child)
			if nc != child {
				nv := reflect.ValueOf(nc)
				if !nv.Type().AssignableTo(f.Type()) {
					fatalf("%s: rewritten %T not assignable to field %s of %T", rw.pos(n), nc, v.Type().Field(i).Name, n)
				}
				f.Set(nv)
			}
		case reflect.Slice:
			if !f.Type().Elem().Implements(nodeType) {
				continue
			}
			for j := 0; j < f.Len(); j++ {
				e := f.Index(j)
				if e.IsNil() {
					continue
				}
				child := e.Interface().(ast.Node)
				nc := rw.apply(child)
				if nc != child {
					nv := reflect.ValueOf(nc)
					if !nv.Type().AssignableTo(e.Type()) {
						fatalf("%s: rewritten %T not assignable to element of %s of %T", rw.pos(n), nc, v.Type().Field(i).Name, n)
					}
					e.Set(nv)
				}
			}
		}
	}
}

func (rw *rewriter) goStmt(g *ast.GoStmt) ast.Node {
	call := g.Call
	if fl, ok := call.Fun.(*ast.FuncLit); ok && len(call.Args) == 0 {
		return &ast.ExprStmt{X: rw.mcrt("Go", rw.apply(fl).(ast.Expr))}
	}
	var stmts []ast.Stmt
	var fun ast.Expr
	if fl, ok := call.Fun.(*ast.FuncLit); ok {
		fun = &ast.ParenExpr{X: rw.apply(fl).(ast.Expr)}
	} else {
		fv := rw.tmp("f")
		stmts = append(stmts, &ast.AssignStmt{Lhs: []ast.Expr{fv}, Tok: token.DEFINE, Rhs: []ast.Expr{rw.apply(call.Fun).(ast.Expr)}})
		fun = fv
	}
	var args []ast.Expr
	for _, a := range call.Args {
		switch x := a.(type) {
		case *ast.BasicLit:
			args = append(args, x)
			continue
		case *ast.Ident:
			if x.Name == "nil" || x.Name == "true" || x.Name == "false" {
				args = append(args, x)
				continue
			}
		}
		if tv, ok := rw.info.Types[a]; ok && tv.Value != nil {
			args = append(args, a) // constant expression: no evaluation order to preserve
			continue
		}
		av := rw.tmp("a")
		stmts = append(stmts, &ast.AssignStmt{Lhs: []ast.Expr{av}, Tok: token.DEFINE, Rhs: []ast.Expr{rw.apply(a).(ast.Expr)}})
		args = append(args, av)
	}
	inner := &ast.CallExpr{Fun: fun, Args: args, Ellipsis: call.Ellipsis}
	lit := &ast.FuncLit{Type: &ast.FuncType{Params: &ast.FieldList{}}, Body: &ast.BlockStmt{List: []ast.Stmt{&ast.ExprStmt{X: inner}}}}
	stmts = append(stmts, &ast.ExprStmt{X: rw.mcrt("Go", lit)})
	return &ast.BlockStmt{List: stmts}
}

func (rw *rewriter) rangeChan(r *ast.RangeStmt) ast.Node {
	if r.Value != nil {
		fatalf("%s: range over channel with two variables", rw.pos(r))
	}
	ok := rw.tmp("ok")
	var lhs ast.Expr = ast.NewIdent("_")
	tok := token.DEFINE
	if r.Key != nil {
		lhs = r.Key
		tok = r.Tok
	}
	recv := &ast.AssignStmt{Lhs: []ast.Expr{lhs, ok}, Tok: token.DEFINE, Rhs: []ast.Expr{rw.mcrt("Recv2", rw.apply(r.X).(ast.Expr))}}
	var pre []ast.Stmt
	if tok == token.ASSIGN {
		// for x = range ch: x is an existing variable
		okDecl := &ast.DeclStmt{Decl: &ast.GenDecl{Tok: token.VAR, Specs: []ast.Spec{&ast.ValueSpec{Names: []*ast.Ident{ok}, Type: ast.NewIdent("bool")}}}}
		pre = append(pre, okDecl)
		recv.Tok = token.ASSIGN
	}
	brk := &ast.IfStmt{Cond: &ast.UnaryExpr{Op: token.NOT, X: ok}, Body: &ast.BlockStmt{List: []ast.Stmt{&ast.BranchStmt{Tok: token.BREAK}}}}
	body := rw.apply(r.Body).(*ast.BlockStmt)
	list := append(append(pre, recv, brk), body.List...)
	return &ast.ForStmt{Body: &ast.BlockStmt{List: list}}
}

// rangeMap makes iteration over a map deterministic: keys in mcrt.MapKeys order, entries deleted meanwhile skipped
// (Go's semantics), entries added meanwhile not visited (permitted by Go's semantics).
func (rw *rewriter) rangeMap(r *ast.RangeStmt) ast.Node {
	m := rw.tmp("m")
	k := rw.tmp("k")
	pre := &ast.AssignStmt{Lhs: []ast.Expr{m}, Tok: token.DEFINE, Rhs: []ast.Expr{rw.apply(r.X).(ast.Expr)}}
	var head []ast.Stmt
	ok := rw.tmp("ok")
	var vLhs ast.Expr = ast.NewIdent("_")
	if r.Value != nil {
		vLhs = r.Value
	}
	isBlank := func(e ast.Expr) bool { id, ok := e.(*ast.Ident); return ok && id.Name == "_" }
	tok := r.Tok
	if r.Key == nil {
		tok = token.DEFINE
	}
	// v, ok := m[k]  (or assignment form when the loop assigns to existing variables)
	if tok == token.DEFINE {
		head = append(head, &ast.AssignStmt{Lhs: []ast.Expr{vLhs, ok}, Tok: token.DEFINE, Rhs: []ast.Expr{&ast.IndexExpr{X: m, Index: k}}})
		if r.Key != nil && !isBlank(r.Key) {
			head = append(head, &ast.AssignStmt{Lhs: []ast.Expr{r.Key}, Tok: token.DEFINE, Rhs: []ast.Expr{k}})
		}
	} else {
		head = append(head, &ast.DeclStmt{Decl: &ast.GenDecl{Tok: token.VAR, Specs: []ast.Spec{&ast.ValueSpec{Names: []*ast.Ident{ok}, Type: ast.NewIdent("bool")}}}})
		head = append(head, &ast.AssignStmt{Lhs: []ast.Expr{vLhs, ok}, Tok: token.ASSIGN, Rhs: []ast.Expr{&ast.IndexExpr{X: m, Index: k}}})
		if r.Key != nil && !isBlank(r.Key) {
			head = append(head, &ast.AssignStmt{Lhs: []ast.Expr{r.Key}, Tok: token.ASSIGN, Rhs: []ast.Expr{k}})
		}
	}
	head = append(head, &ast.IfStmt{Cond: &ast.UnaryExpr{Op: token.NOT, X: ok}, Body: &ast.BlockStmt{List: []ast.Stmt{&ast.BranchStmt{Tok: token.CONTINUE}}}})
	body := rw.apply(r.Body).(*ast.BlockStmt)
	loop := &ast.RangeStmt{Key: ast.NewIdent("_"), Value: k, Tok: token.DEFINE, X: rw.mcrt("MapKeys", m), Body: &ast.BlockStmt{List: append(head, body.List...)}}
	return &ast.BlockStmt{List: []ast.Stmt{pre, loop}}
}

func (rw *rewriter) selectStmt(s *ast.SelectStmt, label *ast.Ident) ast.Node {
	if len(s.Body.List) == 0 {
		return &ast.ExprStmt{X: rw.mcrt("BlockForever")}
	}
	var pre []ast.Stmt
	var caseVars []ast.Expr
	var clauses []ast.Stmt
	hasDefault := false
	idx := 0
	for _, c := range s.Body.List {
		cc := c.(*ast.CommClause)
		body := make([]ast.Stmt, 0, len(cc.Body)+1)
		if cc.Comm == nil {
			hasDefault = true
			for _, st := range cc.Body {
				body = append(body, rw.apply(st).(ast.Stmt))
			}
			clauses = append(clauses, &ast.CaseClause{List: nil, Body: body})
			continue
		}
		cv := rw.tmp("c")
		switch cm := cc.Comm.(type) {
		case *ast.SendStmt:
			pre = append(pre, &ast.AssignStmt{Lhs: []ast.Expr{cv}, Tok: token.DEFINE, Rhs: []ast.Expr{rw.mcrt("SendCase", rw.apply(cm.Chan).(ast.Expr), rw.apply(cm.Value).(ast.Expr))}})
		case *ast.ExprStmt:
			u, ok := unparen(cm.X).(*ast.UnaryExpr)
			if !ok || u.Op != token.ARROW {
				fatalf("%s: unsupported select clause", rw.pos(cm))
			}
			pre = append(pre, &ast.AssignStmt{Lhs: []ast.Expr{cv}, Tok: token.DEFINE, Rhs: []ast.Expr{rw.mcrt("RecvCase", rw.apply(u.X).(ast.Expr))}})
		case *ast.AssignStmt:
			u, ok := unparen(cm.Rhs[0]).(*ast.UnaryExpr)
			if !ok || u.Op != token.ARROW || len(cm.Rhs) != 1 || len(cm.Lhs) > 2 {
				fatalf("%s: unsupported select clause", rw.pos(cm))
			}
			pre = append(pre, &ast.AssignStmt{Lhs: []ast.Expr{cv}, Tok: token.DEFINE, Rhs: []ast.Expr{rw.mcrt("RecvCase", rw.apply(u.X).(ast.Expr))}})
			rhs := []ast.Expr{&ast.SelectorExpr{X: cv, Sel: ast.NewIdent("V")}}
			if len(cm.Lhs) == 2 {
				rhs = append(rhs, &ast.SelectorExpr{X: cv, Sel: ast.NewIdent("OK")})
			}
			var lhs []ast.Expr
			for _, l := range cm.Lhs {
				lhs = append(lhs, rw.apply(l).(ast.Expr))
			}
			allBlank := true
			for _, l := range lhs {
				if id, ok := l.(*ast.Ident); !ok || id.Name != "_" {
					allBlank = false
				}
			}
			tok := cm.Tok
			if allBlank {
				tok = token.ASSIGN
			}
			body = append(body, &ast.AssignStmt{Lhs: lhs, Tok: tok, Rhs: rhs})
		default:
			fatalf("%s: unsupported select clause %T", rw.pos(cc), cc.Comm)
		}
		caseVars = append(caseVars, cv)
		for _, st := range cc.Body {
			body = append(body, rw.apply(st).(ast.Stmt))
		}
		clauses = append(clauses, &ast.CaseClause{List: []ast.Expr{&ast.BasicLit{Kind: token.INT, Value: strconv.Itoa(idx)}}, Body: body})
		idx++
	}
	def := "false"
	if hasDefault {
		def = "true"
	}
	if !hasDefault {
		// Select never returns -1 here; the clause keeps the switch a terminating statement when the select was one
		clauses = append(clauses, &ast.CaseClause{Body: []ast.Stmt{&ast.ExprStmt{X: &ast.CallExpr{Fun: ast.NewIdent("panic"),
			Args: []ast.Expr{&ast.BasicLit{Kind: token.STRING, Value: strconv.Quote("mcrt: select returned without a ready case")}}}}}})
	}
	sel := rw.mcrt("Select", append([]ast.Expr{ast.NewIdent(def)}, caseVars...)...)
	var sw ast.Stmt = &ast.SwitchStmt{Tag: sel, Body: &ast.BlockStmt{List: clauses}}
	if label != nil {
		sw = &ast.LabeledStmt{Label: label, Stmt: sw}
	}
	return &ast.BlockStmt{List: append(pre, sw)}
}

func unparen(e ast.Expr) ast.Expr {
	for {
		p, ok := e.(*ast.ParenExpr)
		if !ok {
			return e
		}
		e = p.X
	}
}

// dropUnusedImports removes imports that the seam substitution left without a reference.
func (rw *rewriter) dropUnusedImports() {
	used := map[string]bool{}
	ast.Inspect(rw.file, func(n ast.Node) bool {
		if se, ok := n.(*ast.SelectorExpr); ok {
			if id, ok := se.X.(*ast.Ident); ok {
				used[id.Name] = true
			}
		}
		return true
	})
	for _, d := range rw.file.Decls {
		gd, ok := d.(*ast.GenDecl)
		if !ok || gd.Tok != token.IMPORT {
			continue
		}
		var keep []ast.Spec
		for _, sp := range gd.Specs {
			is := sp.(*ast.ImportSpec)
			name := ""
			if is.Name != nil {
				name = is.Name.Name
			} else {
				p, _ := strconv.Unquote(is.Path.Value)
				name = p[strings.LastIndex(p, "/")+1:]
				for orig, shim := range shimOf { // the shim packages keep the package name of the package they replace
					if p == shim {
						name = orig[strings.LastIndex(orig, "/")+1:]
					}
				}
			}
			if name == "_" || name == "." || used[name] {
				keep = append(keep, sp)
			}
		}
		gd.Specs = keep
	}
}
