module mcgen

go 1.25.0
