// Package vrt is the in-test runtime every verification harness uses to record what it covered and what it
// found. It is injected into the repository under test as the virtual package
// github.com/valyala/fasthttp/internal/verif/vrt by `go test -overlay` (see /verif/vcheck); it imports only the
// standard library so that any package of the repository can use it.
package vrt

import (
	"encoding/json"
	"fmt"
	"hash/fnv"
	"io"
	"os"
	"runtime"
	"runtime/debug"
	"sort"
	"strconv"
	"sync"
	"sync/atomic"
	"testing"
	"time"
)

// Violation is one class of failing cases (de-duplicated by Sig) with the first artefact that showed it.
type Violation struct {
	Sig      string `json:"sig"`      // stable class of the failure; matched against known_findings.jsonl
	What     string `json:"what"`     // human readable
	Artefact any    `json:"artefact"` // the input / op list / schedule that reproduces it
	Count    int64  `json:"count"`    // how many explored cases fell in this class
}

type R struct {
	ID, Level, tier string
	seed            int64
	t               testing.TB
	start           time.Time
	deadline        time.Time
	evals           atomic.Int64
	mu              sync.Mutex
	nontriv         [64]struct {
		sync.Mutex
		m map[uint64]struct{}
	}
	samples    []any
	viol       map[string]*Violation
	extra      map[string]any
	rule       string
	assume     []string
	exhaustive bool
	notes      []string
	replay     json.RawMessage
	ended      bool
	mergedNT   int64
	mergedEval int64
}

// Dry makes Begin return runs that record nothing and write nothing: a check (C37) uses it to call the test functions
// of other checks only to collect their scenario lists.
var Dry bool

// Begin starts a check run. level is one of exploration, fault_enumeration, model_checking.
func Begin(t testing.TB, id, level string) *R {
	if Dry {
		d := &R{ID: id, Level: level, t: t, start: time.Now(), exhaustive: true, viol: map[string]*Violation{}, extra: map[string]any{}, ended: true, tier: os.Getenv("VERIF_TIER")}
		if d.tier != "thorough" {
			d.tier = "quick"
		}
		d.deadline = d.start.Add(time.Hour)
		for i := range d.nontriv {
			d.nontriv[i].m = map[uint64]struct{}{}
		}
		return d
	}
	r := &R{ID: id, Level: level, t: t, start: time.Now(), exhaustive: true,
		viol: map[string]*Violation{}, extra: map[string]any{}}
	r.tier = os.Getenv("VERIF_TIER")
	if r.tier != "thorough" {
		r.tier = "quick"
	}
	r.seed, _ = strconv.ParseInt(os.Getenv("VERIF_SEED"), 10, 64)
	budget := 150 * time.Second
	if r.tier == "thorough" {
		budget = 25 * time.Minute
	}
	if s := os.Getenv("VERIF_BUDGET_S"); s != "" {
		if n, err := strconv.Atoi(s); err == nil {
			budget = time.Duration(n) * time.Second
		}
	}
	r.deadline = r.start.Add(budget)
	for i := range r.nontriv {
		r.nontriv[i].m = map[uint64]struct{}{}
	}
	if p := os.Getenv("VERIF_REPLAY"); p != "" {
		b, err := os.ReadFile(p)
		if err != nil {
			t.Fatalf("replay: %v", err)
		}
		var f struct {
			Artefact json.RawMessage `json:"artefact"`
		}
		if err := json.Unmarshal(b, &f); err != nil || f.Artefact == nil {
			t.Fatalf("replay: bad artefact file %s: %v", p, err)
		}
		r.replay = f.Artefact
	}
	return r
}

func (r *R) Tier() string   { return r.tier }
func (r *R) Thorough() bool { return r.tier == "thorough" }
func (r *R) Seed() int64    { return r.seed }

// Replay returns the artefact to re-execute (nil when the run is a normal exploration).
func (r *R) Replay() json.RawMessage { return r.replay }

// Pick returns q in the quick tier and th in the thorough tier.
func Pick[T any](r *R, q, th T) T {
	if r.Thorough() {
		return th
	}
	return q
}

func (r *R) Eval(n int)   { r.evals.Add(int64(n)) }
func (r *R) Evals() int64 { return r.evals.Load() }

// Nontrivial records a case (by key) that is non-trivial under the check's stated rule; distinct keys are counted.
func (r *R) Nontrivial(key string) {
	h := fnv.New64a()
	h.Write([]byte(key))
	r.NontrivialHash(h.Sum64())
}

func (r *R) NontrivialHash(k uint64) {
	s := &r.nontriv[k&63]
	s.Lock()
	s.m[k] = struct{}{}
	s.Unlock()
}

func (r *R) nontrivialCount() int {
	n := 0
	for i := range r.nontriv {
		r.nontriv[i].Lock()
		n += len(r.nontriv[i].m)
		r.nontriv[i].Unlock()
	}
	return n
}

// Sample keeps a handful of explored cases for the evidence file.
func (r *R) Sample(v any) {
	r.mu.Lock()
	if len(r.samples) < 12 {
		r.samples = append(r.samples, v)
	}
	r.mu.Unlock()
}

func (r *R) WantSample() bool {
	r.mu.Lock()
	defer r.mu.Unlock()
	return len(r.samples) < 12
}

func (r *R) Rule(s string)       { r.rule = s }
func (r *R) Assume(s ...string)  { r.assume = append(r.assume, s...) }
func (r *R) Set(k string, v any) { r.mu.Lock(); r.extra[k] = v; r.mu.Unlock() }

// Add adds n to an integer coverage counter.
func (r *R) Add(k string, n int64) {
	r.mu.Lock()
	c, _ := r.extra[k].(int64)
	r.extra[k] = c + n
	r.mu.Unlock()
}

// NotExhaustive marks that a cap (time, count) stopped the enumeration before the stated space was finished.
func (r *R) NotExhaustive(reason string) {
	r.mu.Lock()
	r.exhaustive = false
	r.notes = append(r.notes, reason)
	r.mu.Unlock()
}

// Expired reports that the run's internal budget is used up; enumerations stop cleanly and report exhaustive=false.
func (r *R) Expired() bool { return time.Now().After(r.deadline) }

// Violation records a failing case. sig must name the class of failure precisely enough that a different defect
// gets a different sig.
func (r *R) Violation(sig, what string, artefact any) {
	r.mu.Lock()
	defer r.mu.Unlock()
	v := r.viol[sig]
	if v == nil {
		if len(r.viol) >= 200 {
			sig = "overflow:more-than-200-classes"
			if v = r.viol[sig]; v == nil {
				v = &Violation{Sig: sig, What: "more than 200 distinct violation classes", Artefact: artefact}
				r.viol[sig] = v
			}
			v.Count++
			return
		}
		v = &Violation{Sig: sig, What: what, Artefact: artefact}
		r.viol[sig] = v
	}
	v.Count++
}

func (r *R) Violations() int { r.mu.Lock(); defer r.mu.Unlock(); return len(r.viol) }

// ToolError aborts the run as a machinery failure (never a verdict): exit status 2 through the runner.
func (r *R) ToolError(format string, a ...any) {
	msg := fmt.Sprintf(format, a...)
	r.mu.Lock()
	r.ended = true // End() must not overwrite the tool-error result
	r.mu.Unlock()
	if p := os.Getenv("VERIF_OUT"); p != "" {
		b, _ := json.Marshal(map[string]any{"property_id": r.ID, "tool_error": msg})
		os.WriteFile(p, b, 0o644)
	}
	fmt.Fprintf(os.Stderr, "TOOL-ERROR %s: %s\n", r.ID, msg)
	os.Exit(2) // not t.Fatalf: that only ends the calling goroutine, and may be called from a Par worker
}

// Par runs f(i) for i in [0,n) on all cores. A panic inside f is a tool error unless the harness recovers it itself.
func (r *R) Par(n int, f func(i int)) {
	w := runtime.GOMAXPROCS(0)
	if w > n {
		w = n
	}
	var next atomic.Int64
	var wg sync.WaitGroup
	var perr atomic.Value
	for k := 0; k < w; k++ {
		wg.Add(1)
		go func() {
			defer wg.Done()
			defer func() {
				if e := recover(); e != nil {
					perr.CompareAndSwap(nil, fmt.Sprintf("panic in harness shard: %v\n%s", e, debug.Stack()))
				}
			}()
			for {
				i := int(next.Add(1) - 1)
				if i >= n || perr.Load() != nil {
					return
				}
				f(i)
			}
		}()
	}
	wg.Wait()
	if e := perr.Load(); e != nil {
		r.ToolError("%s", e)
	}
}

// End writes the result file read by the runner.
func (r *R) End() {
	r.mu.Lock()
	if r.ended {
		r.mu.Unlock()
		return
	}
	r.ended = true
	r.mu.Unlock()
	cov := map[string]any{}
	for k, v := range r.extra {
		cov[k] = v
	}
	cov["evaluations"] = r.evals.Load() + r.mergedEval
	cov["distinct_nontrivial"] = int64(r.nontrivialCount()) + r.mergedNT
	cov["rule"] = r.rule
	cov["samples"] = r.samples
	cov["exhaustive"] = r.exhaustive
	if len(r.notes) > 0 {
		cov["caps_hit"] = r.notes
	}
	var vl []*Violation
	for _, v := range r.viol {
		vl = append(vl, v)
	}
	sort.Slice(vl, func(i, j int) bool { return vl[i].Sig < vl[j].Sig })
	out := map[string]any{
		"property_id": r.ID, "tier": r.tier, "seed": r.seed, "level": r.Level, "coverage": cov,
		"assumptions": r.assume, "wall_s": time.Since(r.start).Seconds(), "violation_list": vl,
	}
	b, err := json.MarshalIndent(out, "", " ")
	if err != nil {
		r.t.Fatalf("TOOL-ERROR marshal: %v", err)
	}
	if p := os.Getenv("VERIF_OUT"); p != "" {
		if err := os.WriteFile(p, b, 0o644); err != nil {
			r.t.Fatalf("TOOL-ERROR write: %v", err)
		}
	} else {
		r.t.Logf("%s", b)
	}
	for _, v := range vl {
		r.t.Logf("violation class %s (%d cases): %s", v.Sig, v.Count, v.What)
	}
}

// Q quotes bytes for artefacts and signatures.
func Q(b []byte) string { return strconv.QuoteToASCII(string(b)) }

// TB returns the testing handle of the run.
func (r *R) TB() testing.TB { return r.t }

// MergeFile folds the result file written by a worker process (same check, disjoint share of the space) into r:
// counters are summed, exhaustive flags and-ed, samples and caps concatenated, violation classes merged by sig.
func (r *R) MergeFile(path string) error {
	b, err := os.ReadFile(path)
	if err != nil {
		return err
	}
	var f struct {
		ToolError string         `json:"tool_error"`
		Coverage  map[string]any `json:"coverage"`
		Viol      []*Violation   `json:"violation_list"`
	}
	dec := json.NewDecoder(bytesReader(b))
	dec.UseNumber()
	if err := dec.Decode(&f); err != nil {
		return err
	}
	if f.ToolError != "" {
		return fmt.Errorf("worker tool error: %s", f.ToolError)
	}
	r.mu.Lock()
	defer r.mu.Unlock()
	for k, v := range f.Coverage {
		switch k {
		case "evaluations":
			n, _ := v.(json.Number).Int64()
			r.mergedEval += n
		case "distinct_nontrivial":
			n, _ := v.(json.Number).Int64()
			r.mergedNT += n
		case "exhaustive":
			if b, ok := v.(bool); ok && !b {
				r.exhaustive = false
			}
		case "caps_hit":
			if l, ok := v.([]any); ok {
				for _, x := range l {
					if len(r.notes) < 20 {
						r.notes = append(r.notes, fmt.Sprint(x))
					}
				}
			}
		case "samples":
			if l, ok := v.([]any); ok {
				for _, x := range l {
					if len(r.samples) < 12 {
						r.samples = append(r.samples, x)
					}
				}
			}
		case "rule":
		default:
			switch x := v.(type) {
			case json.Number:
				n, _ := x.Int64()
				c, _ := r.extra[k].(int64)
				r.extra[k] = c + n
			case map[string]any:
				m, _ := r.extra[k].(map[string]int64)
				if m == nil {
					m = map[string]int64{}
				}
				for kk, vv := range x {
					if num, ok := vv.(json.Number); ok {
						n, _ := num.Int64()
						m[kk] += n
					}
				}
				r.extra[k] = m
			default:
				if _, ok := r.extra[k]; !ok {
					r.extra[k] = v
				}
			}
		}
	}
	for _, v := range f.Viol {
		if o := r.viol[v.Sig]; o != nil {
			o.Count += v.Count
		} else {
			r.viol[v.Sig] = v
		}
	}
	return nil
}

// AddMap adds n to entry key of a map-valued coverage counter.
func (r *R) AddMap(k, key string, n int64) {
	r.mu.Lock()
	m, _ := r.extra[k].(map[string]int64)
	if m == nil {
		m = map[string]int64{}
		r.extra[k] = m
	}
	m[key] += n
	r.mu.Unlock()
}

type byteReader struct {
	b []byte
	i int
}

func (r *byteReader) Read(p []byte) (int, error) {
	if r.i >= len(r.b) {
		return 0, io.EOF
	}
	n := copy(p, r.b[r.i:])
	r.i += n
	return n, nil
}

func bytesReader(b []byte) *byteReader { return &byteReader{b: b} }
