// Code generated from the exported API of package time; DO NOT EDIT.

package time

import rtime "time"

const ANSIC = rtime.ANSIC
const April = rtime.April
const August = rtime.August

var Date = rtime.Date

const DateOnly = rtime.DateOnly
const DateTime = rtime.DateTime
const December = rtime.December

type Duration = rtime.Duration

const February = rtime.February

var FixedZone = rtime.FixedZone

const Friday = rtime.Friday
const Hour = rtime.Hour
const January = rtime.January
const July = rtime.July
const June = rtime.June
const Kitchen = rtime.Kitchen
const Layout = rtime.Layout

var LoadLocation = rtime.LoadLocation
var LoadLocationFromTZData = rtime.LoadLocationFromTZData
var Local = rtime.Local

type Location = rtime.Location

const March = rtime.March
const May = rtime.May
const Microsecond = rtime.Microsecond
const Millisecond = rtime.Millisecond
const Minute = rtime.Minute
const Monday = rtime.Monday

type Month = rtime.Month

const Nanosecond = rtime.Nanosecond
const November = rtime.November
const October = rtime.October

var Parse = rtime.Parse
var ParseDuration = rtime.ParseDuration

type ParseError = rtime.ParseError

var ParseInLocation = rtime.ParseInLocation

const RFC1123 = rtime.RFC1123
const RFC1123Z = rtime.RFC1123Z
const RFC3339 = rtime.RFC3339
const RFC3339Nano = rtime.RFC3339Nano
const RFC822 = rtime.RFC822
const RFC822Z = rtime.RFC822Z
const RFC850 = rtime.RFC850
const RubyDate = rtime.RubyDate
const Saturday = rtime.Saturday
const Second = rtime.Second
const September = rtime.September
const Stamp = rtime.Stamp
const StampMicro = rtime.StampMicro
const StampMilli = rtime.StampMilli
const StampNano = rtime.StampNano
const Sunday = rtime.Sunday
const Thursday = rtime.Thursday

type Time = rtime.Time

const TimeOnly = rtime.TimeOnly
const Tuesday = rtime.Tuesday

var UTC = rtime.UTC
var Unix = rtime.Unix

const UnixDate = rtime.UnixDate

var UnixMicro = rtime.UnixMicro
var UnixMilli = rtime.UnixMilli

const Wednesday = rtime.Wednesday

type Weekday = rtime.Weekday
