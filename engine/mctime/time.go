// Package time is the controlled stand-in for the standard time package inside rewritten sources: the clock and all
// timers are virtual (engine/mcrt/vtime.go) while every other identifier is an alias of the real package
// (zz_generated.go), so time.Time / time.Duration values flow unchanged through interfaces such as net.Conn.
package time

import (
	rtime "time"

	"github.com/valyala/fasthttp/internal/verif/mcrt"
)

//go:norace
func Now() Time {
	if mcrt.W() == nil {
		return rtime.Now()
	}
	return mcrt.Now()
}

//go:norace
func Since(t Time) Duration { return Now().Sub(t) }

//go:norace
func Until(t Time) Duration { return t.Sub(Now()) }

//go:norace
func Sleep(d Duration) { mcrt.Sleep(d) }

// Timer mirrors time.Timer (go1.23+ semantics, see mcrt.VTimer).
type Timer struct {
	C  <-chan Time
	v  *mcrt.VTimer
	rt *rtime.Timer
}

//go:norace
func NewTimer(d Duration) *Timer {
	if mcrt.W() == nil {
		rt := rtime.NewTimer(d)
		return &Timer{C: rt.C, rt: rt}
	}
	v := mcrt.NewVTimer(d, 0)
	return &Timer{C: v.C, v: v}
}

//go:norace
func (t *Timer) Stop() bool {
	if t.rt != nil {
		return t.rt.Stop()
	}
	return t.v.Stop()
}

//go:norace
func (t *Timer) Reset(d Duration) bool {
	if t.rt != nil {
		return t.rt.Reset(d)
	}
	return t.v.Reset(d)
}

//go:norace
func After(d Duration) <-chan Time { return NewTimer(d).C }

//go:norace
func AfterFunc(d Duration, f func()) *Timer {
	if mcrt.W() == nil {
		return &Timer{rt: rtime.AfterFunc(d, f)}
	}
	return &Timer{v: mcrt.AfterFunc(d, f)}
}

type Ticker struct {
	C  <-chan Time
	v  *mcrt.VTimer
	rt *rtime.Ticker
}

//go:norace
func NewTicker(d Duration) *Ticker {
	if d <= 0 {
		panic("non-positive interval for NewTicker")
	}
	if mcrt.W() == nil {
		rt := rtime.NewTicker(d)
		return &Ticker{C: rt.C, rt: rt}
	}
	v := mcrt.NewVTimer(d, d)
	return &Ticker{C: v.C, v: v}
}

//go:norace
func (t *Ticker) Stop() {
	if t.rt != nil {
		t.rt.Stop()
		return
	}
	t.v.Stop()
}

//go:norace
func (t *Ticker) Reset(d Duration) {
	if t.rt != nil {
		t.rt.Reset(d)
		return
	}
	t.v.ResetPeriod(d)
}

//go:norace
func Tick(d Duration) <-chan Time { return NewTicker(d).C }
