// Package seqx holds the exhaustive enumerators used by the sequential checks. Every enumerator visits a finite,
// stated space completely and deterministically (no sampling); the callback may return false to stop early.
package seqx

// AllStrings calls f with every concatenation of at most maxLen symbols of alphabet (including the empty one),
// shortest first within each first-symbol subtree. The slice passed to f is reused.
func AllStrings(alphabet [][]byte, maxLen int, f func(s []byte) bool) bool {
	buf := make([]byte, 0, 64)
	var rec func(depth int) bool
	rec = func(depth int) bool {
		if !f(buf) {
			return false
		}
		if depth == maxLen {
			return true
		}
		n := len(buf)
		for _, a := range alphabet {
			buf = append(buf[:n], a...)
			if !rec(depth + 1) {
				return false
			}
		}
		buf = buf[:n]
		return true
	}
	return rec(0)
}

// AllStringsFrom is AllStrings restricted to strings whose first symbol is alphabet[first] (for sharding);
// first == -1 yields only the empty string.
func AllStringsFrom(alphabet [][]byte, first, maxLen int, f func(s []byte) bool) bool {
	if first < 0 {
		return f(nil)
	}
	if maxLen < 1 {
		return true
	}
	pre := alphabet[first]
	return AllStrings(alphabet, maxLen-1, func(s []byte) bool {
		b := make([]byte, 0, len(pre)+len(s))
		b = append(append(b, pre...), s...)
		return f(b)
	})
}

// CountStrings is the number of strings AllStrings visits.
func CountStrings(k, maxLen int) int64 {
	var n, p int64 = 0, 1
	for i := 0; i <= maxLen; i++ {
		n += p
		p *= int64(k)
	}
	return n
}

// Sym builds an alphabet from string literals.
func Sym(s ...string) [][]byte {
	out := make([][]byte, len(s))
	for i, x := range s {
		out[i] = []byte(x)
	}
	return out
}

// Product enumerates all index vectors idx with 0 <= idx[i] < dims[i] that differ from the all-zero (canonical)
// vector in at most maxDev positions; maxDev < 0 means the full product. idx is reused.
func Product(dims []int, maxDev int, f func(idx []int) bool) bool {
	idx := make([]int, len(dims))
	var rec func(pos, dev int) bool
	rec = func(pos, dev int) bool {
		if pos == len(dims) {
			return f(idx)
		}
		for v := 0; v < dims[pos]; v++ {
			d := dev
			if v != 0 {
				d++
			}
			if maxDev >= 0 && d > maxDev {
				break
			}
			idx[pos] = v
			if !rec(pos+1, d) {
				return false
			}
		}
		idx[pos] = 0
		return true
	}
	return rec(0, 0)
}

// ProductCount is the number of vectors Product visits.
func ProductCount(dims []int, maxDev int) int64 {
	var n int64
	Product(dims, maxDev, func([]int) bool { n++; return true })
	return n
}

// Sequences enumerates all sequences of length 0..maxLen over n symbols (as index slices, reused).
func Sequences(n, maxLen int, f func(seq []int) bool) bool {
	seq := make([]int, 0, maxLen)
	var rec func() bool
	rec = func() bool {
		if !f(seq) {
			return false
		}
		if len(seq) == maxLen {
			return true
		}
		for i := 0; i < n; i++ {
			seq = append(seq, i)
			if !rec() {
				return false
			}
			seq = seq[:len(seq)-1]
		}
		return true
	}
	return rec()
}

// Mutations calls f with seed and with every variant of seed in which at most k positions are replaced by a byte
// of set (k is 1 or 2). The slice passed to f is reused.
func Mutations(seed []byte, set []byte, k int, f func(b []byte) bool) bool {
	b := append([]byte(nil), seed...)
	if !f(b) {
		return false
	}
	for i := range seed {
		for _, x := range set {
			if x == seed[i] {
				continue
			}
			b[i] = x
			if !f(b) {
				return false
			}
			if k >= 2 {
				for j := i + 1; j < len(seed); j++ {
					for _, y := range set {
						if y == seed[j] {
							continue
						}
						b[j] = y
						if !f(b) {
							return false
						}
					}
					b[j] = seed[j]
				}
			}
		}
		b[i] = seed[i]
	}
	return true
}
