// Package seamfs holds the seams of fs.go for the model checker (used by the C25 harness; see engine/mcgen/subst.json):
//
//   - runtime.AddCleanup: inside a controlled execution the cleanup is *recorded* instead of being handed to the garbage
//     collector, so that (a) the collector's own goroutine never runs rewritten code (it is not a controlled thread: a
//     cleanup of an earlier execution's handler firing during a later execution would call into the scheduler from
//     outside) and (b) a harness thread can run "the handler was finalised" as an ordinary schedulable event.
//   - os.Open: inside a controlled execution with a hook installed, the default osFS opens harness files instead of
//     OS files (fs.go picks its small-file / big-file reader by the *osFS type, so that path needs the real type).
//
// Outside executions (or without a hook) both fall through to the real functions.
package seamfs

import (
	"io/fs"
	"os"
	"runtime"

	"github.com/valyala/fasthttp/internal/verif/mcrt"
)

var (
	ep       uint64
	cleanups []func()
	args     []any
	openHook func(name string) (fs.File, error)
)

//go:norace
func sync(w *mcrt.World) {
	if e := w.Epoch(); e != ep {
		ep = e
		cleanups = nil
		args = nil
		openHook = nil
	}
}

// AddCleanup stands in for runtime.AddCleanup.
//
//go:norace
func AddCleanup[T, S any](ptr *T, cleanup func(S), arg S) runtime.Cleanup {
	w := mcrt.W()
	if w == nil {
		return runtime.AddCleanup(ptr, cleanup, arg)
	}
	sync(w)
	cleanups = append(cleanups, func() { cleanup(arg) })
	args = append(args, any(arg))
	return runtime.Cleanup{}
}

// Cleanups returns the cleanups registered during the current execution, in registration order.
//
//go:norace
func Cleanups() []func() {
	w := mcrt.W()
	if w == nil {
		return nil
	}
	sync(w)
	return cleanups
}

// CleanupArgs returns the argument of each recorded cleanup (for fs.go: the handler's cache manager), so that an
// in-package harness can inspect the state the cleanup will act on.
//
//go:norace
func CleanupArgs() []any {
	w := mcrt.W()
	if w == nil {
		return nil
	}
	sync(w)
	return args
}

// SetOpenHook redirects os.Open of the rewritten sources for the rest of the current execution.
//
//go:norace
func SetOpenHook(h func(name string) (fs.File, error)) {
	if w := mcrt.W(); w != nil {
		sync(w)
		openHook = h
	}
}

// Open stands in for os.Open.
//
//go:norace
func Open(name string) (fs.File, error) {
	if w := mcrt.W(); w != nil {
		sync(w)
		if openHook != nil {
			return openHook(name)
		}
	}
	f, err := os.Open(name)
	if err != nil {
		return nil, err
	}
	return f, nil
}
