package mcrt

import (
	"unsafe"
)

// Channels stay real Go channels (so channel types, struct fields, len, cap and directional conversions need no
// rewriting); only the *operations* are routed through these functions by engine/mcgen. Because exactly one thread
// runs at a time and every operation is announced first, the scheduler can decide enabledness from len/cap, the set
// of channels closed in this execution, and the pending operations of the parked threads. Buffered transfers use the
// real buffer (never blocking, by construction); unbuffered rendezvous copy the value directly between the two
// threads' slots and do not touch the real channel.

type chanDir uint8

const (
	dirRecv chanDir = iota
	dirSend
)

type chanWait struct {
	key    unsafe.Pointer // identity of the channel (its runtime hchan pointer); nil for a nil channel
	dir    chanDir
	cap    int
	length func() int
	probe  func() bool    // non-blocking probe: is the (empty) channel closed? (covers channels closed by un-rewritten code)
	ptr    unsafe.Pointer // recv: where a sender stores the value; send: where the value to send lives
}

//go:norace
func chanKey[T any](ch chan T) unsafe.Pointer { return *(*unsafe.Pointer)(unsafe.Pointer(&ch)) }

//go:norace
func (w *World) closedHas(key unsafe.Pointer) bool {
	for _, k := range w.closed {
		if k == key {
			return true
		}
	}
	return false
}

//go:norace
func (w *World) isClosed(cw *chanWait) bool {
	if w.closedHas(cw.key) {
		return true
	}
	if cw.probe != nil && cw.length() == 0 && cw.probe() {
		w.closed = append(w.closed, cw.key)
		return true
	}
	return false
}

// partner finds a parked thread (other than t) with a pending operation in direction dir on channel key.
//
//go:norace
func (w *World) partners(t *Thread, dir chanDir, key unsafe.Pointer) (out []*Thread, idx []int) {
	for _, o := range w.threads {
		if o == t || o.done || o.completed >= 0 {
			continue
		}
		for i := range o.waits {
			if o.waits[i].key == key && o.waits[i].dir == dir {
				out = append(out, o)
				idx = append(idx, i)
				break
			}
		}
	}
	return
}

//go:norace
func (w *World) waitReady(t *Thread, cw *chanWait) bool {
	if cw.key == nil {
		return false // nil channel: blocks forever
	}
	if cw.dir == dirRecv {
		if cw.length() > 0 || w.isClosed(cw) {
			return true
		}
		if cw.cap == 0 {
			p, _ := w.partners(t, dirSend, cw.key)
			return len(p) > 0
		}
		return false
	}
	if w.isClosed(cw) {
		return true // will panic, as in Go
	}
	if cw.cap > 0 {
		return cw.length() < cw.cap
	}
	p, _ := w.partners(t, dirRecv, cw.key)
	return len(p) > 0
}

//go:norace
func (w *World) anyWaitReady(t *Thread) bool {
	for i := range t.waits {
		if w.waitReady(t, &t.waits[i]) {
			return true
		}
	}
	return false
}

//go:norace
func recvWait[T any](ch chan T, slot *T) chanWait {
	if ch == nil {
		return chanWait{dir: dirRecv}
	}
	return chanWait{key: chanKey(ch), dir: dirRecv, cap: cap(ch), length: func() int { return len(ch) },
		probe: func() bool {
			raceDisable()
			defer raceEnable()
			select {
			case _, ok := <-ch:
				return !ok
			default:
				return false
			}
		}, ptr: unsafe.Pointer(slot)}
}

//go:norace
func sendWait[T any](ch chan T, val *T) chanWait {
	if ch == nil {
		return chanWait{dir: dirSend}
	}
	return chanWait{key: chanKey(ch), dir: dirSend, cap: cap(ch), length: func() int { return len(ch) }, ptr: unsafe.Pointer(val)}
}

//go:norace
func bidi[T any, C ~chan T | ~<-chan T | ~chan<- T](ch C) chan T {
	return *(*chan T)(unsafe.Pointer(&ch))
}

// doRecv completes a receive for the running thread t, which the scheduler chose because wait cw is ready.
//
//go:norace
func doRecv[T any](w *World, t *Thread, ch chan T, cw *chanWait) (v T, ok bool) {
	if len(ch) > 0 {
		v, ok = <-ch
		return
	}
	if w.isClosed(cw) {
		v, ok = <-ch // never blocks; performs the close -> receive synchronisation natively
		return v, ok
	}
	// unbuffered rendezvous: take the value from a parked sender
	ps, idx := w.partners(t, dirSend, cw.key)
	if len(ps) == 0 {
		panic("mcrt: receive chosen but not ready")
	}
	k := 0
	if len(ps) > 1 {
		k = w.choosePartner(len(ps), "recv-partner")
	}
	p := ps[k]
	v = *(*T)(p.waits[idx[k]].ptr)
	p.completed = idx[k]
	rendezvous(t, p)
	return v, true
}

//go:norace
func doSend[T any](w *World, t *Thread, ch chan T, cw *chanWait, v T) {
	if w.isClosed(cw) {
		panic("send on closed channel")
	}
	if cw.cap > 0 {
		ch <- v // room is guaranteed
		return
	}
	ps, idx := w.partners(t, dirRecv, cw.key)
	if len(ps) == 0 {
		panic("mcrt: send chosen but not ready")
	}
	k := 0
	if len(ps) > 1 {
		k = w.choosePartner(len(ps), "send-partner")
	}
	p := ps[k]
	*(*T)(p.waits[idx[k]].ptr) = v
	p.completed = idx[k]
	p.recvOK = true
	rendezvous(t, p)
}

//go:norace
func (w *World) choosePartner(n int, label string) int {
	costs := make([]int8, n)
	for i := 1; i < n; i++ {
		costs[i] = 1
	}
	return w.choose('c', n, costs, label)
}

// park announces the waits of t and parks it; on return either a partner completed one of them (t.completed >= 0) or
// the scheduler chose t while at least one wait is ready.
//
//go:norace
func (w *World) park(t *Thread, label string) {
	t.label = label
	t.completed = -1
	// race builds: publish this thread's clock for the partner that may complete a rendezvous with it while it is parked
	RaceRelease(unsafe.Pointer(&t.hbOut))
	w.schedule()
}

// rendezvous records the two happens-before edges of an unbuffered channel operation completed by the running thread
// me with the parked partner p: everything p did before it parked is visible to me, and everything I did before the
// operation is visible to p when it resumes.
func rendezvous(me, p *Thread) {
	RaceAcquire(unsafe.Pointer(&p.hbOut))
	RaceRelease(unsafe.Pointer(&p.hbIn))
}

// Recv2 is `v, ok := <-ch`.
//
//go:norace
func Recv2[T any, C ~chan T | ~<-chan T](c C) (v T, ok bool) {
	ch := bidi[T](c)
	w := cur
	if w == nil {
		v, ok = <-ch
		return
	}
	if w.aborting {
		return
	}
	t := w.cur
	var slot T
	ws := [1]chanWait{recvWait(ch, &slot)}
	t.waits = ws[:]
	w.park(t, "chan.recv")
	done := t.completed
	okp := t.recvOK
	t.waits, t.completed, t.recvOK = nil, -1, false
	if done >= 0 {
		RaceAcquire(unsafe.Pointer(&t.hbIn))
		return slot, okp
	}
	return doRecv(w, t, ch, &ws[0])
}

// Recv is `<-ch`.
//
//go:norace
func Recv[T any, C ~chan T | ~<-chan T](c C) T {
	v, _ := Recv2[T](c)
	return v
}

// Send is `ch <- v`.
//
//go:norace
func Send[T any, C ~chan T | ~chan<- T](c C, v T) {
	ch := *(*chan T)(unsafe.Pointer(&c))
	w := cur
	if w == nil {
		ch <- v
		return
	}
	if w.aborting {
		return
	}
	t := w.cur
	val := v
	ws := [1]chanWait{sendWait(ch, &val)}
	t.waits = ws[:]
	w.park(t, "chan.send")
	done := t.completed
	t.waits, t.completed, t.recvOK = nil, -1, false
	if done >= 0 {
		RaceAcquire(unsafe.Pointer(&t.hbIn))
		return
	}
	doSend(w, t, ch, &ws[0], v)
}

// Close is `close(ch)`.
//
//go:norace
func Close[T any, C ~chan T | ~chan<- T](c C) {
	ch := *(*chan T)(unsafe.Pointer(&c))
	w := cur
	if w == nil {
		close(ch)
		return
	}
	if w.aborting {
		return
	}
	w.Point("chan.close", nil)
	if ch == nil {
		panic("close of nil channel")
	}
	key := chanKey(ch)
	if w.closedHas(key) {
		panic("close of closed channel")
	}
	w.closed = append(w.closed, key)
	close(ch) // real close: len/cap/recv on the real channel stay truthful; parked shim senders will panic when chosen
}

// ---- select ----------------------------------------------------------------------------------------------------

// Case is one communication clause of a rewritten select statement.
type Case interface {
	wait() chanWait
	perform(w *World, t *Thread, cw *chanWait)
	partnerDone(ok bool)
}

type RecvC[T any] struct {
	ch chan T
	V  T
	OK bool
}

type SendC[T any] struct {
	ch chan T
	v  T
}

// RecvCase builds the clause `case v, ok := <-ch`.
//
//go:norace
func RecvCase[T any, C ~chan T | ~<-chan T](c C) *RecvC[T] { return &RecvC[T]{ch: bidi[T](c)} }

// SendCase builds the clause `case ch <- v` (v is evaluated when the select statement is entered, as in Go).
//
//go:norace
func SendCase[T any, C ~chan T | ~chan<- T](c C, v T) *SendC[T] {
	return &SendC[T]{ch: *(*chan T)(unsafe.Pointer(&c)), v: v}
}

//go:norace
func (c *RecvC[T]) wait() chanWait { return recvWait(c.ch, &c.V) }

//go:norace
func (c *RecvC[T]) perform(w *World, t *Thread, cw *chanWait) {
	c.V, c.OK = doRecv(w, t, c.ch, cw)
}

//go:norace
func (c *RecvC[T]) partnerDone(ok bool) { c.OK = ok }

//go:norace
func (c *SendC[T]) wait() chanWait { return sendWait(c.ch, &c.v) }

//go:norace
func (c *SendC[T]) perform(w *World, t *Thread, cw *chanWait) { doSend(w, t, c.ch, cw, c.v) }

//go:norace
func (c *SendC[T]) partnerDone(bool) {}

// Select runs a select statement over cases and returns the index of the clause that proceeded, or -1 for default.
//
//go:norace
func Select(hasDefault bool, cases ...Case) int {
	w := cur
	if w == nil {
		return selectReal(hasDefault, cases)
	}
	if w.aborting {
		return -1
	}
	t := w.cur
	ws := make([]chanWait, len(cases))
	for i, c := range cases {
		ws[i] = c.wait()
	}
	t.waits = ws
	if hasDefault {
		// never blocks: a plain scheduling point, then look at what is ready
		t.waits = nil
		w.Point("select.default", nil)
		t.waits = nil
	} else {
		w.park(t, "select")
	}
	done := t.completed
	okp := t.recvOK
	t.waits, t.completed, t.recvOK = nil, -1, false
	if done >= 0 {
		RaceAcquire(unsafe.Pointer(&t.hbIn))
		cases[done].partnerDone(okp)
		return done
	}
	var ready []int
	for i := range ws {
		if w.waitReady(t, &ws[i]) {
			ready = append(ready, i)
		}
	}
	if len(ready) == 0 {
		if hasDefault {
			return -1
		}
		panic("mcrt: select chosen but no case ready")
	}
	k := 0
	if len(ready) > 1 {
		k = w.choosePartner(len(ready), "select-case")
	}
	i := ready[k]
	cases[i].perform(w, t, &ws[i])
	return i
}

// BlockForever is `select {}`.
//
//go:norace
func BlockForever() {
	w := cur
	if w == nil {
		select {}
	}
	if w.aborting {
		return
	}
	w.Point("select{}", func() bool { return false })
}

// selectReal executes the select on the real channels (no world active) by polling ready cases through reflection-free
// non-blocking attempts; only used by code running outside executions, which in this code base is test set-up only.
//
//go:norace
func selectReal(hasDefault bool, cases []Case) int {
	panic("mcrt: select outside a controlled execution is not supported (run this code inside mcrt.Explore)")
}
