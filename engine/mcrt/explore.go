package mcrt

import (
	"fmt"
	"hash/fnv"
	"strings"
	"time"
	"unsafe"
)

// Config bounds one exploration.
type Config struct {
	Name        string
	Bound       int       // maximum number of deviations (preemptions, non-default select cases / environment answers, timer-first)
	Horizon     int       // maximum scheduler steps per execution
	TimerFirst  bool      // offer "fire the earliest timer now" as a (cost 1) alternative at every scheduling point
	CountStates bool      // hash (thread labels, harness state key) at every step into the states counter
	MaxExec     int64     // cap on executions (0 = none); hitting it makes the result non-exhaustive
	Deadline    time.Time // wall-clock cap (zero = none)
	TraceOps    bool
	Prefix      []int // replay: run exactly this choice sequence (then defaults) once
}

// Exec is one finished execution, handed to the check callback.
type Exec struct {
	Out      Outcome
	Points   []Point
	Choices  []int
	Trace    []uint32
	Covered  map[string]int
	UserData any
	Now      time.Duration // virtual time at the end
	Cost     int
}

// Fingerprint identifies the observable course of an execution (schedule + choices) for the determinism gate.
func (x *Exec) Fingerprint() uint64 {
	h := fnv.New64a()
	for _, t := range x.Trace {
		h.Write([]byte{byte(t), byte(t >> 8)})
	}
	for _, p := range x.Points {
		h.Write([]byte{byte(p.N), byte(p.Chosen), p.Kind})
		h.Write([]byte(p.Label))
	}
	fmt.Fprintf(h, "%v|%v|%d", x.Out.Deadlock, x.Out.Horizon, x.Now)
	return h.Sum64()
}

// ScheduleString renders the choices compactly (for artefacts).
func (x *Exec) ChoiceString() string {
	var b strings.Builder
	for i, c := range x.Choices {
		if i > 0 {
			b.WriteByte(',')
		}
		fmt.Fprintf(&b, "%d", c)
	}
	return b.String()
}

// Describe renders the non-default choices of the execution with their labels.
func (x *Exec) Describe() []string {
	var out []string
	for i, p := range x.Points {
		if p.Chosen != 0 {
			out = append(out, fmt.Sprintf("#%d %c %s -> alt %d/%d", i, p.Kind, p.Label, p.Chosen, p.N))
		}
	}
	return out
}

// Stats summarises an exploration.
type Stats struct {
	Executions     int64
	Transitions    int64
	States         int
	MaxDepth       int
	BoundCompleted int // largest bound fully explored (-1: none)
	Exhaustive     bool
	CapHit         string
	Outcomes       map[string]int64 // distinct harness outcome classes -> count
	Covered        map[string]int64
	Deadlocks      int64
	Horizons       int64
	SamplePaths    []string
}

// RunOnce executes body under the given choice prefix and returns the execution.
func RunOnce(cfg *Config, prefix []int, body func()) *Exec {
	if cur != nil {
		panic("mcrt: nested executions")
	}
	epoch++
	if cfg.Horizon == 0 {
		cfg.Horizon = 20000
	}
	w := &World{epoch: epoch, prefix: prefix, cfg: cfg, exited: make(chan struct{}), doneCh: make(chan struct{}),
		traceOps: cfg.TraceOps}
	cur = w
	w.main = w.newThread("main", body)
	w.main.label = "start"
	w.cur = w.main
	w.main.resume <- struct{}{}
	<-w.doneCh
	RaceAcquire(unsafe.Pointer(&w.endSync))
	cur = nil
	cov := map[string]int{}
	for _, c := range w.covered {
		cov[c.tag] = c.n
	}
	x := &Exec{Out: w.out, Points: w.points, Trace: w.trace, Covered: cov, UserData: w.userData, Now: time.Duration(w.now)}
	x.Out.Steps = w.steps
	x.Choices = make([]int, len(w.points))
	for i, p := range w.points {
		x.Choices[i] = p.Chosen
		if p.Chosen != 0 {
			x.Cost += int(p.Costs[p.Chosen])
		}
	}
	lastStates = &w.states
	return x
}

var lastStates *hashSet

// Explore enumerates every execution of body whose deviation cost is at most cfg.Bound (iterating the bound from 0
// upwards) and calls check on each. check returns an outcome class (for the distinct-outcomes counter); violations
// are reported by the harness itself from inside check. Explore returns what was covered.
func Explore(cfg Config, body func(), check func(x *Exec) string) *Stats {
	st := &Stats{Outcomes: map[string]int64{}, Covered: map[string]int64{}, BoundCompleted: -1, Exhaustive: true}
	states := map[uint64]struct{}{}
	seenGate := false
	for b := 0; b <= cfg.Bound; b++ {
		complete := true
		var rec func(prefix []int, onlyNew bool) bool
		// explore(prefix): run prefix+defaults, then branch on every later point within the bound.
		// To avoid re-running executions already seen at lower bounds the iteration is from scratch per bound but
		// only executions with cost exactly b are *checked*; cheaper ones were checked in an earlier round.
		rec = func(prefix []int, _ bool) bool {
			if cfg.MaxExec > 0 && st.Executions >= cfg.MaxExec {
				st.CapHit = fmt.Sprintf("execution cap %d", cfg.MaxExec)
				return false
			}
			if !cfg.Deadline.IsZero() && st.Executions&63 == 0 && time.Now().After(cfg.Deadline) {
				st.CapHit = "time budget"
				return false
			}
			x := RunOnce(&cfg, prefix, body)
			if x.Out.Divergence != "" {
				panic("mcrt: nondeterministic harness: " + x.Out.Divergence)
			}
			if !seenGate {
				// determinism gate: the same choice sequence must reproduce the same execution
				seenGate = true
				y := RunOnce(&cfg, x.Choices, body)
				if y.Fingerprint() != x.Fingerprint() {
					panic(fmt.Sprintf("mcrt: determinism gate failed for %s: replaying the first execution gave a different trace\n first: %v\n again: %v", cfg.Name, x.Trace, y.Trace))
				}
			}
			if x.Cost == b || b == 0 {
				st.Executions++
				st.Transitions += int64(x.Out.Steps)
				if len(x.Points) > st.MaxDepth {
					st.MaxDepth = len(x.Points)
				}
				lastStates.each(func(k uint64) { states[k] = struct{}{} })
				for k, v := range x.Covered {
					st.Covered[k] += int64(v)
				}
				if x.Out.Deadlock {
					st.Deadlocks++
				}
				if x.Out.Horizon {
					st.Horizons++
				}
				cls := check(x)
				st.Outcomes[cls]++
				if len(st.SamplePaths) < 6 && (st.Executions < 3 || x.Cost > 0) {
					st.SamplePaths = append(st.SamplePaths, fmt.Sprintf("cost=%d schedule=[%s] deviations=%v outcome=%s", x.Cost, scheduleString(x.Trace, 60), x.Describe(), cls))
				}
			}
			base := 0
			for i := 0; i < len(x.Points); i++ {
				p := x.Points[i]
				if i >= len(prefix) && p.N > 1 {
					for alt := 1; alt < p.N; alt++ {
						if base+int(p.Costs[alt]) > b {
							continue
						}
						np := make([]int, i+1)
						copy(np, x.Choices[:i])
						np[i] = alt
						if !rec(np, true) {
							return false
						}
					}
				}
				if p.Chosen != 0 {
					base += int(p.Costs[p.Chosen])
				}
			}
			return true
		}
		complete = rec(nil, false)
		if !complete {
			st.Exhaustive = false
			break
		}
		st.BoundCompleted = b
	}
	st.States = len(states)
	return st
}

func scheduleString(tr []uint32, max int) string {
	var b strings.Builder
	for i, id := range tr {
		if i >= max {
			b.WriteString("…")
			break
		}
		fmt.Fprintf(&b, "%d", id)
	}
	return b.String()
}
