package mcrt

import (
	"time"
)

// Base is the wall-clock reading of virtual time zero.
var Base = time.Date(2024, time.January, 2, 3, 4, 5, 0, time.UTC)

type vtimer struct {
	when    int64
	seq     uint64
	period  int64
	ch      chan time.Time // timer/ticker channel (cap 1), nil for AfterFunc / sleepers
	fn      func()         // AfterFunc body
	sleeper *Thread
	th      *Thread // AfterFunc: the pre-created callback thread
	pending bool
	owner   *VTimer
}

// VTimer is the controlled implementation behind mctime.Timer / mctime.Ticker.
type VTimer struct {
	C  chan time.Time
	t  *vtimer
	ep uint64
}

// Now returns the virtual time.
//
//go:norace
func Now() time.Time {
	if w := cur; w != nil {
		return Base.Add(time.Duration(w.now))
	}
	return time.Now()
}

// NowNanos returns virtual nanoseconds since Base.
//
//go:norace
func NowNanos() int64 {
	if w := cur; w != nil {
		return w.now
	}
	return int64(time.Since(Base))
}

//go:norace
func (w *World) addTimer(t *vtimer) {
	w.tseq++
	t.seq = w.tseq
	t.pending = true
	w.timers = append(w.timers, t)
}

//go:norace
func (w *World) delTimer(t *vtimer) bool {
	for i, x := range w.timers {
		if x == t {
			// manual shift: the append/copy runtime helpers report their accesses to the race detector, and this
			// slice is shared by all threads of the execution without a visible happens-before edge
			for j := i; j+1 < len(w.timers); j++ {
				w.timers[j] = w.timers[j+1]
			}
			w.timers[len(w.timers)-1] = nil
			w.timers = w.timers[:len(w.timers)-1]
			t.pending = false
			return true
		}
	}
	return false
}

//go:norace
func (w *World) earliest() *vtimer {
	var best *vtimer
	for _, t := range w.timers {
		if best == nil || t.when < best.when || (t.when == best.when && t.seq < best.seq) {
			best = t
		}
	}
	return best
}

// fireDue fires every timer whose deadline is not in the future (virtual time only moves in fireEarliest).
//
//go:norace
func (w *World) fireDue() {
	for {
		t := w.earliest()
		if t == nil || t.when > w.now {
			return
		}
		w.fire(t)
	}
}

// fireEarliest advances the clock to the earliest pending timer and fires it.
//
//go:norace
func (w *World) fireEarliest() {
	t := w.earliest()
	if t == nil {
		return
	}
	if t.when > w.now {
		w.now = t.when
	}
	w.fire(t)
}

//go:norace
func (w *World) fire(t *vtimer) {
	w.delTimer(t)
	switch {
	case t.ch != nil:
		raceDisable() // the scheduler delivers the tick on behalf of the runtime: no edge from whoever runs the scheduler
		select {
		case t.ch <- Base.Add(time.Duration(t.when)):
		default: // a tick nobody consumed is dropped, as in Go
		}
		raceEnable()
		if t.period > 0 {
			t.when += t.period
			if t.when <= w.now {
				t.when = w.now + t.period
			}
			w.addTimer(t)
		}
	case t.fn != nil:
		// the thread was created (parked, not startable) by the arming thread, so that in race builds it inherits the
		// arming thread's clock (timer start happens-before the callback) and not the clock of whoever runs the scheduler
		if t.th != nil && t.th.notStarted {
			t.th.notStarted = false
			t.th = nil
		} else { // re-armed after it already ran once
			th := w.newThread("afterfunc", t.fn)
			th.label = "start"
		}
	case t.sleeper != nil:
		// the sleeper's enabledness is now >= sleepTill; nothing else to do
	}
}

// Sleep parks the thread until virtual time has advanced by d.
//
//go:norace
func Sleep(d time.Duration) {
	w := cur
	if w == nil {
		time.Sleep(d)
		return
	}
	if w.aborting {
		return
	}
	t := w.cur
	if d <= 0 {
		w.Point("sleep0", nil)
		return
	}
	t.sleepTill = w.now + int64(d)
	vt := &vtimer{when: t.sleepTill, sleeper: t}
	w.addTimer(vt)
	t.label = "sleep"
	w.schedule()
	t.sleepTill = 0
}

// NewVTimer creates a one-shot (period 0) or periodic timer.
//
//go:norace
func NewVTimer(d, period time.Duration) *VTimer {
	w := cur
	if w == nil {
		panic("mcrt: virtual timer outside an execution")
	}
	vt := &VTimer{C: make(chan time.Time, 1), ep: w.epoch}
	vt.t = &vtimer{when: w.now + int64(d), period: int64(period), ch: vt.C, owner: vt}
	if !w.aborting {
		w.addTimer(vt.t)
	}
	return vt
}

// AfterFunc runs f in a new thread after d.
//
//go:norace
func AfterFunc(d time.Duration, f func()) *VTimer {
	w := cur
	if w == nil {
		panic("mcrt: virtual timer outside an execution")
	}
	vt := &VTimer{ep: w.epoch}
	vt.t = &vtimer{when: w.now + int64(d), fn: f, owner: vt}
	if !w.aborting {
		vt.t.th = w.newThread("afterfunc", f)
		vt.t.th.label = "start"
		vt.t.th.notStarted = true
		w.addTimer(vt.t)
	}
	return vt
}

// Stop implements the go1.23+ timer semantics: it reports whether the call prevented the timer's value from being
// delivered (still pending, or fired but not yet received), and no stale value can be received after it returns.
//
//go:norace
func (vt *VTimer) Stop() bool {
	w := cur
	if w == nil || w.aborting || vt.ep != w.epoch {
		return false
	}
	was := w.delTimer(vt.t)
	if vt.C != nil {
		select {
		case <-vt.C:
			was = true
		default:
		}
	}
	return was
}

// Reset re-arms the timer; same return value as Stop.
//
//go:norace
func (vt *VTimer) Reset(d time.Duration) bool {
	w := cur
	if w == nil || w.aborting || vt.ep != w.epoch {
		return false
	}
	was := vt.Stop()
	vt.t.when = w.now + int64(d)
	w.addTimer(vt.t)
	return was
}

// ResetPeriod re-arms a ticker with a new period.
//
//go:norace
func (vt *VTimer) ResetPeriod(d time.Duration) {
	w := cur
	if w == nil || w.aborting || vt.ep != w.epoch {
		return
	}
	vt.Stop()
	vt.t.period = int64(d)
	vt.t.when = w.now + int64(d)
	w.addTimer(vt.t)
}

// PendingTimers reports how many timers are armed (harness assertions).
//
//go:norace
func PendingTimers() int {
	if w := cur; w != nil {
		return len(w.timers)
	}
	return 0
}
