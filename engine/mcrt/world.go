// Package mcrt is the controlled runtime of the model checker: real goroutines ("threads") of which exactly one
// runs at a time; every visible operation (lock, atomic, channel operation, select, timer, spawn, environment
// answer) is announced to the scheduler *before* it happens, so the scheduler knows which threads are enabled and
// the explorer (explore.go) can enumerate every schedule within a deviation bound. Time is virtual.
//
// The rewritten sources of the repository (engine/mcgen) call into this package through the shim packages
// mcsync / mcatomic / mctime / mcctx and through the channel functions in chan.go. When no world is active
// (package initialisation, ordinary tests) every shim falls through to the real primitive.
package mcrt

import (
	"fmt"
	"runtime"
	"runtime/debug"
	"strings"
	"time"
	"unsafe"
)

// Thread is one controlled goroutine.
type Thread struct {
	ID     int
	Name   string
	Daemon bool // background loop the harness does not wait for (cleaners, tickers)

	resume chan struct{}
	done   bool

	// pending operation (valid while the thread is not running)
	label string
	ready func() bool // nil: always enabled
	waits []chanWait  // channel operations the thread is parked on (1 for send/recv, n for select)
	// filled by a partner that completed a rendezvous with this parked thread
	completed   int // index into waits, -1 if none
	recvOK      bool
	sleepTill   int64 // >0: parked in Sleep until this virtual time (ns)
	hbOut, hbIn int64 // race builds: clocks exchanged at unbuffered channel rendezvous
	notStarted  bool  // AfterFunc callback thread whose timer has not fired (never enabled, not counted as live)
	blockedAt   int64 // latest virtual time at which a scheduling round found this thread disabled
}

// Point is one recorded choice point of an execution.
type Point struct {
	N      int    // number of alternatives
	Chosen int    // alternative taken
	Kind   byte   // 's' schedule, 'c' select case / partner, 'e' environment, 'd' data
	Costs  []int8 // cost of each alternative (0 = free, 1 = one deviation)
	Label  string
}

// Outcome of one execution.
type Outcome struct {
	Deadlock   bool
	Horizon    bool
	Panic      string // first panic raised by a thread of the program (with stack)
	Fatal      string // misuse detected by a shim (unlock of unlocked mutex, negative WaitGroup, ...)
	Blocked    []string
	Steps      int
	LiveAtEnd  int // non-daemon threads still alive when the main thread finished
	Divergence string
	Invariant  string // first invariant violation reported by the harness hook (see Invariant)
}

// World is one execution.
type World struct {
	epoch   uint64
	threads []*Thread
	cur     *Thread
	main    *Thread

	prefix []int
	points []Point
	trace  []uint32 // thread id per scheduling step (for fingerprints and replays)
	steps  int
	cfg    *Config

	now    int64 // virtual nanoseconds since Base
	timers []*vtimer
	tseq   uint64

	aborting    bool
	closeOnExit bool
	initiator   *Thread
	finished    bool
	exited      chan struct{}
	doneCh      chan struct{}
	out         Outcome

	closed   []unsafe.Pointer // channels closed in this execution (slice, not map: see race_on.go)
	covered  []covEntry
	stateFn  func() string
	states   hashSet
	gateSync int64 // race builds: harness gates (WaitUntil) acquire what every thread published at its last Point
	endSync  int64 // race builds: every thread releases into it when it ends, the driver acquires it
	opTrace  []string
	traceOps bool
	userData any
	keyIDs   []mapID
	invFn    func() string
}

var (
	cur   *World // the active world; nil outside executions
	epoch uint64
)

// W returns the active world or nil.
//
//go:norace
func W() *World { return cur }

// Active reports whether a controlled execution is running (and not being torn down).
//
//go:norace
func Active() bool { return cur != nil && !cur.aborting }

// Epoch returns the identifier of the current execution (0 outside executions). Shim objects compare it with the
// epoch of their last use to drop state left over from earlier executions.
//
//go:norace
func (w *World) Epoch() uint64 { return w.epoch }

// Aborting reports that the execution is over and remaining threads are being unwound; shims become no-ops.
//
//go:norace
func (w *World) Aborting() bool { return w.aborting }

//go:norace
func (w *World) Cur() *Thread { return w.cur }

// CurrentID returns the id of the running thread (-1 outside a world).
//
//go:norace
func CurrentID() int {
	if cur == nil || cur.cur == nil {
		return -1
	}
	return cur.cur.ID
}

// Fail records a misuse of a primitive that would crash a real program (fatal error) and ends the execution.
//
//go:norace
func (w *World) Fail(msg string) {
	if w.aborting {
		return
	}
	if w.out.Fatal == "" {
		w.out.Fatal = msg + "\n" + string(debug.Stack())
	}
	w.stopNow()
}

// stopNow ends the execution from the running thread: all other threads are unwound, then the caller exits.
//
//go:norace
func (w *World) stopNow() {
	me := w.cur
	w.teardown(me)
	me.done = true
	// doneCh is closed by the outermost deferred handler of this thread (newThread), i.e. only after the program's own
	// deferred calls of this thread have run under the still-installed, aborting world — otherwise they could leak
	// into the next execution.
	w.closeOnExit = true
	runtime.Goexit()
}

// teardown unwinds every parked thread except `except`, one at a time.
//
//go:norace
func (w *World) teardown(except *Thread) {
	w.initiator = except
	w.aborting = true
	w.finished = true
	for i := 0; i < len(w.threads); i++ { // threads may not grow during abort (Go is a no-op)
		t := w.threads[i]
		if t == except || t.done {
			continue
		}
		w.cur = t
		t.resume <- struct{}{} // teardown hand-offs keep their happens-before edges: exploration of this execution is over
		<-w.exited
	}
	w.cur = except
}

//go:norace
func (w *World) newThread(name string, f func()) *Thread {
	t := &Thread{ID: len(w.threads), Name: name, resume: make(chan struct{}, 1), completed: -1}
	w.threads = append(w.threads, t)
	go func() {
		raceDisable()
		<-t.resume
		raceEnable()
		if w.aborting {
			t.done = true
			w.exited <- struct{}{}
			return
		}
		defer func() {
			// Runs last, also when stopNow() (Goexit) is reached from inside this handler (thread exit -> schedule ->
			// deadlock): the execution is reported finished only after every deferred call of this thread has run.
			defer func() {
				if w.closeOnExit && t == w.initiator {
					w.closeOnExit = false
					close(w.doneCh)
				}
			}()
			e := recover() // nil on normal return and on Goexit
			t.done = true
			RaceReleaseMerge(unsafe.Pointer(&w.endSync))
			if w.aborting {
				// either this thread is being unwound by teardown, or it initiated the teardown itself
				if t != w.initiator {
					w.exited <- struct{}{}
				}
				return
			}
			if e != nil {
				if w.out.Panic == "" {
					w.out.Panic = fmt.Sprintf("panic in thread %d (%s): %v\n%s", t.ID, t.Name, e, debug.Stack())
				}
				w.teardown(t)
				close(w.doneCh)
				return
			}
			w.threadExit(t) // normal return, or runtime.Goexit called by the program
		}()
		f()
	}()
	return t
}

// threadExit is called by a thread that finished normally.
//
//go:norace
func (w *World) threadExit(t *Thread) {
	if t == w.main {
		for _, o := range w.threads {
			if !o.done && !o.Daemon && !o.notStarted {
				w.out.LiveAtEnd++
			}
		}
		w.teardown(t)
		close(w.doneCh)
		return
	}
	w.schedule()
}

// Go starts a new controlled thread (the rewritten form of a go statement).
//
//go:norace
func Go(f func()) { GoNamed("", f) }

//go:norace
func GoNamed(name string, f func()) *Thread {
	w := cur
	if w == nil {
		go f()
		return nil
	}
	if w.aborting {
		return nil
	}
	t := w.newThread(name, f)
	t.label = "start"
	// spawning is visible: the new thread may run before the spawner continues (one preemption)
	w.Point("go", nil)
	return t
}

// Daemon marks the calling thread as a background loop that may be alive when the main thread ends.
//
//go:norace
func Daemon() {
	if w := cur; w != nil && w.cur != nil {
		w.cur.Daemon = true
	}
}

// Yield is a pure scheduling point (inside polling loops and harness gates).
//
//go:norace
func Yield() {
	if w := cur; w != nil && !w.aborting {
		w.Point("yield", nil)
	}
}

// WaitUntil parks the calling thread until cond() holds (cond is evaluated by the scheduler; it must be side-effect
// free). It is how harness gates are written.
//
//go:norace
func WaitUntil(label string, cond func() bool) {
	if w := cur; w != nil && !w.aborting {
		w.Point(label, cond)
		// A harness gate stands for a spin on an atomic flag in a real program: what the other threads did before the
		// condition became true is visible to the waiter. (Race builds; every thread publishes at every Point.)
		RaceAcquire(unsafe.Pointer(&w.gateSync))
	}
}

// Point announces a visible operation of the running thread and parks it until the scheduler chooses it while
// ready() holds. On return the caller is the running thread and performs the operation atomically.
//
//go:norace
func (w *World) Point(label string, ready func() bool) {
	if w.aborting {
		return
	}
	t := w.cur
	t.label = label
	t.ready = ready
	if RaceOn {
		RaceReleaseMerge(unsafe.Pointer(&w.gateSync)) // see WaitUntil
	}
	w.schedule()
	t.ready = nil
}

//go:norace
func (t *Thread) enabled(w *World) bool {
	if t.done || t.notStarted {
		return false
	}
	if t.completed >= 0 {
		return true
	}
	if t.sleepTill > 0 {
		return w.now >= t.sleepTill
	}
	if len(t.waits) > 0 {
		return w.anyWaitReady(t)
	}
	return t.ready == nil || t.ready()
}

// schedule picks the next thread to run. Called by the running thread after it set its pending operation (or
// finished). Returns when the caller is chosen again (never, if it finished).
//
//go:norace
func (w *World) schedule() {
	me := w.cur
	for {
		w.steps++
		if w.steps > w.cfg.Horizon {
			w.out.Horizon = true
			w.out.Blocked = w.blockedTable()
			w.stopNow()
		}
		w.fireDue()
		if w.invFn != nil && w.out.Invariant == "" {
			if msg := w.invFn(); msg != "" {
				w.out.Invariant = msg
				w.stopNow()
			}
		}
		var en []*Thread
		if !me.done && me.enabled(w) {
			en = append(en, me)
		}
		if !me.done && len(en) == 0 {
			me.blockedAt = w.now
		}
		for _, t := range w.threads {
			if t == me || t.done {
				continue
			}
			if t.enabled(w) {
				en = append(en, t)
			} else if !t.notStarted {
				t.blockedAt = w.now
			}
		}
		timerAlt := len(w.timers) > 0
		if len(en) == 0 {
			if timerAlt {
				w.fireEarliest()
				continue
			}
			// nothing can run and no timer is pending
			w.out.Deadlock = true
			w.out.Blocked = w.blockedTable()
			w.stopNow()
		}
		n := len(en)
		alts := n
		if timerAlt && w.cfg.TimerFirst {
			alts++
		}
		choice := 0
		if alts > 1 {
			costs := make([]int8, alts)
			meEnabled := en[0] == me
			for i := 1; i < n; i++ {
				if meEnabled {
					costs[i] = 1
				}
			}
			if alts > n {
				costs[n] = 1
			}
			choice = w.choose('s', alts, costs, me.label)
		}
		if choice == n {
			w.fireEarliest()
			continue
		}
		next := en[choice]
		w.trace = append(w.trace, uint32(next.ID))
		if w.stateFn != nil || w.cfg.CountStates {
			w.noteState(next)
		}
		if next == me {
			return
		}
		w.cur = next
		// The hand-off is invisible to the race detector (race builds): it orders nothing in the program.
		raceDisable()
		next.resume <- struct{}{}
		if me.done {
			raceEnable()
			return
		}
		<-me.resume
		raceEnable()
		if w.aborting {
			runtime.Goexit()
		}
		return
	}
}

//go:norace
func (w *World) onlyDaemonsLeft() bool {
	for _, t := range w.threads {
		if !t.done && !t.Daemon {
			return false
		}
	}
	return true
}

//go:norace
func (w *World) blockedTable() []string {
	var out []string
	for _, t := range w.threads {
		if t.done || t.notStarted {
			continue
		}
		s := fmt.Sprintf("thread %d %s: %s", t.ID, t.Name, t.label)
		if t.Daemon {
			s += " (daemon)"
		}
		out = append(out, s)
	}
	return out
}

// choose records a choice point and returns the alternative dictated by the replay prefix (default 0 beyond it).
//
//go:norace
func (w *World) choose(kind byte, n int, costs []int8, label string) int {
	pos := len(w.points)
	c := 0
	if pos < len(w.prefix) {
		c = w.prefix[pos]
		if c >= n || c < 0 {
			w.out.Divergence = fmt.Sprintf("replay diverged at choice point %d (%s): prefix asks for alternative %d of %d", pos, label, c, n)
			w.points = append(w.points, Point{N: n, Chosen: 0, Kind: kind, Costs: costs, Label: label})
			w.stopNow()
		}
	}
	w.points = append(w.points, Point{N: n, Chosen: c, Kind: kind, Costs: costs, Label: label})
	return c
}

// Pick is a free data choice of the harness (scenario parameters): all alternatives are explored at no cost.
//
//go:norace
func Pick(n int, label string) int {
	w := cur
	if w == nil || n <= 1 {
		return 0
	}
	return w.choose('d', n, make([]int8, n), label)
}

// Env is an environment answer (short read, error, dial outcome, ...): alternative 0 is the default, any other
// costs one deviation.
//
//go:norace
func Env(n int, label string) int {
	w := cur
	if w == nil || n <= 1 || w.aborting {
		return 0
	}
	costs := make([]int8, n)
	for i := 1; i < n; i++ {
		costs[i] = 1
	}
	return w.choose('e', n, costs, label)
}

type covEntry struct {
	tag string
	n   int
}

// Covered counts that the execution reached a code path the check is about (anti-vacuity evidence).
//
//go:norace
func Covered(tag string) {
	if w := cur; w != nil {
		for i := range w.covered {
			if w.covered[i].tag == tag {
				w.covered[i].n++
				return
			}
		}
		w.covered = append(w.covered, covEntry{tag, 1})
	}
}

// hashSet is a grow-only open-addressing set of non-zero 64-bit hashes. It deliberately avoids the built-in map and
// copy: their runtime helpers report accesses to the race detector, and this structure is shared by all threads of
// an execution without a happens-before edge the detector may see.
type hashSet struct {
	tab []uint64
	n   int
}

//go:norace
func (h *hashSet) add(k uint64) {
	if k == 0 {
		k = 1
	}
	if h.n*2 >= len(h.tab) {
		old := h.tab
		size := 64
		if len(old) > 0 {
			size = len(old) * 2
		}
		h.tab = make([]uint64, size)
		h.n = 0
		for i := 0; i < len(old); i++ {
			if old[i] != 0 {
				h.add(old[i])
			}
		}
	}
	mask := uint64(len(h.tab) - 1)
	for i := k & mask; ; i = (i + 1) & mask {
		if h.tab[i] == k {
			return
		}
		if h.tab[i] == 0 {
			h.tab[i] = k
			h.n++
			return
		}
	}
}

// each calls f for every element.
//
//go:norace
func (h *hashSet) each(f func(uint64)) {
	for _, k := range h.tab {
		if k != 0 {
			f(k)
		}
	}
}

// SetStateKey installs a function describing the harness-visible state; distinct values seen at scheduling points
// are counted as states in the evidence.
//
//go:norace
func SetStateKey(f func() string) {
	if w := cur; w != nil {
		w.stateFn = f
	}
}

//go:norace
func (w *World) noteState(next *Thread) {
	h := uint64(14695981039346656037)
	mix := func(s string) {
		for i := 0; i < len(s); i++ {
			h ^= uint64(s[i])
			h *= 1099511628211
		}
		h ^= 0xff
		h *= 1099511628211
	}
	for _, t := range w.threads {
		if t.done {
			mix("-")
		} else {
			mix(t.label)
		}
	}
	h ^= uint64(next.ID)
	h *= 1099511628211
	if w.stateFn != nil {
		mix(w.stateFn())
	}
	w.states.add(h)
}

// SetUserData / UserData let a harness attach its per-execution observation record to the world.
//
//go:norace
func SetUserData(v any) {
	if w := cur; w != nil {
		w.userData = v
	}
}

//go:norace
func UserData() any {
	if w := cur; w != nil {
		return w.userData
	}
	return nil
}

// Schedule returns the executed schedule as a compact string (thread ids).
//
//go:norace
func (w *World) ScheduleString() string {
	var b strings.Builder
	for i, id := range w.trace {
		if i > 0 {
			b.WriteByte(' ')
		}
		fmt.Fprintf(&b, "%d", id)
	}
	return b.String()
}

// Param returns the value of a scale constant of the rewritten sources (see engine/mcgen): the harness may shrink it
// with SetParam before an exploration; by default it is the original value.
//
//go:norace
func Param(name string, orig int) int {
	if v, ok := paramOverride[name]; ok {
		return v
	}
	return orig
}

var paramOverride = map[string]int{}

// SetParam overrides a scale constant for subsequent package initialisations. Because rewritten constants become
// package-level variables initialised once, overrides must be provided through the environment variable
// VERIF_PARAMS ("pkg:Name=value,...") which is read at init time.
//
//go:norace
func SetParam(name string, v int) { paramOverride[name] = v }

// BlockedUntil returns the latest virtual time (since Base) at which the scheduler found the calling thread blocked.
// "The call returned by its deadline plus scheduling slack" is checked as BlockedUntil() <= deadline right after the
// call: from the deadline on the thread was runnable all the time, however late the scheduler let it run.
//
//go:norace
func BlockedUntil() time.Duration {
	if w := cur; w != nil && w.cur != nil {
		return time.Duration(w.cur.blockedAt)
	}
	return 0
}

// Invariant installs a predicate evaluated at every scheduling step (between two visible operations, i.e. in every
// reachable state of the explored system); a non-empty return value ends the execution as an invariant violation.
//
//go:norace
func Invariant(f func() string) {
	if w := cur; w != nil {
		w.invFn = f
	}
}

// LiveThreads returns the number of threads that have been started and have not finished.
//
//go:norace
func LiveThreads() int {
	n := 0
	if w := cur; w != nil {
		for _, t := range w.threads {
			if !t.done && !t.notStarted {
				n++
			}
		}
	}
	return n
}

// LiveNamed counts live threads whose name has the given prefix.
//
//go:norace
func LiveNamed(prefix string) int {
	n := 0
	if w := cur; w != nil {
		for _, t := range w.threads {
			if !t.done && strings.HasPrefix(t.Name, prefix) {
				n++
			}
		}
	}
	return n
}

// SetName names the calling thread (threads started by rewritten go statements are anonymous).
//
//go:norace
func SetName(name string) {
	if w := cur; w != nil && w.cur != nil {
		w.cur.Name = name
	}
}

// ---- deterministic map iteration (engine/mcgen rewrites `for k, v := range m` over maps) -----------------------

type mapID struct {
	k  any
	id int
}

// Key registers a map key the first time rewritten code uses it to index a map, so that MapKeys can order keys that
// have no natural order (pointers, interfaces) by first use — deterministic, because executions are.
//
//go:norace
func Key[K comparable](k K) K {
	w := cur
	if w == nil {
		return k
	}
	switch any(k).(type) {
	case string, int, int32, int64, uint32, uint64, uint16, uint8, int16, int8, uint, uintptr:
		return k
	}
	w.keyID(any(k))
	return k
}

//go:norace
func (w *World) keyID(k any) int {
	for i := range w.keyIDs {
		if w.keyIDs[i].k == k {
			return w.keyIDs[i].id
		}
	}
	w.keyIDs = append(w.keyIDs, mapID{k, len(w.keyIDs)})
	return len(w.keyIDs) - 1
}

// MapKeys returns the keys of m in a deterministic order: natural order for strings and integers, order of first use
// (see Key) otherwise. Go's own iteration order is random, which would make replays diverge.
//
//go:norace
func MapKeys[K comparable, V any](m map[K]V) []K {
	keys := make([]K, 0, len(m))
	for k := range m {
		keys = append(keys, k)
	}
	w := cur
	if w == nil || len(keys) < 2 {
		return keys
	}
	less := func(a, b K) bool {
		switch x := any(a).(type) {
		case string:
			return x < any(b).(string)
		case int:
			return x < any(b).(int)
		case int64:
			return x < any(b).(int64)
		case uint32:
			return x < any(b).(uint32)
		case uint64:
			return x < any(b).(uint64)
		case int32:
			return x < any(b).(int32)
		}
		return w.keyID(any(a)) < w.keyID(any(b))
	}
	// keys never seen by Key get ids now, in (random) iteration order; rewritten code registers keys on insertion
	for i := 1; i < len(keys); i++ {
		for j := i; j > 0 && less(keys[j], keys[j-1]); j-- {
			keys[j], keys[j-1] = keys[j-1], keys[j]
		}
	}
	return keys
}
