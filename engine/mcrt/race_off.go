//go:build !race

package mcrt

import "unsafe"

const RaceOn = false

func raceDisable() {}
func raceEnable()  {}

func RaceAcquire(p unsafe.Pointer)      {}
func RaceRelease(p unsafe.Pointer)      {}
func RaceReleaseMerge(p unsafe.Pointer) {}
