//go:build race

package mcrt

import (
	"runtime"
	"unsafe"
)

// RaceOn reports that the binary was built with -race: hand-offs between controlled threads are then hidden from
// the race detector (they would order everything), and every shim primitive re-creates exactly the happens-before
// edges the real primitive guarantees. The detector then judges the program's own plain memory accesses on every
// explored schedule.
const RaceOn = true

//go:norace
func raceDisable() { runtime.RaceDisable() }

//go:norace
func raceEnable() { runtime.RaceEnable() }

// RaceAcquire / RaceRelease / RaceReleaseMerge annotate happens-before edges on the address of a shim object.
//
//go:norace
func RaceAcquire(p unsafe.Pointer) { runtime.RaceAcquire(p) }

//go:norace
func RaceRelease(p unsafe.Pointer) { runtime.RaceRelease(p) }

//go:norace
func RaceReleaseMerge(p unsafe.Pointer) { runtime.RaceReleaseMerge(p) }
