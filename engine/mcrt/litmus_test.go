package mcrt_test

import (
	"fmt"
	"testing"
	"time"

	atomic "github.com/valyala/fasthttp/internal/verif/mcatomic"
	"github.com/valyala/fasthttp/internal/verif/mcrt"
	sync "github.com/valyala/fasthttp/internal/verif/mcsync"
	mtime "github.com/valyala/fasthttp/internal/verif/mctime"
)

func explore(t *testing.T, name string, bound int, timerFirst bool, body func() string) *mcrt.Stats {
	var res string
	st := mcrt.Explore(mcrt.Config{Name: name, Bound: bound, TimerFirst: timerFirst, CountStates: true}, func() { res = body() },
		func(x *mcrt.Exec) string {
			if x.Out.Deadlock {
				return "deadlock"
			}
			if x.Out.Panic != "" {
				return "panic"
			}
			if x.Out.Fatal != "" {
				return "fatal"
			}
			return res
		})
	t.Logf("%s: exec=%d trans=%d states=%d bound=%d outcomes=%v", name, st.Executions, st.Transitions, st.States, st.BoundCompleted, st.Outcomes)
	return st
}

func wantOutcomes(t *testing.T, st *mcrt.Stats, want ...string) {
	t.Helper()
	if len(st.Outcomes) != len(want) {
		t.Fatalf("outcomes %v, want exactly %v", st.Outcomes, want)
	}
	for _, w := range want {
		if st.Outcomes[w] == 0 {
			t.Fatalf("outcomes %v, want exactly %v", st.Outcomes, want)
		}
	}
}

// lost update without a lock: needs one preemption between load and store.
func TestLitmusLostUpdate(t *testing.T) {
	body := func() string {
		var x atomic.Int32
		var wg sync.WaitGroup
		for i := 0; i < 2; i++ {
			wg.Add(1)
			mcrt.Go(func() {
				v := x.Load()
				x.Store(v + 1)
				wg.Done()
			})
		}
		wg.Wait()
		return fmt.Sprint(x.Load())
	}
	wantOutcomes(t, explore(t, "lostupdate-b0", 0, false, body), "2")
	wantOutcomes(t, explore(t, "lostupdate-b1", 1, false, body), "2", "1")
}

func TestLitmusMutex(t *testing.T) {
	body := func() string {
		var mu sync.Mutex
		x := 0
		var wg sync.WaitGroup
		for i := 0; i < 3; i++ {
			wg.Add(1)
			mcrt.Go(func() {
				mu.Lock()
				v := x
				mcrt.Yield()
				x = v + 1
				mu.Unlock()
				wg.Done()
			})
		}
		wg.Wait()
		return fmt.Sprint(x)
	}
	wantOutcomes(t, explore(t, "mutex", 2, false, body), "3")
}

func TestLitmusDeadlock(t *testing.T) {
	body := func() string {
		var a, b sync.Mutex
		var wg sync.WaitGroup
		wg.Add(2)
		mcrt.Go(func() { a.Lock(); b.Lock(); b.Unlock(); a.Unlock(); wg.Done() })
		mcrt.Go(func() { b.Lock(); a.Lock(); a.Unlock(); b.Unlock(); wg.Done() })
		wg.Wait()
		return "ok"
	}
	wantOutcomes(t, explore(t, "abba-b0", 0, false, body), "ok")
	wantOutcomes(t, explore(t, "abba-b1", 1, false, body), "ok", "deadlock")
}

func TestLitmusUnbufferedChan(t *testing.T) {
	body := func() string {
		ch := make(chan int)
		done := make(chan string)
		mcrt.Go(func() {
			s := ""
			for v := range chanIter(ch) {
				s += fmt.Sprint(v)
			}
			mcrt.Send(done, s)
		})
		mcrt.Go(func() { mcrt.Send(ch, 1) })
		mcrt.Go(func() { mcrt.Send(ch, 2) })
		r := ""
		// collect: two values then close
		mcrt.WaitUntil("both-sent", func() bool { return false || sent2(ch) })
		mcrt.Close(ch)
		r = mcrt.Recv(done)
		return r
	}
	_ = body
	body2 := func() string {
		ch := make(chan int)
		var wg sync.WaitGroup
		wg.Add(2)
		mcrt.Go(func() { mcrt.Send(ch, 1); wg.Done() })
		mcrt.Go(func() { mcrt.Send(ch, 2); wg.Done() })
		a := mcrt.Recv(ch)
		b := mcrt.Recv(ch)
		wg.Wait()
		return fmt.Sprint(a, b)
	}
	wantOutcomes(t, explore(t, "unbuffered", 2, false, body2), "1 2", "2 1")
}

func chanIter(ch chan int) map[int]int { return nil }
func sent2(ch chan int) bool           { return true }

func TestLitmusBufferedAndClose(t *testing.T) {
	body := func() string {
		ch := make(chan int, 1)
		res := make(chan string, 1)
		mcrt.Go(func() {
			s := ""
			for {
				v, ok := mcrt.Recv2(ch)
				if !ok {
					break
				}
				s += fmt.Sprint(v)
			}
			mcrt.Send(res, s)
		})
		mcrt.Send(ch, 1)
		mcrt.Send(ch, 2) // blocks until the receiver took 1
		mcrt.Send(ch, 3)
		mcrt.Close(ch)
		return mcrt.Recv(res)
	}
	wantOutcomes(t, explore(t, "buffered", 2, false, body), "123")
}

func TestLitmusNilChanAndSelect(t *testing.T) {
	body := func() string {
		var nilch chan int
		a := make(chan int, 1)
		b := make(chan int, 1)
		mcrt.Send(a, 1)
		mcrt.Send(b, 2)
		c0 := mcrt.RecvCase(nilch)
		c1 := mcrt.RecvCase(a)
		c2 := mcrt.RecvCase(b)
		switch mcrt.Select(false, c0, c1, c2) {
		case 0:
			return "nil?!"
		case 1:
			return fmt.Sprint("a", c1.V)
		case 2:
			return fmt.Sprint("b", c2.V)
		}
		return "default"
	}
	wantOutcomes(t, explore(t, "select-b0", 0, false, body), "a1")
	wantOutcomes(t, explore(t, "select-b1", 1, false, body), "a1", "b2")
	// default only when nothing is ready
	body2 := func() string {
		a := make(chan int)
		if mcrt.Select(true, mcrt.RecvCase(a)) == -1 {
			return "default"
		}
		return "recv"
	}
	wantOutcomes(t, explore(t, "select-default", 1, false, body2), "default")
	// select send/recv rendezvous with a parked partner
	body3 := func() string {
		a := make(chan int)
		got := make(chan int, 1)
		mcrt.Go(func() { mcrt.Send(got, mcrt.Recv(a)) })
		sc := mcrt.SendCase(a, 7)
		tm := mtime.NewTimer(time.Second)
		switch mcrt.Select(false, sc, mcrt.RecvCase(tm.C)) {
		case 0:
			return fmt.Sprint("sent", mcrt.Recv(got))
		default:
			return "timeout"
		}
	}
	wantOutcomes(t, explore(t, "select-send-b0", 0, false, body3), "sent7")
	wantOutcomes(t, explore(t, "select-send-timerfirst", 1, true, body3), "sent7", "timeout")
}

func TestLitmusTimers(t *testing.T) {
	body := func() string {
		start := mtime.Now()
		tm := mtime.NewTimer(5 * time.Second)
		mtime.Sleep(2 * time.Second)
		if !tm.Stop() {
			return "stop=false?!"
		}
		if tm.Reset(time.Second) {
			return "reset=true?!"
		}
		mcrt.Recv(tm.C)
		if tm.Stop() {
			return "stop-after-fire=true?!"
		}
		tk := mtime.NewTicker(time.Second)
		n := 0
		for n < 3 {
			mcrt.Recv(tk.C)
			n++
		}
		tk.Stop()
		fired := false
		mtime.AfterFunc(time.Second, func() { fired = true })
		mtime.Sleep(2 * time.Second)
		return fmt.Sprint(mtime.Since(start), fired)
	}
	wantOutcomes(t, explore(t, "timers", 1, false, body), "8s true")
}

func TestLitmusOncePoolEpoch(t *testing.T) {
	var once sync.Once // package-level style object shared by all executions
	var pool sync.Pool
	runs := 0
	body := func() string {
		n := 0
		once.Do(func() { n++ })
		once.Do(func() { n++ })
		v := pool.Get()
		pool.Put("x")
		runs++
		return fmt.Sprint(n, v)
	}
	wantOutcomes(t, explore(t, "epoch", 0, false, body), "1 <nil>")
	if runs < 2 {
		t.Fatalf("expected the gate to run the body at least twice, got %d", runs)
	}
}

func TestLitmusWaitersAbort(t *testing.T) {
	// threads parked forever on every kind of primitive must be unwound at the end of each execution
	body := func() string {
		var mu sync.Mutex
		mu.Lock()
		ch := make(chan int)
		mcrt.Go(func() { mcrt.Daemon(); mu.Lock() })
		mcrt.Go(func() { mcrt.Daemon(); mcrt.Recv(ch) })
		mcrt.Go(func() { mcrt.Daemon(); mtime.Sleep(time.Hour) })
		mcrt.Go(func() {
			mcrt.Daemon()
			defer func() { mu.Unlock() }() // runs during unwinding: must be a no-op
			mcrt.BlockForever()
		})
		mcrt.Yield()
		return "ok"
	}
	st := explore(t, "abort", 1, false, body)
	wantOutcomes(t, st, "ok")
}

func TestLitmusPanicAndFatal(t *testing.T) {
	body := func() string {
		var mu sync.Mutex
		if mcrt.Pick(2, "which") == 0 {
			mcrt.Go(func() { panic("boom") })
			mcrt.Yield()
			mcrt.Yield()
			return "survived"
		}
		mu.Unlock()
		return "survived"
	}
	wantOutcomes(t, explore(t, "panic", 1, false, body), "panic", "fatal", "survived")
}

// A deadlock detected while the last runnable thread is exiting (inside its exit hand-off) must end the execution.
func TestLitmusDeadlockAtThreadExit(t *testing.T) {
	body := func() string {
		ch := make(chan int)
		mcrt.Go(func() {}) // exits; main is then blocked forever on ch
		mcrt.Recv(ch)
		return "unreachable"
	}
	wantOutcomes(t, explore(t, "deadlock-at-exit", 1, false, body), "deadlock")
}
