//go:build race

package mcrt_test

import (
	"os"
	"path/filepath"
	"strings"
	"testing"
	"time"

	atomic "github.com/valyala/fasthttp/internal/verif/mcatomic"
	"github.com/valyala/fasthttp/internal/verif/mcrt"
	sync "github.com/valyala/fasthttp/internal/verif/mcsync"
	mtime "github.com/valyala/fasthttp/internal/verif/mctime"
)

// raceLog returns the size of the detector's log (GORACE=log_path=<prefix>): reports are appended as they are found.
func raceLogSize(t *testing.T) int64 {
	prefix := ""
	for _, kv := range strings.Fields(os.Getenv("GORACE")) {
		if strings.HasPrefix(kv, "log_path=") {
			prefix = strings.TrimPrefix(kv, "log_path=")
		}
	}
	if prefix == "" {
		t.Skip("GORACE=log_path=... not set")
	}
	m, _ := filepath.Glob(prefix + ".*")
	var n int64
	for _, f := range m {
		if st, err := os.Stat(f); err == nil {
			n += st.Size()
		}
	}
	return n
}

type litmus struct {
	name  string
	racy  bool
	bound int
	body  func()
}

var sink int

func TestRaceLitmus(t *testing.T) {
	progs := []litmus{
		{"plain-counter-no-sync", true, 1, func() {
			x := 0
			var wg sync.WaitGroup
			wg.Add(2)
			mcrt.Go(func() { x++; wg.Done() })
			mcrt.Go(func() { x++; wg.Done() })
			wg.Wait()
			sink = x
		}},
		{"mutex-counter", false, 2, func() {
			x := 0
			var mu sync.Mutex
			var wg sync.WaitGroup
			for i := 0; i < 3; i++ {
				wg.Add(1)
				mcrt.Go(func() { mu.Lock(); x++; mu.Unlock(); wg.Done() })
			}
			wg.Wait()
			sink = x
		}},
		{"mutex-on-one-side-only", true, 1, func() {
			x := 0
			var mu sync.Mutex
			var wg sync.WaitGroup
			wg.Add(2)
			mcrt.Go(func() { mu.Lock(); x++; mu.Unlock(); wg.Done() })
			mcrt.Go(func() { x++; wg.Done() })
			wg.Wait()
			sink = x
		}},
		{"unbuffered-handoff", false, 2, func() {
			ch := make(chan *int)
			mcrt.Go(func() { v := new(int); *v = 7; mcrt.Send(ch, v) })
			p := mcrt.Recv(ch)
			sink = *p
			*p = 8
		}},
		{"unbuffered-handoff-back-edge", false, 2, func() {
			// a receive happens-before the completion of the corresponding send
			ch := make(chan int)
			x := 0
			mcrt.Go(func() { x = 1; mcrt.Recv(ch) })
			mcrt.Send(ch, 0)
			sink = x
		}},
		{"buffered-handoff", false, 2, func() {
			ch := make(chan *int, 1)
			mcrt.Go(func() { v := new(int); *v = 7; mcrt.Send(ch, v) })
			p := mcrt.Recv(ch)
			sink = *p
		}},
		{"close-then-recv", false, 2, func() {
			ch := make(chan struct{})
			x := 0
			mcrt.Go(func() { x = 5; mcrt.Close(ch) })
			mcrt.Recv(ch)
			sink = x
		}},
		{"select-rendezvous", false, 2, func() {
			a := make(chan *int)
			b := make(chan *int)
			mcrt.Go(func() { v := new(int); *v = 1; mcrt.Send(a, v) })
			ca, cb := mcrt.RecvCase(a), mcrt.RecvCase(b)
			if mcrt.Select(false, ca, cb) == 0 {
				sink = *ca.V
			}
		}},
		{"waitgroup", false, 2, func() {
			x := 0
			var wg sync.WaitGroup
			wg.Add(1)
			mcrt.Go(func() { x = 3; wg.Done() })
			wg.Wait()
			sink = x
		}},
		{"once", false, 2, func() {
			var once sync.Once
			x := 0
			var wg sync.WaitGroup
			for i := 0; i < 2; i++ {
				wg.Add(1)
				mcrt.Go(func() { once.Do(func() { x = 9 }); local := x; _ = local; wg.Done() })
			}
			wg.Wait()
		}},
		{"atomic-publish", false, 2, func() {
			var flag atomic.Int32
			x := 0
			var wg sync.WaitGroup
			wg.Add(2)
			mcrt.Go(func() { x = 4; flag.Store(1); wg.Done() })
			mcrt.Go(func() {
				if flag.Load() == 1 {
					sink = x
				}
				wg.Done()
			})
			wg.Wait()
		}},
		{"atomic-flag-but-plain-data-race", true, 1, func() {
			var flag atomic.Int32
			x := 0
			var wg sync.WaitGroup
			wg.Add(2)
			mcrt.Go(func() { flag.Store(1); x = 4; wg.Done() }) // data written AFTER the publish
			mcrt.Go(func() {
				if flag.Load() == 1 {
					sink = x
				}
				wg.Done()
			})
			wg.Wait()
		}},
		{"pool-handoff", false, 2, func() {
			var pool sync.Pool
			var wg sync.WaitGroup
			wg.Add(2)
			mcrt.Go(func() { v := new(int); *v = 1; pool.Put(v); wg.Done() })
			mcrt.Go(func() {
				if v, _ := pool.Get().(*int); v != nil {
					*v = 2
				}
				wg.Done()
			})
			wg.Wait()
		}},
		{"rwmutex", false, 2, func() {
			var mu sync.RWMutex
			x := 0
			var wg sync.WaitGroup
			wg.Add(3)
			mcrt.Go(func() { mu.Lock(); x++; mu.Unlock(); wg.Done() })
			mcrt.Go(func() { mu.RLock(); l := x; _ = l; mu.RUnlock(); wg.Done() })
			mcrt.Go(func() { mu.RLock(); l := x; _ = l; mu.RUnlock(); wg.Done() })
			wg.Wait()
		}},
		{"rwmutex-write-under-rlock", true, 2, func() {
			var mu sync.RWMutex
			x := 0
			var wg sync.WaitGroup
			wg.Add(2)
			mcrt.Go(func() { mu.RLock(); x++; mu.RUnlock(); wg.Done() })
			mcrt.Go(func() { mu.RLock(); x++; mu.RUnlock(); wg.Done() })
			wg.Wait()
			sink = x
		}},
		{"syncmap-publish", false, 2, func() {
			var m sync.Map
			type entry struct{ v int }
			var wg sync.WaitGroup
			wg.Add(2)
			mcrt.Go(func() { e := &entry{}; e.v = 7; m.Store("k", e); wg.Done() })
			mcrt.Go(func() {
				if x, ok := m.Load("k"); ok {
					l := x.(*entry).v
					_ = l
				}
				wg.Done()
			})
			wg.Wait()
		}},
		{"syncmap-entry-mutated-after-store", true, 1, func() {
			var m sync.Map
			type entry struct{ v int }
			var wg sync.WaitGroup
			wg.Add(2)
			mcrt.Go(func() { e := &entry{}; m.Store("k", e); e.v = 7; wg.Done() })
			mcrt.Go(func() {
				if x, ok := m.Load("k"); ok {
					l := x.(*entry).v
					_ = l
				}
				wg.Done()
			})
			wg.Wait()
		}},
		{"afterfunc-sees-arming-writes", false, 1, func() {
			x := 0
			done := make(chan struct{})
			x = 6
			mtime.AfterFunc(time.Second, func() { sink = x; mcrt.Close(done) })
			mcrt.Recv(done)
		}},
		{"timer-channel-orders-nothing-else", true, 1, func() {
			// two threads synchronise only through "time passing": still a race
			x := 0
			var wg sync.WaitGroup
			wg.Add(2)
			mcrt.Go(func() { x = 1; wg.Done() })
			mcrt.Go(func() { mtime.Sleep(time.Second); sink = x; wg.Done() })
			wg.Wait()
		}},
	}
	bad := 0
	defer func() {
		if bad == 0 {
			t.Log("RACE-LITMUS-OK: every program produced exactly the expected verdict")
		}
	}()
	for _, p := range progs {
		before := raceLogSize(t)
		st := mcrt.Explore(mcrt.Config{Name: p.name, Bound: p.bound}, p.body, func(x *mcrt.Exec) string {
			if x.Out.Deadlock || x.Out.Panic != "" || x.Out.Fatal != "" {
				t.Errorf("%s: bad outcome %+v", p.name, x.Out)
			}
			return "ok"
		})
		after := raceLogSize(t)
		got := after > before
		t.Logf("%-36s executions=%-5d race reported=%v (expected %v)", p.name, st.Executions, got, p.racy)
		if got != p.racy {
			bad++
			t.Errorf("%s: race reported=%v, expected %v", p.name, got, p.racy)
		}
	}
}
