// Package seamdial is the stand-in for net.Dialer inside the rewritten root package (engine/mcgen/subst.json maps the
// selector net.Dialer to seamdial.Dialer): the one place where tcpdialer.go talks to the operating system. A harness
// installs Hook to decide, per connect attempt, whether the endpoint accepts, refuses or hangs; without a hook the
// real net.Dialer is used, so code that never installs one behaves as before.
package seamdial

import (
	"context"
	"net"
	"time"
)

// Hook, when non-nil, replaces the connect. It runs on the calling (controlled) thread; it may block only through
// mcrt primitives (e.g. mcrt.Recv(ctx.Done()) — ctx comes from the mcctx shim, its deadline is a virtual timer).
// Harnesses set it at the start of an execution body and must not leave it installed for code that expects real dials.
var Hook func(ctx context.Context, network, addr string) (net.Conn, error)

// Dialer carries the fields of net.Dialer that tcpdialer.go sets (plus the common ones, so that a refactoring that
// starts setting them still compiles).
type Dialer struct {
	Timeout   time.Duration
	Deadline  time.Time
	LocalAddr net.Addr
	KeepAlive time.Duration
}

// DialContext mirrors (*net.Dialer).DialContext.
func (d *Dialer) DialContext(ctx context.Context, network, addr string) (net.Conn, error) {
	if h := Hook; h != nil {
		return h(ctx, network, addr)
	}
	rd := net.Dialer{Timeout: d.Timeout, Deadline: d.Deadline, LocalAddr: d.LocalAddr, KeepAlive: d.KeepAlive}
	return rd.DialContext(ctx, network, addr)
}

// Dial mirrors (*net.Dialer).Dial.
func (d *Dialer) Dial(network, addr string) (net.Conn, error) {
	return d.DialContext(context.Background(), network, addr)
}
