// Package sync is the controlled stand-in for the standard sync package inside rewritten sources (import path
// github.com/valyala/fasthttp/internal/verif/mcsync). Outside a controlled execution every type behaves like the
// real one.
package sync

import (
	rsync "sync"

	"github.com/valyala/fasthttp/internal/verif/mcrt"
)

type Locker = rsync.Locker

// epochState lets an object drop state left over from an earlier execution (package-level mutexes, pools, onces).
type epochState struct{ ep uint64 }

// stale reports whether the object was last used in an earlier execution and must be reset.
func (e *epochState) stale(w *mcrt.World) bool {
	ep := w.Epoch()
	if e.ep == ep {
		return false
	}
	old := e.ep
	e.ep = ep
	return old != 0
}

type Mutex struct {
	real   rsync.Mutex
	es     epochState
	locked bool
}

func (m *Mutex) Lock() {
	w := mcrt.W()
	if w == nil {
		m.real.Lock()
		return
	}
	if w.Aborting() {
		return
	}
	if m.es.stale(w) {
		m.locked = false
	}
	w.Point("mutex.lock", func() bool { return !m.locked })
	m.locked = true
}

func (m *Mutex) TryLock() bool {
	w := mcrt.W()
	if w == nil {
		return m.real.TryLock()
	}
	if w.Aborting() {
		return true
	}
	if m.es.stale(w) {
		m.locked = false
	}
	w.Point("mutex.trylock", nil)
	if m.locked {
		return false
	}
	m.locked = true
	return true
}

func (m *Mutex) Unlock() {
	w := mcrt.W()
	if w == nil {
		m.real.Unlock()
		return
	}
	if w.Aborting() {
		return
	}
	if m.es.stale(w) {
		m.locked = false
	}
	if !m.locked {
		w.Fail("fatal error: sync: unlock of unlocked mutex")
	}
	m.locked = false
	// a point *after* the release: code that follows an Unlock without further synchronisation (a racy refactoring)
	// can then be overtaken by the threads the Unlock released
	w.Point("mutex.unlocked", nil)
}

type RWMutex struct {
	real    rsync.RWMutex
	es      epochState
	writer  bool
	readers int
}

func (m *RWMutex) reset(w *mcrt.World) {
	if m.es.stale(w) {
		m.writer, m.readers = false, 0
	}
}

func (m *RWMutex) Lock() {
	w := mcrt.W()
	if w == nil {
		m.real.Lock()
		return
	}
	if w.Aborting() {
		return
	}
	m.reset(w)
	w.Point("rwmutex.lock", func() bool { return !m.writer && m.readers == 0 })
	m.writer = true
}

func (m *RWMutex) Unlock() {
	w := mcrt.W()
	if w == nil {
		m.real.Unlock()
		return
	}
	if w.Aborting() {
		return
	}
	m.reset(w)
	if !m.writer {
		w.Fail("fatal error: sync: Unlock of unlocked RWMutex")
	}
	m.writer = false
}

func (m *RWMutex) RLock() {
	w := mcrt.W()
	if w == nil {
		m.real.RLock()
		return
	}
	if w.Aborting() {
		return
	}
	m.reset(w)
	w.Point("rwmutex.rlock", func() bool { return !m.writer })
	m.readers++
}

func (m *RWMutex) RUnlock() {
	w := mcrt.W()
	if w == nil {
		m.real.RUnlock()
		return
	}
	if w.Aborting() {
		return
	}
	m.reset(w)
	if m.readers <= 0 {
		w.Fail("fatal error: sync: RUnlock of unlocked RWMutex")
	}
	m.readers--
}

func (m *RWMutex) RLocker() Locker { return (*rlocker)(m) }

type rlocker RWMutex

func (r *rlocker) Lock()   { (*RWMutex)(r).RLock() }
func (r *rlocker) Unlock() { (*RWMutex)(r).RUnlock() }

type Once struct {
	real    rsync.Once
	es      epochState
	done    bool
	running bool
}

func (o *Once) Do(f func()) {
	w := mcrt.W()
	if w == nil {
		o.real.Do(f)
		return
	}
	if w.Aborting() {
		return
	}
	if o.es.stale(w) {
		o.done, o.running = false, false
	}
	w.Point("once.do", func() bool { return !o.running })
	if o.done {
		return
	}
	o.running = true
	defer func() {
		o.done = true
		o.running = false
	}()
	f()
}

type WaitGroup struct {
	real rsync.WaitGroup
	es   epochState
	n    int
}

func (g *WaitGroup) Add(delta int) {
	w := mcrt.W()
	if w == nil {
		g.real.Add(delta)
		return
	}
	if w.Aborting() {
		return
	}
	if g.es.stale(w) {
		g.n = 0
	}
	g.n += delta
	if g.n < 0 {
		w.Fail("panic: sync: negative WaitGroup counter")
	}
}

func (g *WaitGroup) Done() { g.Add(-1) }

func (g *WaitGroup) Wait() {
	w := mcrt.W()
	if w == nil {
		g.real.Wait()
		return
	}
	if w.Aborting() {
		return
	}
	if g.es.stale(w) {
		g.n = 0
	}
	w.Point("waitgroup.wait", func() bool { return g.n == 0 })
}

func (g *WaitGroup) Go(f func()) {
	g.Add(1)
	mcrt.Go(func() {
		defer g.Done()
		f()
	})
}

// Pool is deterministic: LIFO, New when empty. Get and Put are not scheduling points (see DESIGN 2.3): the pool is
// only a recycling mechanism, and maximal reuse is what the state-leak properties need.
type Pool struct {
	New   func() any
	real  rsync.Pool
	es    epochState
	items []any
}

func (p *Pool) Get() any {
	w := mcrt.W()
	if w == nil {
		if p.real.New == nil && p.New != nil {
			p.real.New = p.New
		}
		return p.real.Get()
	}
	if p.es.stale(w) {
		p.items = nil
	}
	if w.Aborting() {
		if p.New != nil {
			return p.New()
		}
		return nil
	}
	if n := len(p.items); n > 0 {
		x := p.items[n-1]
		p.items[n-1] = nil
		p.items = p.items[:n-1]
		return x
	}
	if p.New != nil {
		return p.New()
	}
	return nil
}

func (p *Pool) Put(x any) {
	w := mcrt.W()
	if w == nil {
		p.real.Put(x)
		return
	}
	if p.es.stale(w) {
		p.items = nil
	}
	if w.Aborting() || x == nil {
		return
	}
	p.items = append(p.items, x)
}

// Map keeps insertion order so that Range is deterministic.
type Map struct {
	real rsync.Map
	es   epochState
	keys []any
	vals map[any]any
}

func (m *Map) in(w *mcrt.World) bool {
	if w == nil {
		return false
	}
	if m.es.stale(w) || m.vals == nil {
		m.keys, m.vals = nil, map[any]any{}
	}
	return true
}

func (m *Map) Load(k any) (any, bool) {
	w := mcrt.W()
	if !m.in(w) {
		return m.real.Load(k)
	}
	if !w.Aborting() {
		w.Point("map.load", nil)
	}
	v, ok := m.vals[k]
	return v, ok
}

func (m *Map) Store(k, v any) {
	w := mcrt.W()
	if !m.in(w) {
		m.real.Store(k, v)
		return
	}
	if !w.Aborting() {
		w.Point("map.store", nil)
	}
	if _, ok := m.vals[k]; !ok {
		m.keys = append(m.keys, k)
	}
	m.vals[k] = v
}

func (m *Map) LoadOrStore(k, v any) (any, bool) {
	w := mcrt.W()
	if !m.in(w) {
		return m.real.LoadOrStore(k, v)
	}
	if !w.Aborting() {
		w.Point("map.loadorstore", nil)
	}
	if old, ok := m.vals[k]; ok {
		return old, true
	}
	m.keys = append(m.keys, k)
	m.vals[k] = v
	return v, false
}

func (m *Map) Delete(k any) {
	w := mcrt.W()
	if !m.in(w) {
		m.real.Delete(k)
		return
	}
	if !w.Aborting() {
		w.Point("map.delete", nil)
	}
	if _, ok := m.vals[k]; ok {
		delete(m.vals, k)
		for i, x := range m.keys {
			if x == k {
				m.keys = append(m.keys[:i:i], m.keys[i+1:]...)
				break
			}
		}
	}
}

func (m *Map) Range(f func(k, v any) bool) {
	w := mcrt.W()
	if !m.in(w) {
		m.real.Range(f)
		return
	}
	if !w.Aborting() {
		w.Point("map.range", nil)
	}
	keys := append([]any(nil), m.keys...)
	for _, k := range keys {
		v, ok := m.vals[k]
		if !ok {
			continue
		}
		if !f(k, v) {
			return
		}
	}
}
