// Package sync is the controlled stand-in for the standard sync package inside rewritten sources (import path
// github.com/valyala/fasthttp/internal/verif/mcsync). Outside a controlled execution every type behaves like the
// real one.
package sync

import (
	"reflect"
	rsync "sync"

	"github.com/valyala/fasthttp/internal/verif/mcrt"
	"unsafe"
)

type Locker = rsync.Locker

// epochState lets an object drop state left over from an earlier execution (package-level mutexes, pools, onces).
type epochState struct{ ep uint64 }

// stale reports whether the object was last used in an earlier execution and must be reset.
//
//go:norace
func (e *epochState) stale(w *mcrt.World) bool {
	ep := w.Epoch()
	if e.ep == ep {
		return false
	}
	old := e.ep
	e.ep = ep
	return old != 0
}

type Mutex struct {
	real   rsync.Mutex
	es     epochState
	locked bool
	hb     int64 // race builds: address carrying the unlock -> lock happens-before edge
}

//go:norace
func (m *Mutex) Lock() {
	w := mcrt.W()
	if w == nil {
		m.real.Lock()
		return
	}
	if w.Aborting() {
		return
	}
	if m.es.stale(w) {
		m.locked = false
	}
	w.Point("mutex.lock", func() bool { return !m.locked })
	m.locked = true
	mcrt.RaceAcquire(unsafe.Pointer(&m.hb))
}

//go:norace
func (m *Mutex) TryLock() bool {
	w := mcrt.W()
	if w == nil {
		return m.real.TryLock()
	}
	if w.Aborting() {
		return true
	}
	if m.es.stale(w) {
		m.locked = false
	}
	w.Point("mutex.trylock", nil)
	if m.locked {
		return false
	}
	m.locked = true
	mcrt.RaceAcquire(unsafe.Pointer(&m.hb))
	return true
}

//go:norace
func (m *Mutex) Unlock() {
	w := mcrt.W()
	if w == nil {
		m.real.Unlock()
		return
	}
	if w.Aborting() {
		return
	}
	if m.es.stale(w) {
		m.locked = false
	}
	if !m.locked {
		w.Fail("fatal error: sync: unlock of unlocked mutex")
	}
	mcrt.RaceRelease(unsafe.Pointer(&m.hb))
	m.locked = false
	// a point *after* the release: code that follows an Unlock without further synchronisation (a racy refactoring)
	// can then be overtaken by the threads the Unlock released
	w.Point("mutex.unlocked", nil)
}

type RWMutex struct {
	real    rsync.RWMutex
	es      epochState
	writer  bool
	readers int
	hbW     int64 // writer unlock -> any lock
	hbR     int64 // reader unlocks -> writer lock
}

//go:norace
func (m *RWMutex) reset(w *mcrt.World) {
	if m.es.stale(w) {
		m.writer, m.readers = false, 0
	}
}

//go:norace
func (m *RWMutex) Lock() {
	w := mcrt.W()
	if w == nil {
		m.real.Lock()
		return
	}
	if w.Aborting() {
		return
	}
	m.reset(w)
	w.Point("rwmutex.lock", func() bool { return !m.writer && m.readers == 0 })
	m.writer = true
	mcrt.RaceAcquire(unsafe.Pointer(&m.hbW))
	mcrt.RaceAcquire(unsafe.Pointer(&m.hbR))
}

//go:norace
func (m *RWMutex) Unlock() {
	w := mcrt.W()
	if w == nil {
		m.real.Unlock()
		return
	}
	if w.Aborting() {
		return
	}
	m.reset(w)
	if !m.writer {
		w.Fail("fatal error: sync: Unlock of unlocked RWMutex")
	}
	mcrt.RaceRelease(unsafe.Pointer(&m.hbW))
	m.writer = false
}

//go:norace
func (m *RWMutex) RLock() {
	w := mcrt.W()
	if w == nil {
		m.real.RLock()
		return
	}
	if w.Aborting() {
		return
	}
	m.reset(w)
	w.Point("rwmutex.rlock", func() bool { return !m.writer })
	m.readers++
	mcrt.RaceAcquire(unsafe.Pointer(&m.hbW))
}

//go:norace
func (m *RWMutex) RUnlock() {
	w := mcrt.W()
	if w == nil {
		m.real.RUnlock()
		return
	}
	if w.Aborting() {
		return
	}
	m.reset(w)
	if m.readers <= 0 {
		w.Fail("fatal error: sync: RUnlock of unlocked RWMutex")
	}
	mcrt.RaceReleaseMerge(unsafe.Pointer(&m.hbR))
	m.readers--
}

//go:norace
func (m *RWMutex) RLocker() Locker { return (*rlocker)(m) }

type rlocker RWMutex

//go:norace
func (r *rlocker) Lock() { (*RWMutex)(r).RLock() }

//go:norace
func (r *rlocker) Unlock() { (*RWMutex)(r).RUnlock() }

type Once struct {
	real    rsync.Once
	es      epochState
	done    bool
	running bool
	hb      int64
}

//go:norace
func (o *Once) Do(f func()) {
	w := mcrt.W()
	if w == nil {
		o.real.Do(f)
		return
	}
	if w.Aborting() {
		return
	}
	if o.es.stale(w) {
		o.done, o.running = false, false
	}
	w.Point("once.do", func() bool { return !o.running })
	if o.done {
		mcrt.RaceAcquire(unsafe.Pointer(&o.hb))
		return
	}
	o.running = true
	defer o.finish() // a method, not a closure: closures are not covered by //go:norace
	f()
}

//go:norace
func (o *Once) finish() {
	mcrt.RaceRelease(unsafe.Pointer(&o.hb))
	o.done = true
	o.running = false
}

type WaitGroup struct {
	real rsync.WaitGroup
	es   epochState
	n    int
	hb   int64
}

//go:norace
func (g *WaitGroup) Add(delta int) {
	w := mcrt.W()
	if w == nil {
		g.real.Add(delta)
		return
	}
	if w.Aborting() {
		return
	}
	if g.es.stale(w) {
		g.n = 0
	}
	if delta < 0 {
		mcrt.RaceReleaseMerge(unsafe.Pointer(&g.hb))
	}
	g.n += delta
	if g.n < 0 {
		w.Fail("panic: sync: negative WaitGroup counter")
	}
}

//go:norace
func (g *WaitGroup) Done() { g.Add(-1) }

//go:norace
func (g *WaitGroup) Wait() {
	w := mcrt.W()
	if w == nil {
		g.real.Wait()
		return
	}
	if w.Aborting() {
		return
	}
	if g.es.stale(w) {
		g.n = 0
	}
	w.Point("waitgroup.wait", func() bool { return g.n == 0 })
	mcrt.RaceAcquire(unsafe.Pointer(&g.hb))
}

//go:norace
func (g *WaitGroup) Go(f func()) {
	g.Add(1)
	mcrt.Go(func() {
		defer g.Done()
		f()
	})
}

// Pool is deterministic: LIFO, New when empty. Get and Put are not scheduling points (see DESIGN 2.3): the pool is
// only a recycling mechanism, and maximal reuse is what the state-leak properties need.
type Pool struct {
	New   func() any
	real  rsync.Pool
	es    epochState
	items []any
}

//go:norace
func (p *Pool) Get() any {
	w := mcrt.W()
	if w == nil {
		if p.real.New == nil && p.New != nil {
			p.real.New = p.New
		}
		return p.real.Get()
	}
	if p.es.stale(w) {
		p.items = nil
	}
	if w.Aborting() {
		if p.New != nil {
			return p.New()
		}
		return nil
	}
	if n := len(p.items); n > 0 {
		x := p.items[n-1]
		p.items[n-1] = nil
		p.items = p.items[:n-1]
		if a := poolAddr(x); a != nil {
			mcrt.RaceAcquire(a)
		}
		return x
	}
	if p.New != nil {
		return p.New()
	}
	return nil
}

//go:norace
func (p *Pool) Put(x any) {
	w := mcrt.W()
	if w == nil {
		p.real.Put(x)
		return
	}
	if p.es.stale(w) {
		p.items = nil
	}
	if w.Aborting() || x == nil {
		return
	}
	if a := poolAddr(x); a != nil {
		mcrt.RaceReleaseMerge(a)
	}
	p.items = append(p.items, x)
}

// Map keeps insertion order so that Range is deterministic. It is a pair of slices searched linearly (never a Go
// map: the runtime's map helpers report their accesses to the race detector, which would show up as races inside
// the shim). Race builds: a write releases into hb after storing, a read acquires it before looking - the edge the
// real sync.Map guarantees between a write and the read that observes it (per map instead of per entry: coarser, it can
// only hide a race, never invent one).
type Map struct {
	real rsync.Map
	es   epochState
	keys []any
	vals []any
	hb   int64
}

//go:norace
func (m *Map) in(w *mcrt.World) bool {
	if w == nil {
		return false
	}
	if m.es.stale(w) {
		m.keys, m.vals = nil, nil
	}
	return true
}

//go:norace
func (m *Map) find(k any) int {
	for i := range m.keys {
		if m.keys[i] == k {
			return i
		}
	}
	return -1
}

//go:norace
func (m *Map) Load(k any) (any, bool) {
	w := mcrt.W()
	if !m.in(w) {
		return m.real.Load(k)
	}
	if !w.Aborting() {
		w.Point("map.load", nil)
	}
	mcrt.RaceAcquire(unsafe.Pointer(&m.hb))
	if i := m.find(k); i >= 0 {
		return m.vals[i], true
	}
	return nil, false
}

//go:norace
func (m *Map) Store(k, v any) {
	w := mcrt.W()
	if !m.in(w) {
		m.real.Store(k, v)
		return
	}
	if !w.Aborting() {
		w.Point("map.store", nil)
	}
	if i := m.find(k); i >= 0 {
		m.vals[i] = v
	} else {
		m.keys = append(m.keys, k)
		m.vals = append(m.vals, v)
	}
	mcrt.RaceReleaseMerge(unsafe.Pointer(&m.hb))
}

//go:norace
func (m *Map) LoadOrStore(k, v any) (any, bool) {
	w := mcrt.W()
	if !m.in(w) {
		return m.real.LoadOrStore(k, v)
	}
	if !w.Aborting() {
		w.Point("map.loadorstore", nil)
	}
	mcrt.RaceAcquire(unsafe.Pointer(&m.hb))
	if i := m.find(k); i >= 0 {
		return m.vals[i], true
	}
	m.keys = append(m.keys, k)
	m.vals = append(m.vals, v)
	mcrt.RaceReleaseMerge(unsafe.Pointer(&m.hb))
	return v, false
}

//go:norace
func (m *Map) Delete(k any) {
	w := mcrt.W()
	if !m.in(w) {
		m.real.Delete(k)
		return
	}
	if !w.Aborting() {
		w.Point("map.delete", nil)
	}
	if i := m.find(k); i >= 0 {
		for j := i; j+1 < len(m.keys); j++ {
			m.keys[j], m.vals[j] = m.keys[j+1], m.vals[j+1]
		}
		n := len(m.keys) - 1
		m.keys[n], m.vals[n] = nil, nil
		m.keys, m.vals = m.keys[:n], m.vals[:n]
	}
}

//go:norace
func (m *Map) Range(f func(k, v any) bool) {
	w := mcrt.W()
	if !m.in(w) {
		m.real.Range(f)
		return
	}
	if !w.Aborting() {
		w.Point("map.range", nil)
	}
	mcrt.RaceAcquire(unsafe.Pointer(&m.hb))
	n := len(m.keys)
	ks := make([]any, 0, n)
	vs := make([]any, 0, n)
	for i := 0; i < n; i++ {
		ks = append(ks, m.keys[i])
		vs = append(vs, m.vals[i])
	}
	for i := range ks {
		if m.find(ks[i]) < 0 {
			continue // deleted meanwhile
		}
		if !f(ks[i], vs[i]) {
			return
		}
	}
}

// poolAddr returns the address used for the Put -> Get happens-before edge of one pooled object (its data pointer
// when the object is a pointer; nil otherwise).
//
//go:norace
func poolAddr(x any) unsafe.Pointer {
	if !mcrt.RaceOn {
		return nil
	}
	type eface struct{ typ, data unsafe.Pointer }
	e := (*eface)(unsafe.Pointer(&x))
	if e.data == nil {
		return nil
	}
	if k := reflectKind(x); !k {
		return nil
	}
	return e.data
}

// reflectKind reports whether x holds a pointer (so that its interface data word is the pointer itself).
//
//go:norace
func reflectKind(x any) bool {
	switch reflect.TypeOf(x).Kind() {
	case reflect.Ptr, reflect.UnsafePointer:
		return true
	}
	return false
}
