// Package mcx glues the model checker (engine/mcrt) to the check runtime (engine/vrt): it runs a list of scenarios
// (each an mcrt exploration of a harness body with its oracle), shards them over worker processes, and turns the
// result into evidence and replayable violation artefacts.
package mcx

import (
	"encoding/json"
	"fmt"
	"os"
	"os/exec"
	"runtime"
	"strconv"
	"strings"
	"sync"
	"testing"
	"time"

	"github.com/valyala/fasthttp/internal/verif/mcrt"
	"github.com/valyala/fasthttp/internal/verif/vrt"
)

// Scenario is one closed system: a harness body and its oracle, explored exhaustively within Cfg.Bound.
type Scenario struct {
	Name string
	Cfg  mcrt.Config
	Body func()
	// Check is the oracle for one finished execution. It returns an outcome class (anti-vacuity: distinct classes
	// are counted) and, for a violation, a non-empty sig + description.
	Check func(x *mcrt.Exec) (class, sig, what string)
	// RaceOnly: the scenario is re-used by the data-race check; its own oracle only labels outcomes, and only the race
	// detector's reports count as violations.
	RaceOnly bool
}

// collected is non-nil while Collect gathers the scenario lists of other checks instead of running them.
var collected *[]Scenario

// Collect calls the given check functions in a mode where vrt records nothing and Run only hands over its scenario
// list; it returns all scenarios, renamed "<prefix>/<name>".
func Collect(t *testing.T, prefixes []string, fns ...func(*testing.T)) []Scenario {
	var all []Scenario
	vrt.Dry = true
	defer func() { vrt.Dry = false; collected = nil }()
	for i, fn := range fns {
		var got []Scenario
		collected = &got
		fn(t)
		for _, sc := range got {
			sc.Name = prefixes[i] + "/" + sc.Name
			all = append(all, sc)
		}
	}
	return all
}

type artefact struct {
	Scenario string   `json:"scenario"`
	Choices  []int    `json:"choices"`
	Schedule string   `json:"schedule"`
	Devs     []string `json:"deviations"`
	Blocked  []string `json:"blocked,omitempty"`
}

// Generic verdicts every scenario gets unless its Check classifies the outcome itself first.
func generic(x *mcrt.Exec) (sig, what string) {
	switch {
	case x.Out.Panic != "":
		return "panic", "a thread of the program panicked: " + firstLines(x.Out.Panic, 12)
	case x.Out.Invariant != "":
		return "invariant", x.Out.Invariant
	case x.Out.Fatal != "":
		return "fatal", firstLines(x.Out.Fatal, 12)
	case x.Out.Deadlock:
		return "deadlock", "no thread can run and no timer is pending: " + strings.Join(x.Out.Blocked, "; ")
	case x.Out.Horizon:
		return "horizon", "execution exceeded the step horizon (livelock or unbounded polling): " + strings.Join(x.Out.Blocked, "; ")
	}
	return "", ""
}

func firstLines(s string, n int) string {
	l := strings.Split(s, "\n")
	if len(l) > n {
		l = l[:n]
	}
	return strings.Join(l, " | ")
}

// Run explores all scenarios (or replays one artefact) and records coverage and violations in r.
func Run(r *vrt.R, scs []Scenario) {
	if collected != nil {
		*collected = append(*collected, scs...)
		return
	}
	byName := map[string]*Scenario{}
	for i := range scs {
		if byName[scs[i].Name] != nil {
			r.ToolError("duplicate scenario name %s", scs[i].Name)
		}
		byName[scs[i].Name] = &scs[i]
	}
	if rp := r.Replay(); rp != nil {
		var a artefact
		if err := json.Unmarshal(rp, &a); err != nil {
			r.ToolError("bad replay artefact: %v", err)
		}
		sc := byName[a.Scenario]
		if sc == nil {
			r.ToolError("replay: unknown scenario %q", a.Scenario)
		}
		runtime.GOMAXPROCS(1)
		cfg := sc.Cfg
		x := mcrt.RunOnce(&cfg, a.Choices, sc.Body)
		if x.Out.Divergence != "" {
			r.ToolError("replay diverged: %s", x.Out.Divergence)
		}
		judge(r, sc, x, &cfg)
		r.Eval(1)
		return
	}
	worker := os.Getenv("VERIF_WORKER")
	if worker == "" && len(scs) > 1 && os.Getenv("VERIF_NOFORK") == "" {
		runParent(r, scs)
		return
	}
	k, n := 0, 1
	if worker != "" {
		fmt.Sscanf(worker, "%d/%d", &k, &n)
	}
	runtime.GOMAXPROCS(1)
	mine := 0
	for i := range scs {
		if i%n == k {
			mine++
		}
	}
	for i := range scs {
		if i%n != k {
			continue
		}
		if scs[i].RaceOnly && scs[i].Cfg.Deadline.IsZero() {
			// Capped scenario lists (C37: hundreds of scenarios, slow race build) share the budget fairly: each scenario
			// gets an equal slice of what is left, unused time rolls over to the scenarios after it. Without this the
			// scenarios at the end of the list got no execution at all once the budget was spent.
			// The slices are cut from twice the tier's budget: on an unloaded machine the (deterministic) execution cap
			// of a scenario binds first, so what is explored does not depend on the clock; the slice only keeps a
			// heavily loaded machine from running away.
			startOnce.Do(func() { deadline = budgetDeadline(r) })
			if left := time.Until(deadline.Add(deadline.Sub(started))); left > 0 {
				scs[i].Cfg.Deadline = time.Now().Add(left / time.Duration(mine))
			}
		}
		mine--
		runScenario(r, &scs[i])
	}
}

func budgetDeadline(r *vrt.R) time.Time {
	b := 120 * time.Second
	if r.Thorough() {
		b = 20 * time.Minute
	}
	if s := os.Getenv("VERIF_BUDGET_S"); s != "" {
		if n, err := strconv.Atoi(s); err == nil {
			b = time.Duration(n) * time.Second * 8 / 10
		}
	}
	started = time.Now()
	return started.Add(b)
}

var startOnce sync.Once
var deadline, started time.Time

func runScenario(r *vrt.R, sc *Scenario) {
	startOnce.Do(func() { deadline = budgetDeadline(r) })
	cfg := sc.Cfg
	cfg.Name = sc.Name
	cfg.CountStates = true
	if cfg.Deadline.IsZero() {
		cfg.Deadline = deadline
	}
	st := mcrt.Explore(cfg, sc.Body, func(x *mcrt.Exec) string {
		cls := judge(r, sc, x, &cfg)
		if x.Cost > 0 {
			r.NontrivialHash(x.Fingerprint() ^ strHash(sc.Name))
		}
		return cls
	})
	r.Eval(int(st.Executions))
	r.Add("states", int64(st.States))
	r.Add("transitions", st.Transitions)
	r.Add("traces_validated_against_impl", st.Executions)
	r.Add("deadlocks", st.Deadlocks)
	r.Add("horizon_hits", st.Horizons)
	r.AddMap("bound_completed", sc.Name, int64(st.BoundCompleted))
	r.AddMap("executions_per_scenario", sc.Name, st.Executions)
	r.AddMap("max_choice_depth", sc.Name, int64(st.MaxDepth))
	for k, v := range st.Outcomes {
		r.AddMap("outcome_classes", sc.Name+": "+k, v)
	}
	for k, v := range st.Covered {
		r.AddMap("covered_tags", k, v)
	}
	if !st.Exhaustive {
		r.NotExhaustive(fmt.Sprintf("scenario %s: %s reached; bound completed %d of %d", sc.Name, st.CapHit, st.BoundCompleted, cfg.Bound))
	}
	for _, p := range st.SamplePaths {
		r.Sample(sc.Name + ": " + p)
	}
}

func strHash(s string) uint64 {
	h := uint64(14695981039346656037)
	for i := 0; i < len(s); i++ {
		h ^= uint64(s[i])
		h *= 1099511628211
	}
	return h
}

func judge(r *vrt.R, sc *Scenario, x *mcrt.Exec, cfg *mcrt.Config) string {
	cls, sig, what := "", "", ""
	if sc.Check != nil {
		cls, sig, what = sc.Check(x)
	}
	if sc.RaceOnly {
		sig, what = "", ""
		if gs, _ := generic(x); gs != "" && cls == "" {
			cls = gs
		}
	}
	if sig == "" && !sc.RaceOnly {
		if gs, gw := generic(x); gs != "" {
			sig, what = gs, gw
			if cls == "" {
				cls = gs
			}
		}
	}
	if mcrt.RaceOn {
		// race builds: every report the detector produced during this execution is attributed to it. Reports whose
		// accesses are in harness or engine code are counted but are not the property's subject.
		for _, rr := range newRaceReports() {
			if !rr.Relevant {
				r.Add("race_reports_outside_repository_code", 1)
				continue
			}
			r.Violation(rr.Sig(), fmt.Sprintf("[%s] data race between %s (%s) and %s (%s)", sc.Name, rr.TopA, rr.FileA, rr.TopB, rr.FileB),
				map[string]any{"scenario": sc.Name, "choices": x.Choices, "schedule": scheduleOf(x), "deviations": x.Describe(), "report": rr.Text})
		}
	}
	if sig != "" {
		// confirm: the same choice sequence must fail again (three replays) before it is reported
		for i := 0; i < 3; i++ {
			y := mcrt.RunOnce(cfg, x.Choices, sc.Body)
			_, s2, _ := "", "", ""
			if sc.Check != nil {
				_, s2, _ = sc.Check(y)
			}
			if s2 == "" {
				s2, _ = generic(y)
			}
			if s2 != sig || y.Out.Divergence != "" {
				r.ToolError("scenario %s: violation %q did not reproduce on replay %d (got %q, divergence %q): nondeterminism escaped the scheduler", sc.Name, sig, i+1, s2, y.Out.Divergence)
			}
		}
		r.Violation(sig, fmt.Sprintf("[%s] %s", sc.Name, what), artefact{Scenario: sc.Name, Choices: x.Choices, Schedule: scheduleOf(x), Devs: x.Describe(), Blocked: x.Out.Blocked})
	}
	if cls == "" {
		cls = "ok"
	}
	return cls
}

func scheduleOf(x *mcrt.Exec) string {
	var b strings.Builder
	for i, t := range x.Trace {
		if i > 400 {
			b.WriteString("…")
			break
		}
		fmt.Fprintf(&b, "%d", t)
	}
	return b.String()
}

func runParent(r *vrt.R, scs []Scenario) {
	n := runtime.NumCPU()
	if n > len(scs) {
		n = len(scs)
	}
	if s := os.Getenv("VERIF_WORKERS"); s != "" {
		if v, err := strconv.Atoi(s); err == nil && v > 0 {
			n = v
		}
	}
	dir, err := os.MkdirTemp("", "mcx")
	if err != nil {
		r.ToolError("%v", err)
	}
	defer os.RemoveAll(dir)
	var wg sync.WaitGroup
	errs := make([]string, n)
	for k := 0; k < n; k++ {
		wg.Add(1)
		go func(k int) {
			defer wg.Done()
			out := fmt.Sprintf("%s/w%d.json", dir, k)
			cmd := exec.Command(os.Args[0], "-test.run", "^"+r.TB().Name()+"$", "-test.timeout", "0")
			cmd.Env = append(os.Environ(), fmt.Sprintf("VERIF_WORKER=%d/%d", k, n), "VERIF_OUT="+out, "GOMAXPROCS=1")
			b, err := cmd.CombinedOutput()
			if _, serr := os.Stat(out); serr != nil {
				errs[k] = fmt.Sprintf("worker %d produced no result (%v): %s", k, err, tail(string(b), 3000))
				return
			}
			if merr := r.MergeFile(out); merr != nil {
				errs[k] = fmt.Sprintf("worker %d: %v: %s", k, merr, tail(string(b), 3000))
			}
		}(k)
	}
	wg.Wait()
	for _, e := range errs {
		if e != "" {
			r.ToolError("%s", e)
		}
	}
	r.Set("worker_processes", n)
}

func tail(s string, n int) string {
	if len(s) > n {
		return s[len(s)-n:]
	}
	return s
}
