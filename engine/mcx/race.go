package mcx

import (
	"os"
	"path/filepath"
	"sort"
	"strconv"
	"strings"

	"github.com/valyala/fasthttp/internal/verif/mcrt"
)

// Race builds (profile mcrace): the binary runs under the Go race detector with GORACE=log_path=<prefix>. mcrt hides
// its own hand-offs from the detector and re-creates the happens-before edges of every shimmed primitive, so a report
// names two accesses of the *program* that are unordered in the schedule being executed. After every execution the
// new part of the detector's log is read and attributed to that execution.

type raceReport struct {
	Text      string
	TopA      string // function of the first repository frame of each access
	TopB      string
	FileA     string
	FileB     string
	Unwinding bool
	Relevant  bool // both accesses have a repository (non-harness, non-engine) frame on top
}

var raceLogOff int64

func raceLogPath() string {
	for _, kv := range strings.Fields(os.Getenv("GORACE")) {
		if strings.HasPrefix(kv, "log_path=") {
			return strings.TrimPrefix(kv, "log_path=") + "." + strconv.Itoa(os.Getpid())
		}
	}
	return ""
}

// newRaceReports returns the reports the detector wrote since the last call.
func newRaceReports() []raceReport {
	if !mcrt.RaceOn {
		return nil
	}
	p := raceLogPath()
	if p == "" {
		return nil
	}
	f, err := os.Open(p)
	if err != nil {
		return nil
	}
	defer f.Close()
	st, err := f.Stat()
	if err != nil || st.Size() <= raceLogOff {
		return nil
	}
	buf := make([]byte, st.Size()-raceLogOff)
	n, _ := f.ReadAt(buf, raceLogOff)
	raceLogOff += int64(n)
	var out []raceReport
	for _, blk := range strings.Split(string(buf[:n]), "==================") {
		if !strings.Contains(blk, "WARNING: DATA RACE") {
			continue
		}
		out = append(out, parseRaceReport(blk))
	}
	return out
}

func repoRoot() string {
	if r := os.Getenv("VERIF_REPO"); r != "" {
		return filepath.Clean(r) + "/"
	}
	return "/repo/"
}

// parseRaceReport extracts, for the two access stacks of a report, the top-most frame that is neither runtime nor
// verification engine code.
func parseRaceReport(blk string) raceReport {
	r := raceReport{Text: strings.TrimSpace(blk)}
	secs := strings.Split(blk, "\n\n")
	var tops [][2]string
	for _, s := range secs {
		t := strings.TrimSpace(s)
		isAccess := strings.HasPrefix(t, "Read at") || strings.HasPrefix(t, "Write at") || strings.HasPrefix(t, "Previous read at") ||
			strings.HasPrefix(t, "Previous write at") || strings.HasPrefix(t, "WARNING: DATA RACE") || strings.HasPrefix(t, "Atomic") || strings.HasPrefix(t, "Previous atomic")
		if !isAccess {
			continue
		}
		if strings.Contains(t, "runtime.Goexit()") {
			// an access made by deferred program code while the engine unwinds a thread at the end of an execution
			// (shim locks are no-ops then): not a behaviour of the program
			r.Unwinding = true
		}
		lines := strings.Split(t, "\n")
		fn, file := "", ""
		for i := 0; i+1 < len(lines); i++ {
			l := strings.TrimSpace(lines[i])
			nx := strings.TrimSpace(lines[i+1])
			if !strings.HasSuffix(l, ")") || !strings.HasPrefix(nx, "/") {
				continue
			}
			path := nx
			if j := strings.IndexByte(path, ' '); j >= 0 {
				path = path[:j]
			}
			// the access is attributed to the innermost frame that is not a runtime helper acting for its caller
			// (slicecopy, memmove, mapassign, ...); engine and harness frames are NOT skipped: an access made by the
			// engine or the harness is not the program's
			if strings.Contains(path, "/src/runtime/") || strings.Contains(path, "/src/internal/") {
				continue
			}
			fn, file = l, path
			break
		}
		if fn != "" {
			tops = append(tops, [2]string{fn, file})
		}
	}
	if len(tops) >= 2 {
		r.TopA, r.FileA, r.TopB, r.FileB = tops[0][0], tops[0][1], tops[1][0], tops[1][1]
		root := repoRoot()
		inRepo := func(p string) bool {
			if !strings.HasPrefix(p, root) {
				return false
			}
			base := filepath.Base(p)
			if i := strings.IndexByte(base, ':'); i >= 0 {
				base = base[:i]
			}
			return !strings.HasPrefix(base, "zz_verif_") && !strings.HasSuffix(base, "_test.go") && !strings.Contains(p, "/internal/verif/")
		}
		r.Relevant = inRepo(r.FileA) && inRepo(r.FileB) && !r.Unwinding
	}
	return r
}

// Sig names a race by the two functions involved (order-independent, without line numbers or argument lists).
func (r raceReport) Sig() string {
	clean := func(s string) string {
		if i := strings.IndexByte(s, '('); i >= 0 && strings.HasSuffix(s, "()") {
			s = s[:len(s)-2]
		}
		s = strings.TrimPrefix(s, "github.com/valyala/fasthttp")
		s = strings.TrimPrefix(s, ".")
		s = strings.TrimPrefix(s, "/")
		return s
	}
	a := []string{clean(r.TopA), clean(r.TopB)}
	sort.Strings(a)
	return "race:" + a[0] + "|" + a[1]
}
