// Package seamprefork is the operating-system stand-in for the rewritten package prefork (see engine/mcgen/subst.json):
// a fake process table replaces os/exec, an in-memory listener replaces net.ListenTCP, and GOMAXPROCS / Getppid are
// answered from the harness' configuration. Nothing here forks, binds or blocks for real: a child's life is a
// scripted Behaviour, Wait parks on the controlled scheduler until the child has exited, exits scripted for a virtual
// instant are delivered by virtual timers.
//
// The API surface mirrors exactly what prefork.go uses of exec.Cmd / os.Process / net.TCPListener.
package seamprefork

import (
	"errors"
	"fmt"
	"io"
	"net"
	"os"
	"runtime"
	"syscall"
	"time"

	"github.com/valyala/fasthttp/internal/verif/mcrt"
	mtime "github.com/valyala/fasthttp/internal/verif/mctime"
)

// TermMode says what a fake child does with SIGTERM.
type TermMode int

const (
	TermExit    TermMode = iota // exits at once
	TermIgnore                  // ignores it: only Kill ends the child
	TermDelayed                 // exits TermDelay after the first SIGTERM
)

func (m TermMode) String() string {
	switch m {
	case TermExit:
		return "exit"
	case TermIgnore:
		return "ignore"
	}
	return "delayed"
}

// Behaviour scripts one fake child; the i-th call of Cmd.Start gets Config.Children[i] (Config.Default beyond the list).
type Behaviour struct {
	StartErr  error         // Start fails, no process is created
	ExitAfter time.Duration // > 0: the child exits by itself this long after it was started
	ExitErr   error         // what Wait reports for such an exit (nil: clean exit)
	Term      TermMode
	TermDelay time.Duration
}

// Config is the scripted environment of one execution.
type Config struct {
	Procs     int // answer of GOMAXPROCS(0)
	Children  []Behaviour
	Default   Behaviour
	PidReuse  bool  // Start may hand out the pid of an already reaped child (environment deviation, cost 1)
	ListenErr error // ListenTCP fails
	FileErr   error // (*TCPListener).File fails
	Ppid      int
}

// Proc is the table entry of one fake child.
type Proc struct {
	Spawn     int // index of the Start call that created it
	Pid       int
	B         Behaviour
	StartedAt time.Duration
	Exited    bool
	ExitedAt  time.Duration
	Cause     string        // "self", "term", "kill"
	TermAt    time.Duration // first SIGTERM received while not yet reaped (-1: none)
	KillAt    time.Duration // first Kill received while not yet reaped (-1: none)
	TermAlive bool          // the first SIGTERM found the child alive
	KillAlive bool          // the Kill found the child alive
	WaitCalls int
	WaitAt    time.Duration // first Wait call (-1: none)
	Reaped    bool          // Wait returned
	ReapedAt  time.Duration

	exitTimer, termTimer *mtime.Timer
}

// Event is one entry of the table's log.
type Event struct {
	At    time.Duration
	Kind  string // start start-failed wait wait-return sigterm signal kill exit listen listen-failed file file-failed ln-close
	Spawn int
	Pid   int
	Note  string
}

func (e Event) String() string {
	return fmt.Sprintf("%v %s #%d pid=%d %s", e.At, e.Kind, e.Spawn, e.Pid, e.Note)
}

// Table is the fake operating system of one execution.
type Table struct {
	Cfg       Config
	Procs     []*Proc // successfully started children, in spawn order
	Events    []Event
	Starts    int // Start calls (including failed ones)
	Listeners []*TCPListener
	epoch     uint64
	nextPid   int
	freed     []int // pids of reaped children, oldest first
	procsSet  int
}

var cur *Table

// Reset installs a fresh table for the running execution. Call it first thing in the scenario body.
func Reset(cfg Config) *Table {
	t := &Table{Cfg: cfg, nextPid: 1000}
	if w := mcrt.W(); w != nil {
		t.epoch = w.Epoch()
	}
	cur = t
	return t
}

// tab returns the table of the running execution, or nil when none is installed or the execution is being torn down
// (deferred calls of unwound threads must not touch the record the oracle is about to read).
func tab() *Table {
	w := mcrt.W()
	if w == nil || cur == nil || w.Aborting() || cur.epoch != w.Epoch() {
		return nil
	}
	return cur
}

func now() time.Duration { return time.Duration(mcrt.NowNanos()) }

func (t *Table) log(kind string, spawn, pid int, note string) {
	t.Events = append(t.Events, Event{At: now(), Kind: kind, Spawn: spawn, Pid: pid, Note: note})
}

// Live returns the number of children started and not yet exited.
func (t *Table) Live() int {
	n := 0
	for _, p := range t.Procs {
		if !p.Exited {
			n++
		}
	}
	return n
}

// Snapshot copies the table entries (the oracle compares the state at the instant prefork returned).
func (t *Table) Snapshot() []Proc {
	out := make([]Proc, len(t.Procs))
	for i, p := range t.Procs {
		out[i] = *p
		out[i].exitTimer, out[i].termTimer = nil, nil
	}
	return out
}

func (t *Table) behaviour(i int) Behaviour {
	if i < len(t.Cfg.Children) {
		return t.Cfg.Children[i]
	}
	return t.Cfg.Default
}

func (t *Table) exit(p *Proc, cause string) {
	if p.Exited {
		return
	}
	p.Exited, p.ExitedAt, p.Cause = true, now(), cause
	if p.exitTimer != nil {
		p.exitTimer.Stop()
	}
	if p.termTimer != nil {
		p.termTimer.Stop()
	}
	t.log("exit", p.Spawn, p.Pid, cause)
}

// ---- os/exec ------------------------------------------------------------------------------------------------------

// Cmd stands in for exec.Cmd.
type Cmd struct {
	Path        string
	Args        []string
	Env         []string
	Dir         string
	Stdin       io.Reader
	Stdout      io.Writer
	Stderr      io.Writer
	ExtraFiles  []*os.File
	SysProcAttr *syscall.SysProcAttr
	Process     *Process
	Err         error

	waited bool
}

// Command stands in for exec.Command.
func Command(name string, arg ...string) *Cmd {
	return &Cmd{Path: name, Args: append([]string{name}, arg...)}
}

// Process stands in for os.Process.
type Process struct {
	Pid int
	p   *Proc
}

// ExitError is what Wait returns for a child ended by a signal.
type ExitError struct{ Msg string }

func (e *ExitError) Error() string { return e.Msg }

// Start creates the next fake child according to the script.
func (c *Cmd) Start() error {
	t := tab()
	if t == nil {
		return errors.New("seamprefork: Start outside a scripted execution")
	}
	if c.Process != nil {
		return errors.New("exec: already started")
	}
	i := t.Starts
	t.Starts++
	b := t.behaviour(i)
	if b.StartErr != nil {
		t.log("start-failed", i, 0, b.StartErr.Error())
		mcrt.Covered("spawn-failed")
		return b.StartErr
	}
	pid := 0
	if t.Cfg.PidReuse && len(t.freed) > 0 {
		// the kernel may hand out any free pid; the most recently freed ones are the candidates offered
		n := len(t.freed)
		if n > 2 {
			n = 2
		}
		if k := mcrt.Env(n+1, "pid-reuse"); k > 0 {
			pid = t.freed[len(t.freed)-k]
			t.freed = append(t.freed[:len(t.freed)-k], t.freed[len(t.freed)-k+1:]...)
			mcrt.Covered("pid-reused")
		}
	}
	if pid == 0 {
		pid = t.nextPid
		t.nextPid++
	}
	p := &Proc{Spawn: i, Pid: pid, B: b, StartedAt: now(), TermAt: -1, KillAt: -1, WaitAt: -1}
	t.Procs = append(t.Procs, p)
	c.Process = &Process{Pid: pid, p: p}
	t.log("start", i, pid, "")
	if b.ExitAfter > 0 {
		p.exitTimer = mtime.AfterFunc(b.ExitAfter, func() {
			if tt := tab(); tt == t {
				mcrt.SetName(fmt.Sprintf("child#%d-exits", p.Spawn))
				t.exit(p, "self")
			}
		})
	}
	return nil
}

// Wait parks until the child has exited, then reaps it.
func (c *Cmd) Wait() error {
	t := tab()
	if t == nil {
		return nil
	}
	if c.Process == nil {
		return errors.New("exec: not started")
	}
	if c.waited {
		return errors.New("exec: Wait was already called")
	}
	c.waited = true
	p := c.Process.p
	p.WaitCalls++
	if p.WaitAt < 0 {
		p.WaitAt = now()
	}
	t.log("wait", p.Spawn, p.Pid, "")
	mcrt.WaitUntil("child.wait", func() bool { return p.Exited })
	if tab() != t {
		return nil // unwinding
	}
	p.Reaped, p.ReapedAt = true, now()
	t.freed = append(t.freed, p.Pid)
	t.log("wait-return", p.Spawn, p.Pid, p.Cause)
	switch p.Cause {
	case "term":
		return &ExitError{Msg: "signal: terminated"}
	case "kill":
		return &ExitError{Msg: "signal: killed"}
	}
	return p.B.ExitErr
}

// Signal delivers sig to the child. Like the kernel: a reaped child is gone (os.ErrProcessDone), a zombie accepts the
// signal without effect.
func (pr *Process) Signal(sig os.Signal) error {
	t := tab()
	if t == nil {
		return nil
	}
	p := pr.p
	if p == nil {
		return errors.New("os: process not initialized")
	}
	if p.Reaped {
		t.log("signal", p.Spawn, p.Pid, sig.String()+" (already reaped)")
		return os.ErrProcessDone
	}
	switch sig {
	case syscall.SIGKILL:
		return pr.Kill()
	case syscall.SIGTERM:
		if p.TermAt < 0 {
			p.TermAt, p.TermAlive = now(), !p.Exited
		}
		t.log("sigterm", p.Spawn, p.Pid, "")
		if p.Exited {
			return nil
		}
		switch p.B.Term {
		case TermExit:
			t.exit(p, "term")
		case TermDelayed:
			if p.termTimer == nil {
				p.termTimer = mtime.AfterFunc(p.B.TermDelay, func() {
					if tt := tab(); tt == t {
						mcrt.SetName(fmt.Sprintf("child#%d-exits-after-sigterm", p.Spawn))
						t.exit(p, "term")
					}
				})
			}
		}
		return nil
	}
	t.log("signal", p.Spawn, p.Pid, sig.String())
	return nil
}

// Kill ends the child unconditionally.
func (pr *Process) Kill() error {
	t := tab()
	if t == nil {
		return nil
	}
	p := pr.p
	if p == nil {
		return errors.New("os: process not initialized")
	}
	if p.Reaped {
		t.log("kill", p.Spawn, p.Pid, "(already reaped)")
		return os.ErrProcessDone
	}
	if p.KillAt < 0 {
		p.KillAt, p.KillAlive = now(), !p.Exited
	}
	t.log("kill", p.Spawn, p.Pid, "")
	if !p.Exited {
		t.exit(p, "kill")
	}
	return nil
}

// ---- runtime / os -------------------------------------------------------------------------------------------------

// GOMAXPROCS answers with the scripted processor count (and records, without effect, a request to change it).
func GOMAXPROCS(n int) int {
	t := tab()
	if t == nil || t.Cfg.Procs <= 0 {
		if mcrt.W() != nil {
			return runtime.GOMAXPROCS(0) // never change the real setting of the controlled runtime
		}
		return runtime.GOMAXPROCS(n)
	}
	prev := t.Cfg.Procs
	if t.procsSet > 0 {
		prev = t.procsSet
	}
	if n > 0 {
		t.procsSet = n
	}
	return prev
}

// Getppid answers with the scripted parent pid.
func Getppid() int {
	t := tab()
	if t == nil || t.Cfg.Ppid == 0 {
		return os.Getppid()
	}
	return t.Cfg.Ppid
}

// SetPpid changes the scripted parent pid (the master died and the child was re-parented).
func SetPpid(pid int) {
	if t := tab(); t != nil {
		t.Cfg.Ppid = pid
	}
}

// ---- net ----------------------------------------------------------------------------------------------------------

// TCPListener stands in for net.TCPListener: it is never accepted on by the master, only bound, dup'ed and closed.
type TCPListener struct {
	addr   *net.TCPAddr
	Closed int
	Files  []*os.File
}

// ListenTCP stands in for net.ListenTCP.
func ListenTCP(network string, laddr *net.TCPAddr) (*TCPListener, error) {
	t := tab()
	if t == nil {
		return nil, errors.New("seamprefork: ListenTCP outside a scripted execution")
	}
	if t.Cfg.ListenErr != nil {
		t.log("listen-failed", -1, 0, t.Cfg.ListenErr.Error())
		return nil, &net.OpError{Op: "listen", Net: network, Addr: laddr, Err: t.Cfg.ListenErr}
	}
	l := &TCPListener{addr: laddr}
	t.Listeners = append(t.Listeners, l)
	t.log("listen", -1, 0, network)
	return l, nil
}

func (l *TCPListener) Accept() (net.Conn, error) {
	return nil, errors.New("seamprefork: the master's listener is not served in this model")
}

func (l *TCPListener) Close() error {
	l.Closed++
	if t := tab(); t != nil {
		t.log("ln-close", -1, 0, "")
	}
	if l.Closed > 1 {
		return net.ErrClosed
	}
	return nil
}

func (l *TCPListener) Addr() net.Addr {
	if l.addr == nil {
		return &net.TCPAddr{}
	}
	return l.addr
}

// File stands in for (*net.TCPListener).File: a real, harmless descriptor (the null device) the caller owns.
func (l *TCPListener) File() (*os.File, error) {
	t := tab()
	if t != nil && t.Cfg.FileErr != nil {
		t.log("file-failed", -1, 0, t.Cfg.FileErr.Error())
		return nil, t.Cfg.FileErr
	}
	f, err := os.Open(os.DevNull)
	if err != nil {
		return nil, err
	}
	l.Files = append(l.Files, f)
	if t != nil {
		t.log("file", -1, 0, "")
	}
	return f, nil
}
