#!/usr/bin/env python3
"""tools/regcheck.py Cxx '<json object>' — atomically (file lock) set/merge the entry of one check in checks.json."""
import json, sys, fcntl, os
V = os.path.dirname(os.path.dirname(os.path.abspath(__file__)))
cid, upd = sys.argv[1], json.loads(sys.argv[2])
with open(os.path.join(V, ".checks.lock"), "w") as lk:
    fcntl.flock(lk, fcntl.LOCK_EX)
    p = os.path.join(V, "checks.json")
    c = json.load(open(p))
    e = c.get(cid, {})
    e.update(upd)
    c[cid] = e
    tmp = p + ".tmp"
    json.dump(c, open(tmp, "w"), indent=1, sort_keys=True)
    os.replace(tmp, p)
print(cid, json.dumps(c[cid]))
