#!/usr/bin/env python3
"""tools/seed_verify.py <seed dir> [--checks C01,C02] — confirms an independently written property-breaking change.

<seed dir> contains patch.diff (git diff against /repo HEAD), a demonstration (*_test.go files, copied next to the
package named in meta.json "demo_pkg", default "."), and meta.json {"property": "Cxx", "demo_run": "TestName regexp", ...}.
Steps, all in a scratch git worktree under /tmp that is removed afterwards:
  1. demo passes on the unchanged tree, 2. patch applies and builds, 3. demo fails with the patch,
  4. the repository's own suite (BASELINE stable-pass list) still passes with the patch,
  5. the registered check(s) of the property report a violation with the patch (vcheck --mutant) — quick tier.
Results are written back into meta.json under "verified"."""
import json, os, subprocess, sys, shutil, glob, tempfile, time
V = os.path.dirname(os.path.dirname(os.path.abspath(__file__)))
d = os.path.abspath(sys.argv[1])
meta = json.load(open(os.path.join(d, "meta.json")))
prop = meta["property"]
checks = [prop]
if "--checks" in sys.argv:
    checks = sys.argv[sys.argv.index("--checks") + 1].split(",")
pkg = meta.get("demo_pkg", ".")
run = meta.get("demo_run", ".")
if "--detect-only" in sys.argv:
    # keeps the recorded demonstration / suite results and re-runs only step 5 against the current checks
    res = meta.get("verified", {})
    a = subprocess.run(["git", "-C", "/repo", "apply", "--check", os.path.join(d, "patch.diff")], capture_output=True, text=True)
    res["patch_applies"] = a.returncode == 0
    res["detect_at"] = time.strftime("%Y-%m-%dT%H:%M:%SZ", time.gmtime())
    det = {}
    for c in checks if a.returncode == 0 else []:
        r = subprocess.run([os.path.join(V, "vcheck"), c, meta.get("detect_tier", "quick"), "--solo", "--mutant", os.path.join(d, "patch.diff")], cwd=V,
                           capture_output=True, text=True, env=dict(os.environ, **meta.get("detect_env", {})))
        sigs = [l.strip() for l in r.stdout.splitlines() if l.strip().startswith("class:")]
        det[c] = {"exit": r.returncode, "detected": r.returncode == 1, "classes": [x[:300] for x in sigs[:6]]}
        if r.returncode == 2:
            det[c]["tool_error"] = r.stdout[-800:]
    res["checks"] = det
    meta["verified"] = res
    json.dump(meta, open(os.path.join(d, "meta.json"), "w"), indent=1)
    print(os.path.basename(d), {c: (x["detected"], x["exit"]) for c, x in det.items()}, "applies" if a.returncode == 0 else "DOES NOT APPLY")
    sys.exit(0)
wt = tempfile.mkdtemp(prefix="seedverify-", dir="/tmp")
os.rmdir(wt)
env = dict(os.environ, GOFLAGS="-mod=mod", GOPROXY="off")
res = {"at": time.strftime("%Y-%m-%dT%H:%M:%SZ", time.gmtime())}
def sh(cmd, cwd=None, **kw):
    return subprocess.run(cmd, cwd=cwd, env=env, capture_output=True, text=True, errors="replace", **kw)
try:
    r = sh(["git", "-C", "/repo", "worktree", "add", "--detach", wt, "HEAD"])
    assert r.returncode == 0, r.stderr
    demos = [f for f in glob.glob(os.path.join(d, "*_test.go"))]
    for f in demos:
        shutil.copy(f, os.path.join(wt, pkg, os.path.basename(f)))
    def demo():
        r = sh(["go", "test", "-vet=off", "-count=1"] + meta.get("demo_flags", "").split() + ["-run", run, "./" + pkg], cwd=wt)
        return r.returncode == 0, (r.stdout + r.stderr)[-1500:]
    ok, out = demo()
    res["demo_passes_without_patch"] = ok
    if not ok:
        res["demo_output_without_patch"] = out
    r = sh(["git", "apply", os.path.join(d, "patch.diff")], cwd=wt)
    res["patch_applies"] = r.returncode == 0
    if r.returncode != 0:
        res["apply_error"] = r.stderr[-800:]
    else:
        r = sh(["go", "build", "./..."], cwd=wt)
        res["builds"] = r.returncode == 0
        ok, out = demo()
        res["demo_fails_with_patch"] = not ok
        res["demo_output_with_patch"] = out[-600:]
        for f in demos:
            os.remove(os.path.join(wt, pkg, os.path.basename(f)))
        e2 = dict(env, VERIF_REPO=wt)
        r = subprocess.run(["python3", os.path.join(V, "tools", "baseline.py")], env=e2, capture_output=True, text=True)
        res["repo_suite_passes_with_patch"] = r.returncode == 0
        res["repo_suite_output"] = r.stdout[-600:]
    det = {}
    if res.get("patch_applies"):
        for c in checks:
            r = subprocess.run([os.path.join(V, "vcheck"), c, "quick", "--mutant", os.path.join(d, "patch.diff")], cwd=V, capture_output=True, text=True)
            sigs = [l.strip() for l in r.stdout.splitlines() if l.strip().startswith("class:")]
            det[c] = {"exit": r.returncode, "detected": r.returncode == 1, "classes": [s[:300] for s in sigs[:6]]}
            if r.returncode == 2:
                det[c]["tool_error"] = r.stdout[-800:]
    res["checks"] = det
finally:
    sh(["git", "-C", "/repo", "worktree", "remove", "--force", wt])
    shutil.rmtree(wt, ignore_errors=True)
meta["verified"] = res
json.dump(meta, open(os.path.join(d, "meta.json"), "w"), indent=1)
print(json.dumps(res, indent=1))
