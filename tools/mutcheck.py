#!/usr/bin/env python3
"""tools/mutcheck.py [Cxx ...] — runs every deliberate property-breaking patch in /verif/mutations/ through its check
(vcheck --mutant, quick tier) and records in mutations/RESULTS.json whether the check reported a violation."""
import glob, json, os, subprocess, sys, re, time, fcntl
V = os.path.dirname(os.path.dirname(os.path.abspath(__file__)))
only = set(sys.argv[1:])
resp = os.path.join(V, "mutations", "RESULTS.json")
res = {}
def save():
    # several mutcheck processes (different check ids) may run at once: merge under a lock
    with open(resp + ".lock", "w") as lk:
        fcntl.flock(lk, fcntl.LOCK_EX)
        cur = json.load(open(resp)) if os.path.exists(resp) else {}
        cur.update(res)
        json.dump(cur, open(resp, "w"), indent=1, sort_keys=True)
cs = json.load(open(os.path.join(V, "checks.json")))
for p in sorted(glob.glob(os.path.join(V, "mutations", "C*.diff"))):
    name = os.path.basename(p)[:-5]
    cid = name.split("-")[0]
    if only and cid not in only:
        continue
    if cid not in cs:
        continue
    # does the patch still apply to the current tree?
    a = subprocess.run(["git", "-C", "/repo", "apply", "--check", p], capture_output=True, text=True)
    if a.returncode != 0:
        a2 = subprocess.run(["patch", "-p1", "--dry-run", "-s", "-d", "/repo", "-i", p], capture_output=True, text=True)
        if a2.returncode != 0:
            res[name] = {"applies": False, "note": (a.stderr + a2.stdout)[-300:]}
            print(name, "DOES NOT APPLY")
            continue
    t0 = time.time()
    # optional sidecar <name>.opts.json: {"tier": "thorough", "env": {...}} for changes that need the deeper bound
    opts = {}
    if os.path.exists(p[:-5] + ".opts.json"):
        opts = json.load(open(p[:-5] + ".opts.json"))
    r = subprocess.run([os.path.join(V, "vcheck"), cid, opts.get("tier", "quick"), "--solo", "--mutant", p], cwd=V, capture_output=True, text=True, env=dict(os.environ, **opts.get("env", {})))
    classes = [re.sub(r"^\s*class: ", "", l).split(" (")[0] for l in r.stdout.splitlines() if l.strip().startswith("class:")]
    res[name] = {"applies": True, "exit": r.returncode, "detected": r.returncode == 1, "classes": classes[:8], "wall_s": round(time.time() - t0, 1)}
    if opts:
        res[name]["opts"] = opts
    if r.returncode == 2:
        res[name]["tool_error"] = r.stdout[-400:]
    print(name, "detected" if r.returncode == 1 else "NOT DETECTED rc=%d" % r.returncode, classes[:2], flush=True)
    save()
save()
