#!/bin/bash
# usage: collect4.sh NN   -- copies deliverables of /tmp/seed-R5-NN to /verif/seeded/<ID>-4 and removes the worktree
wt=/tmp/seed-R5-$1
for d in $wt/_seed/C*/; do
  id=$(basename $d)
  dst=/verif/seeded/$id-5
  mkdir -p $dst
  cp $d/patch.diff $d/meta.json $dst/ 2>/dev/null
  cp $d/zz_seed_*_test.go $dst/ 2>/dev/null
  ls $dst | tr '\n' ' '; echo " <- $id"
  git -C /repo apply --check $dst/patch.diff && echo "  applies"
done
git -C /repo worktree remove --force $wt && rm -rf $wt
