#!/usr/bin/env python3
"""Regenerates sections 9.2 / 9.3 of DESIGN.md (between the AUTOGEN markers) from evidence/*.json,
mutations/RESULTS.json and seeded/*/meta.json."""
import json, os, glob, re
V = os.path.dirname(os.path.dirname(os.path.abspath(__file__)))
cs = json.load(open(os.path.join(V, "checks.json")))
props = {json.loads(l)["id"]: json.loads(l) for l in open(os.path.join(V, "properties.jsonl"))}
out = []
out.append("### 9.2 Coverage of the last committed run of every check (from `evidence/*.json`)\n")
out.append("| id | level | tier | cases / executions | distinct non-trivial | states / transitions | exhaustive | known findings reproduced | wall s |")
out.append("|---|---|---|---|---|---|---|---|---|")
for cid in sorted(cs):
    p = os.path.join(V, "evidence", cid + ".json")
    if not os.path.exists(p):
        out.append(f"| {cid} | - | - | no evidence yet | | | | | |")
        continue
    e = json.load(open(p)); c = e["coverage"]
    st = ""
    if "states" in c:
        st = f"{c.get('states')} / {c.get('transitions')}"
    out.append(f"| {cid} | {e['level']} | {e['tier']} | {c.get('evaluations')} | {c.get('distinct_nontrivial')} | {st} | {c.get('exhaustive')} | {len(c.get('known_findings_reproduced', []))} | {e.get('wall_s')} |")
out.append("")
out.append("What is enumerated and what makes a case non-trivial is stated per check in the `rule` field of its evidence file and in the header comment of its harness; model-checking checks list per scenario the bound completed (`bound_completed`), the number of executions, outcome classes and covered tags.\n")
out.append("### 9.3 Which check catches which property-breaking change\n")
out.append("**Deliberate mutations** (`/verif/mutations/*.diff`, run by `tools/mutcheck.py` through `vcheck <id> quick --solo --mutant`, results in `mutations/RESULTS.json`):\n")
rp = os.path.join(V, "mutations", "RESULTS.json")
res = json.load(open(rp)) if os.path.exists(rp) else {}
out.append("| mutation | detected by its check | violation classes (first few) |")
out.append("|---|---|---|")
nd = 0
for name in sorted(res):
    r = res[name]
    if not r.get("applies", True):
        out.append(f"| {name} | patch no longer applies to the repaired tree | {r.get('note','')[:80]} |")
        continue
    if not r.get("detected"):
        nd += 1
    cl = "; ".join(c[:90] for c in r.get("classes", [])[:3])
    out.append(f"| {name} | {'yes' if r.get('detected') else 'NO (exit %s)' % r.get('exit')} | {cl} |")
out.append("")
out.append("**Independently written changes** (`/verif/seeded/<id>/`: written by fresh sub-agents that were given only the property text and a scratch worktree; confirmed by `tools/seed_verify.py`: demonstration passes without and fails with the change, the repository suite still passes with it, and the check is run with `--mutant`):\n")
out.append("| property | change | needs to manifest | repo suite passes | demo fails with change | caught by check | classes |")
out.append("|---|---|---|---|---|---|---|")
for d in sorted(glob.glob(os.path.join(V, "seeded", "C*"))):
    m = json.load(open(os.path.join(d, "meta.json")))
    v = m.get("verified", {})
    ch = v.get("checks", {})
    det = ", ".join(f"{c}: {'yes' if x.get('detected') else 'NO'}" for c, x in ch.items()) or "not verified yet"
    cls = "; ".join(re.sub(r"^class: ", "", c)[:80] for x in ch.values() for c in x.get("classes", [])[:2])
    summ = (m.get("summary", "") or "").replace("|", "/").replace("\n", " ")
    need = (m.get("needs_to_manifest", "") or "").replace("|", "/").replace("\n", " ")
    out.append(f"| {m['property']} | {summ[:230]} | {need[:200]} | {v.get('repo_suite_passes_with_patch')} | {v.get('demo_fails_with_patch')} | {det} | {cls[:200]} |")
out.append("")
text = "\n".join(out)
p = os.path.join(V, "DESIGN.md")
s = open(p).read()
b, e = "<!-- AUTOGEN-RESULTS-BEGIN -->", "<!-- AUTOGEN-RESULTS-END -->"
if b not in s:
    s += "\n" + b + "\n" + e + "\n"
s = s[:s.index(b) + len(b)] + "\n" + text + "\n" + s[s.index(e):]
open(p, "w").write(s)
print("DESIGN.md sections 9.2/9.3 regenerated; undetected mutations:", nd)
