#!/usr/bin/env python3
"""Generates /verif/MANIFEST.json from checks.json (+ not_applicable.json) and validates it against the schema."""
import json, os, sys
V = os.path.dirname(os.path.dirname(os.path.abspath(__file__)))
cs = json.load(open(os.path.join(V, "checks.json")))
props = [json.loads(l) for l in open(os.path.join(V, "properties.jsonl"))]
na = json.load(open(os.path.join(V, "not_applicable.json"))) if os.path.exists(os.path.join(V, "not_applicable.json")) else {}
checks = []
for p in props:
    cid = p["id"]
    if cid not in cs or not cs[cid].get("ready"):
        continue
    s = cs[cid]
    checks.append({
        "property_id": cid,
        "quick_cmd": "./vcheck %s quick" % cid,
        "thorough_cmd": "./vcheck %s thorough" % cid,
        "evidence_file": "/verif/evidence/%s.json" % cid,
        "replay_cmd_template": "./vcheck %s quick --replay {path}" % cid,
        "engine": s.get("engine", "seqx" if s["profile"] in ("plain", "obs") else "mcx"),
        "level_claimed": {"category": s.get("level", "exploration"), "text": s.get("level_text", ""), "design_ref": "DESIGN.md section 4, " + cid},
        "level_note": s.get("level_note", ""),
        "technique": s.get("technique", "exhaustive bounded enumeration against a reference model"),
    })
nal = []
for p in props:
    if p["id"] not in cs or not cs[p["id"]].get("ready"):
        nal.append({"property_id": p["id"], "reason": na.get(p["id"], "no check built yet (work in progress); not claimed")})
m = {
    "version": 1,
    "setup_cmd": "./vcheck setup",
    "hooks": {"guard": "verif", "enable": "go test -tags verif -overlay <generated>: harness test files and (profile mc) rewritten sources are injected at build time by /verif/vcheck; no instrumentation is committed to /repo",
              "baseline_off_cmd": "python3 /verif/tools/baseline.py", "source_commits": [], "add_only": True},
    "engines": [
        {"name": "seqx", "path": "engine/seqx", "serves_properties": [c for c in cs if cs[c]["profile"] in ("plain", "obs") and cs[c].get("ready")], "kind_free_text": "exhaustive enumerators (all strings <= n, k-deviation products, op sequences, byte mutations) driving the real code against reference models (engine/refs) and scripted connections (engine/vnet)"},
        {"name": "mcx", "path": "engine/mcrt", "serves_properties": [c for c in cs if cs[c]["profile"] not in ("plain", "obs") and cs[c].get("ready")], "kind_free_text": "stateless model checker: controlled cooperative scheduler over the rewritten real sources (engine/mcgen), preemption/deviation-bounded DFS over schedules, select choices, virtual-time timer orders and environment answers"},
    ],
    "checks": checks,
    "not_applicable": nal,
    "notes": "All checks rebuild from /repo's current working tree via go test -overlay; see DESIGN.md.",
}
json.dump(m, open(os.path.join(V, "MANIFEST.json"), "w"), indent=1)
try:
    import jsonschema
    jsonschema.validate(m, json.load(open("/root/.vp/MANIFEST.schema.json")))
    print("MANIFEST.json valid: %d checks, %d not claimed" % (len(checks), len(nal)))
except ImportError:
    print("jsonschema not available; wrote MANIFEST.json unvalidated")
