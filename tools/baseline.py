#!/usr/bin/env python3
"""Runs the repository's own test suite (guard OFF: no overlay, no verif tag) on /repo's working tree and compares
with the stable-pass list of /root/.vp/BASELINE.json. Exit 0 iff every stable-pass test passed."""
import json, subprocess, sys, os
repo = os.environ.get("VERIF_REPO", "/repo")
base = json.load(open("/root/.vp/BASELINE.json"))
want = set(base["stable_pass"])
env = dict(os.environ, GOFLAGS="-mod=mod", GOPROXY="off")
p = subprocess.run(["go", "test", "-json", "-vet=off", "-count=1", "-timeout", "25m", "./..."], cwd=repo, env=env, capture_output=True, text=True)
passed, failed = set(), set()
for line in p.stdout.splitlines():
    try:
        e = json.loads(line)
    except Exception:
        continue
    if e.get("Test") and e.get("Action") in ("pass", "fail"):
        (passed if e["Action"] == "pass" else failed).add(e["Package"] + "::" + e["Test"])
missing = sorted(want - passed)
# Timing-sensitive tests (the *Concurrent and timeout tests) fail sporadically when the machine is loaded: a test that
# is missing after the full run is re-run alone (up to 8 times) and only counts as failing if it never passes.
flaky = []
for m in list(missing):
    pkg, name = m.split("::")
    rel = "." + pkg[len("github.com/valyala/fasthttp"):]
    for _ in range(8):
        r = subprocess.run(["go", "test", "-vet=off", "-count=1", "-run", "^" + name.split("/")[0] + "$", rel], cwd=repo, env=env, capture_output=True, text=True)
        if r.returncode == 0:
            missing.remove(m)
            flaky.append(m)
            break
if flaky:
    print("passed only when re-run alone (load-sensitive): " + ", ".join(flaky))
print("stable-pass tests: %d, passed now: %d, missing/failed: %d" % (len(want), len(want & passed), len(missing)))
for m in missing[:40]:
    print("  NOT PASSING:", m)
sys.exit(1 if missing else 0)
