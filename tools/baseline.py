#!/usr/bin/env python3
"""Runs the repository's own test suite (guard OFF: no overlay, no verif tag) on /repo's working tree and compares
with the stable-pass list of /root/.vp/BASELINE.json. Exit 0 iff every stable-pass test passed."""
import json, subprocess, sys, os
repo = os.environ.get("VERIF_REPO", "/repo")
base = json.load(open("/root/.vp/BASELINE.json"))
want = set(base["stable_pass"])
env = dict(os.environ, GOFLAGS="-mod=mod", GOPROXY="off")
p = subprocess.run(["go", "test", "-json", "-vet=off", "-count=1", "-timeout", "25m", "./..."], cwd=repo, env=env, capture_output=True, text=True)
passed, failed = set(), set()
for line in p.stdout.splitlines():
    try:
        e = json.loads(line)
    except Exception:
        continue
    if e.get("Test") and e.get("Action") in ("pass", "fail"):
        (passed if e["Action"] == "pass" else failed).add(e["Package"] + "::" + e["Test"])
missing = sorted(want - passed)
print("stable-pass tests: %d, passed now: %d, missing/failed: %d" % (len(want), len(want & passed), len(missing)))
for m in missing[:40]:
    print("  NOT PASSING:", m)
sys.exit(1 if missing else 0)
